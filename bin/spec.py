"""Table of checks: property -> parts (package, test, case counts) and manifest texts."""

KS = "./provider/internal/keyspace/"

CHECKS = {
    "C18": {
        "engine": "model",
        "level": "exploration",
        "technique": "differential property-based testing: exhaustive small-scope enumeration + rapid over 256-bit pooled keys, vs brute-force definitions",
        "level_text": "Every keyspace function is compared with a brute-force definition over explicit bit strings: exhaustively for every "
                      "prefix-free set / item set / destination set of short keys (complete small scope), and with rapid-generated clustered "
                      "256-bit key sets. This decides the property for all small inputs and samples the large ones; it is the right level "
                      "because the functions are pure and generic over the key type.",
        "level_note": "Trusts go-libdht's trie Add/Copy and the harness' reference definitions; NextNonEmptyLeaf is asserted only on the "
                      "domain its callers use (key present, or unrelated to every key of a prefix-free trie).",
        "parts": [
            {"part": "alloc-exh", "pkg": KS, "test": "TestVerif_C18_AllocExh", "kind": "enum", "quick": 1, "thorough": 1, "shards": 1},
            {"part": "alloc-256", "pkg": KS, "test": "TestVerif_C18_Alloc256", "quick": 3000, "thorough": 20000},
        {"part": "alloc-256-gofuzz", "pkg": KS, "fuzz": "FuzzVerif_C18_Alloc256", "fuzz_seconds": 30, "quick": 0, "thorough": 0, "test": "FuzzVerif_C18_Alloc256"},
            {"part": "regions", "pkg": KS, "test": "TestVerif_C18_Regions", "quick": 3000, "thorough": 25000},
        {"part": "regions-gofuzz", "pkg": KS, "fuzz": "FuzzVerif_C18_Regions", "fuzz_seconds": 45, "quick": 0, "thorough": 0, "test": "FuzzVerif_C18_Regions"},
            {"part": "prefixops-exh", "pkg": KS, "test": "TestVerif_C18_PrefixOpsExh", "kind": "enum", "quick": 1, "thorough": 1, "shards": 1},
            {"part": "subtract-exh", "pkg": KS, "test": "TestVerif_C18_SubtractExh", "kind": "enum", "quick": 1, "thorough": 1, "shards": 1},
            {"part": "prefixops-rand", "pkg": KS, "test": "TestVerif_C18_PrefixOpsRand", "quick": 2000, "thorough": 20000},
        {"part": "prefixops-rand-gofuzz", "pkg": KS, "fuzz": "FuzzVerif_C18_PrefixOpsRand", "fuzz_seconds": 45, "quick": 0, "thorough": 0, "test": "FuzzVerif_C18_PrefixOpsRand"},
            {"part": "shortest-covered", "pkg": KS, "test": "TestVerif_C18_ShortestCovered", "quick": 3000, "thorough": 20000},
        ],
    },
}

Q = "./provider/internal/queue/"
CHECKS["C19"] = {
    "engine": "model",
    "level": "exploration",
    "technique": "model-based (state machine) property testing with rapid against a list+set reference model, incl. persist/drain round trips",
    "level_text": "Generated operation histories are applied to the real queues and to a list-of-prefixes + key-set reference model; order, "
                  "membership, sizes and the internal prefix trie are compared after every step, every dequeue result is compared, and persist->drain "
                  "round trips (fresh, pre-filled, over a stale persist) must restore the model state. Exploration level: histories are sampled, not enumerated.",
    "level_note": "Trusts the reference model (documented absorption rule) and go-datastore's MapDatastore as the persistence substrate; keys always match the "
                  "prefix they are enqueued under (documented precondition). Crash points inside Persist are not asserted (the property does not define a partial persist).",
    "parts": [
        {"part": "provide-queue", "pkg": Q, "test": "TestVerif_C19_ProvideQueue", "quick": 8000, "thorough": 60000},
        {"part": "provide-queue-gofuzz", "pkg": Q, "fuzz": "FuzzVerif_C19_ProvideQueue", "fuzz_seconds": 45, "quick": 0, "thorough": 0, "test": "FuzzVerif_C19_ProvideQueue"},
        {"part": "reprovide-queue", "pkg": Q, "test": "TestVerif_C19_ReprovideQueue", "quick": 8000, "thorough": 60000},
        {"part": "reprovide-queue-gofuzz", "pkg": Q, "fuzz": "FuzzVerif_C19_ReprovideQueue", "fuzz_seconds": 45, "quick": 0, "thorough": 0, "test": "FuzzVerif_C19_ReprovideQueue"},
    ],
}

KSP = "./provider/keystore/"
CHECKS["C20"] = {
    "engine": "storesched",
    "level": "fault_enumeration",
    "technique": "model-based property testing (rapid) + exhaustive crash-point enumeration per generated history on a journaling datastore; schedule-controlled reset interleavings; datastore error injection",
    "level_text": "Generated histories are compared with a set model after every step; for every history every crash instant and every admissible "
                  "journal cut (per physical datastore, respecting Sync) is enumerated and the keystore reopened on the reconstructed state. Reset interleavings "
                  "with concurrent puts are driven through yield points, and every datastore call of a reset is failed in turn. Fault points are enumerated "
                  "exhaustively per history; histories themselves are sampled.",
    "level_note": "Crash model: per-datastore journal prefix containing everything up to the last Sync, atomic batch commits, immediate durable destroy; "
                  "torn writes and reordering of unsynced writes are not modelled. In-memory journaling datastore stands in for pebble/leveldb.",
    "parts": [
        {"part": "history-crash", "pkg": KSP, "test": "TestVerif_C20_History", "quick": 3000, "thorough": 20000},
        {"part": "reset-faults", "pkg": KSP, "test": "TestVerif_C20_ResetFaults", "quick": 300, "thorough": 4000},
        {"part": "reset-interleave", "pkg": KSP, "test": "TestVerif_C20_ResetInterleave", "quick": 1200, "thorough": 8000},
        {"part": "cancelled-ops", "pkg": KSP, "test": "TestVerif_C20_CancelledOps", "quick": 2000, "thorough": 20000},
    ],
}

REC = "./records/"
CHECKS["C05"] = {
    "engine": "storesched",
    "level": "exploration",
    "technique": "stateful property testing (rapid) under virtual time with a write-log invariant oracle + schedule-controlled interleavings of datastore calls",
    "level_text": "Generated histories (virtual time, planted garbage, GC, restarts) and generated interleavings of concurrent Put/Get at datastore-call granularity are "
                  "executed against the real ValueStore; the oracle is an invariant over the datastore write log (valid, correctly keyed, stamped with the store's clock whatever the sender's record carried, never downgraded, only expired "
                  "entries deleted) plus read/put outcomes derived from it. A third part drives a real IpfsDHT: local PutValue, the PUT_VALUE / GET_VALUE handlers, local reads and GetValue run as actors over one journaling value datastore, "
                  "with every datastore call and every Validate/Select call as a yield point under a drawn schedule (a remote put can land between PutValue's own compare and its write). Exploration: histories and schedules are sampled.",
    "level_note": "Interleavings are explored at datastore calls and lock acquisitions only; the test validator is a total order on (rank, junk); the in-memory journaling "
                  "datastore stands in for the real one; ValueStore.Put is driven with rec.Key == key as all callers do (the handler-level key check is exercised at DHT level).",
    "parts": [
        {"part": "history", "pkg": REC, "test": "TestVerif_C05_History", "quick": 4000, "thorough": 30000},
        {"part": "history-gofuzz", "pkg": REC, "fuzz": "FuzzVerif_C05_History", "fuzz_seconds": 45, "quick": 0, "thorough": 0, "test": "FuzzVerif_C05_History"},
        {"part": "interleave", "pkg": REC, "test": "TestVerif_C05_Interleave", "quick": 600, "thorough": 8000},
        {"part": "node", "pkg": "./", "test": "TestVerif_C05_Node", "quick": 400, "thorough": 6000},
    ],
}

CHECKS["C07"] = {
    "engine": "storesched",
    "level": "exploration",
    "technique": "model-based stateful property testing (rapid) under virtual time + schedule-controlled interleavings of datastore calls with the documented exception implemented literally",
    "level_text": "Generated add/query/clock/GC/restart/close histories (some additions refused by the datastore) run against the real ProviderManager (tiny LRU, journaling datastore, synctest clock) and are compared with a "
                  "(key,peer)->last-addition model at every read; a second part interleaves adders, readers, the expiry sweep and Close at datastore-call granularity under a drawn schedule. "
                  "Exploration: histories and schedules are sampled.",
    "level_note": "The validity boundary itself is accepted either way; interleavings are explored at datastore calls and mutex acquisitions; the journaling in-memory datastore "
                  "(go-datastore NaiveQueryApply prefix semantics) stands in for the real one; the sweep is invoked directly (collectExpired) in the interleaving part.",
    "parts": [
        {"part": "history", "pkg": REC, "test": "TestVerif_C07_History", "quick": 4000, "thorough": 30000},
        {"part": "history-gofuzz", "pkg": REC, "fuzz": "FuzzVerif_C07_History", "fuzz_seconds": 45, "quick": 0, "thorough": 0, "test": "FuzzVerif_C07_History"},
        {"part": "interleave", "pkg": REC, "test": "TestVerif_C07_Interleave", "quick": 600, "thorough": 8000},
    ],
}

ROOT = "./"
CHECKS["C01"] = {
    "engine": "simnet",
    "level": "exploration",
    "technique": "property-based testing (rapid) of the real lookup over a simulated network under synctest virtual time; history-invariant oracle over result, lookup events and the simulated peers' log",
    "level_text": "Generated adversarial networks (faults, liars, latencies that fix the arrival order, filters) are executed against the real GetClosestPeers inside a virtual-time bubble; "
                  "the oracle recomputes learned/failed sets from the simulation log with the documented ingress rules and checks result exactness and event/log agreement; a second part cancels the caller's context at a drawn instant and holds what is returned with the context error to the same clauses. Exploration: scenarios are sampled.",
    "level_note": "The transport is a model (fake host and message sender honouring context cancellation, 10 s read and 60 s dial timeouts); peer ids are arbitrary multihashes; "
                  "the routing table library (go-libp2p-kbucket) is trusted for the seed selection that is observed, not predicted.",
    "parts": [
        {"part": "adversarial", "pkg": ROOT, "test": "TestVerif_C01_Adversarial", "quick": 6000, "thorough": 40000},
        {"part": "cancelled", "pkg": ROOT, "test": "TestVerif_C01_Cancelled", "quick": 4500, "thorough": 30000},
        {"part": "stalled-events", "pkg": ROOT, "test": "TestVerif_C01_StalledEvents", "quick": 3000, "thorough": 25000},
    ],
}
CHECKS["C02"] = {
    "engine": "simnet",
    "level": "exploration",
    "technique": "property-based testing (rapid) over consistent Kademlia networks built by construction, with a brute-force global nearest-K oracle and a termination/contact invariant over the simulation log",
    "level_text": "Networks satisfying the k-bucket completeness assumption are constructed (not filtered) and the real lookup must return the globally nearest peer first (exact K nearest when "
                  "everyone knows everyone); the adversarial scenarios of C01 are reused for the termination/contact clauses. Exploration: networks and arrival orders are sampled.",
    "level_note": "Same simulated transport as C01; 'has received answers from the beta nearest' is judged from processed-answer events cross-checked against the simulation log.",
    "parts": [
        {"part": "convergence", "pkg": ROOT, "test": "TestVerif_C02_Convergence", "quick": 1600, "thorough": 15000},
        {"part": "contact", "pkg": ROOT, "test": "TestVerif_C02_Contact", "quick": 3000, "thorough": 30000},
    ],
}

CHECKS["C03"] = {
    "engine": "simnet",
    "level": "exploration",
    "technique": "property-based testing (rapid) of every routing operation over a simulated faulty network under synctest virtual time; bounded-virtual-time liveness oracle, goroutine census after Close",
    "level_text": "Every public routing operation is run against generated fault patterns and cancellation instants inside a virtual-time bubble. 'Eventually returns' is decided as "
                  "'returns within 1 s of virtual time after the last contacted peer answered, failed or timed out (or after cancellation)', 'work ends by itself' as 'no goroutine of the bubble alive "
                  "10 min after the return and after Close'. Exploration: scenarios are sampled.",
    "level_note": "Transport model honours context cancellation and its own timeouts (10 s read, 60 s dial, 30 s put); liveness only as bounded virtual time; FullRT and dual clients are exercised in their own checks (C16, C15).",
    "parts": [
        {"part": "operations", "pkg": ROOT, "test": "TestVerif_C03_Operations", "quick": 5000, "thorough": 40000},
        {"part": "fullrt", "pkg": "./fullrt/", "test": "TestVerif_C03_FullRT", "quick": 1500, "thorough": 20000},
        {"part": "dual", "pkg": "./dual/", "test": "TestVerif_C03_Dual", "quick": 1200, "thorough": 16000},
    ],
}

CHECKS["C04"] = {
    "engine": "simnet",
    "level": "exploration",
    "technique": "property-based testing (rapid) of value searches over simulated responders with assigned valid/stale/invalid/mis-keyed records; validity, strict-improvement and best-of-supplied oracle",
    "level_text": "Generated assignments of records to responders and local storage, quorums and arrival orders are executed against the real SearchValue/GetValue/GetPublicKey; every yielded value is "
                  "re-validated, the stream must be strictly improving and the final value at least as good as every valid value supplied before the stream ended. Exploration: scenarios are sampled.",
    "level_note": "Test validator = order on rank with ties between byte variants (Select keeps the first of equals) and an optional end-of-life under the virtual clock; parts: standard client, accelerated client (FullRT over a fake crawl), GetPublicKey with fixed non-inlined ECDSA keys; the dual client's GetValue preference is checked in C15.",
    "parts": [
        {"part": "values", "pkg": ROOT, "test": "TestVerif_C04_Values", "quick": 5000, "thorough": 40000},
        {"part": "fullrt", "pkg": "./fullrt/", "test": "TestVerif_C04_FullRT", "quick": 2400, "thorough": 20000},
        {"part": "public-key", "pkg": ROOT, "test": "TestVerif_C04_PublicKey", "quick": 3000, "thorough": 25000},
        {"part": "dual", "pkg": "./dual/", "test": "TestVerif_C04_Dual", "quick": 1500, "thorough": 12000},
    ],
}

CHECKS["C06"] = {
    "engine": "simnet",
    "level": "exploration",
    "technique": "property-based testing (rapid) of PutValue/Provide/corrective puts over a simulated network; recipient-set and payload oracle over the simulation log, lookup result recomputed from validated lookup events",
    "level_text": "Generated networks, recipient faults, host address sets and filters are run against the real PutValue, classic and optimistic Provide and completed SearchValue; the oracle compares the set of "
                  "recipients and the payload of every write RPC in the simulation log with the lookup result and the filtered address set. Exploration: scenarios are sampled.",
    "level_note": "The lookup result R is recomputed from lookup events (validated against the simulation in C01); address classes are recognised by construction; FullRT bulk writes are covered by C16.",
    "parts": [
        {"part": "writes", "pkg": ROOT, "test": "TestVerif_C06_Writes", "quick": 5000, "thorough": 40000},
        {"part": "fullrt", "pkg": "./fullrt/", "test": "TestVerif_C06_FullRT", "quick": 1500, "thorough": 20000},
        {"part": "fullrt-bulk", "pkg": "./fullrt/", "test": "TestVerif_C06_FullRTBulk", "quick": 800, "thorough": 10000},
        {"part": "fullrt-search", "pkg": "./fullrt/", "test": "TestVerif_C06_FullRTSearch", "quick": 1200, "thorough": 12000},
    ],
}

CHECKS["C08"] = {
    "engine": "simnet",
    "level": "exploration",
    "technique": "property-based testing (rapid) of FindProvidersAsync over simulated responders with assigned provider records; soundness/bound/stop oracle over the channel and the simulation log",
    "level_text": "Generated distributions of provider records over responders and local storage, counts, arrival orders and cancellation instants are run against the real FindProvidersAsync; the oracle checks "
                  "soundness, the count bound, the repeat rule, completeness for count 0 and that no request starts after the count was reached. Exploration: scenarios are sampled.",
    "level_note": "Three parts: the standard client, the accelerated client (FullRT over a fake crawl) and the dual client's merge of the WAN and LAN searches.",
    "parts": [
        {"part": "find-providers", "pkg": ROOT, "test": "TestVerif_C08_FindProviders", "quick": 5000, "thorough": 40000},
        {"part": "fullrt", "pkg": "./fullrt/", "test": "TestVerif_C08_FullRT", "quick": 2400, "thorough": 20000},
        {"part": "dual-merge", "pkg": "./dual/", "test": "TestVerif_C08_DualMerge", "quick": 1200, "thorough": 8000},
    ],
}

CHECKS["C09"] = {
    "engine": "simnet",
    "level": "exploration",
    "technique": "structured property-based fuzzing (rapid) of the real stream handler over fake inbound streams, plus native go-fuzz on raw frames in the thorough tier; validity-predicate oracle on the bytes read back and on store effects",
    "level_text": "Generated node states and request sequences (every message type, adversarial field contents, malformed frames) are written to the real handleNewStream over in-memory streams; the oracle parses the bytes read back "
                  "and checks the protocol bounds, the store effects of ADD_PROVIDER/PUT_VALUE and that the node keeps serving. Exploration: inputs are sampled (structured generator primary, byte-level mutations secondary).",
    "level_note": "Transport = in-memory pipe with msgio framing exactly as on a libp2p stream; message size limit taken from network.MessageSizeMax; the closer-peer clauses are judged against the node's own routing table and peerstore.",
    "parts": [
        {"part": "server", "pkg": ROOT, "test": "TestVerif_C09_Server", "quick": 1500, "thorough": 25000},
        {"part": "server-gofuzz", "pkg": ROOT, "fuzz": "FuzzVerif_C09_Server", "fuzz_seconds": 90, "quick": 0, "thorough": 0, "test": "FuzzVerif_C09_Server"},
    ],
}

PBP = "./pb/"
CHECKS["C10"] = {
    "engine": "wire",
    "level": "exploration",
    "technique": "structured property-based fuzzing (rapid) of the client side: ProtocolMessenger methods against generated responses over the whole schema (round-tripped through bytes), the real message sender against byte-level remote behaviour, lookups against flooding peers",
    "level_text": "Three layers: ProtocolMessenger methods over a fake sender returning generated responses; the real message sender over fake streams whose remote end writes arbitrary bytes, oversize frames, nothing, or closes mid-frame; "
                  "public lookups where simulated peers flood. Oracle: result or error, never a panic or a wait past the read timeout; wrong-key records rejected; returned peer records <= 8 KiB with decodable addresses; <= 2K peers per response enter a lookup. Exploration.",
    "level_note": "Responses are always wire-reachable (marshal -> bytes -> unmarshal); 'permanently block' is decided as bounded virtual time under synctest; the transport is the in-memory pipe model.",
    "parts": [
        {"part": "messenger", "pkg": PBP, "test": "TestVerif_C10_Messenger", "quick": 4000, "thorough": 60000},
        {"part": "messenger-gofuzz", "pkg": "./pb/", "fuzz": "FuzzVerif_C10_Messenger", "fuzz_seconds": 60, "quick": 0, "thorough": 0, "test": "FuzzVerif_C10_Messenger"},
        {"part": "sender-bytes", "pkg": "./internal/net/", "test": "TestVerif_C10_SenderBytes", "quick": 3000, "thorough": 15000},
        {"part": "lookup-flood", "pkg": "./", "test": "TestVerif_C10_LookupFlood", "quick": 2000, "thorough": 15000},
    ],
}

NETP = "./internal/net/"
CHECKS["C11"] = {
    "engine": "wire",
    "level": "exploration",
    "technique": "property-based testing (rapid) of the real message sender over fake streams with scripted honest responders under synctest virtual time, with generated pauses at build-tag yield points of the sender bookkeeping; request-id echo oracle and per-stream / per-peer history invariants",
    "level_text": "Generated client schedules (concurrent requests, cancellation instants, disconnects, failing stream opens) and responder scripts (delays around the read timeout, resets, closes, garbage, silence) run against the real "
                  "messageSenderImpl; each request carries a unique id that an honest responder echoes, so a mismatched reply is directly visible; per-stream histories give the serialization/reset clauses. Exploration.",
    "level_note": "Virtual time fixes the order of every reply, timeout and cancellation; three interleaving points inside the per-peer sender bookkeeping are owned through the verif hook (drawn pauses), others below the level of blocking operations are not controlled; the in-memory pipe (optionally with blocking writes) stands in for a libp2p stream.",
    "parts": [
        {"part": "message-sender", "pkg": NETP, "test": "TestVerif_C11_MessageSender", "quick": 8000, "thorough": 30000},
        {"part": "message-sender-gofuzz", "pkg": NETP, "fuzz": "FuzzVerif_C11_MessageSender", "fuzz_seconds": 60, "quick": 0, "thorough": 0, "test": "FuzzVerif_C11_MessageSender"},
    ],
}

CHECKS["C12"] = {
    "engine": "simnet",
    "level": "exploration",
    "technique": "stateful property-based testing (rapid) of routing-table admission/eviction over a simulated network under synctest; invariant over membership at quiescent points vs. the per-peer success/failure history of the simulation",
    "level_text": "Generated histories of identify/protocol events, lookups with changing peer health, cancelled lookups, refreshes, clock advances and Close racing refreshes run against the real IpfsDHT; at every quiescent point the "
                  "membership is compared with the per-peer history in the simulation log (proof of an answer for every member, an admission on the strength of the probe alone only for a peer that advertises the protocol and passes the filter, no member whose latest interaction is a failure/protocol-gone), and every refresh channel must deliver exactly one value. Histories include passes of the low-peers repair and peers already connected at construction. Exploration.",
    "level_note": "Quiescent points = 3 min of virtual time after each event plus synctest.Wait; retention of healthy peers is not asserted (bucket replacement is legitimate); failures inside the window of a cancelled lookup are not counted as failures.",
    "parts": [
        {"part": "routing-table", "pkg": ROOT, "test": "TestVerif_C12_RoutingTable", "quick": 4800, "thorough": 20000},
        {"part": "routing-table-gofuzz", "pkg": ROOT, "fuzz": "FuzzVerif_C12_RoutingTable", "fuzz_seconds": 60, "quick": 0, "thorough": 0, "test": "FuzzVerif_C12_RoutingTable"},
    ],
}

CHECKS["C13"] = {
    "engine": "simnet",
    "level": "exploration",
    "technique": "stateful property-based testing (rapid): reachability-event histories and inbound requests against the real mode switch; behavioural oracle f(option, last event)",
    "level_text": "Generated sequences of reachability events and inbound requests on new and previously opened streams run against the real IpfsDHT over the fake host; the mode is observed by behaviour (handler registered, "
                  "streams reset, requests answered or not) and compared with the function of the option and the last event. Exploration: histories are sampled; the state space (4 options x 3 reachabilities) is covered many times over.",
    "level_note": "Requests and events are interleaved at quiescent points only (an event delivered at the very instant of a request is not asserted); the fake network's connection registry feeds the demotion's stream reset.",
    "parts": [
        {"part": "modes", "pkg": ROOT, "test": "TestVerif_C13_Modes", "quick": 6000, "thorough": 20000},
        {"part": "dual-modes", "pkg": "./dual/", "test": "TestVerif_C13_DualModes", "quick": 1200, "thorough": 10000},
        {"part": "modes-gofuzz", "pkg": ROOT, "fuzz": "FuzzVerif_C13_Modes", "fuzz_seconds": 45, "quick": 0, "thorough": 0, "test": "FuzzVerif_C13_Modes"},
    ],
}

FRT = "./fullrt/"
CHECKS["C16"] = {
    "engine": "simnet",
    "level": "exploration",
    "technique": "property-based testing (rapid) with a brute-force nearest-K / IP-group reference over the crawled set, schedule control of the crawl swap through a build-tagged hook, and generated crawl topologies against a reachability oracle",
    "level_text": "Generated crawled sets, keys, K and diversity limits are installed through a fake crawler and the real GetClosestPeers is compared with a brute-force reference; the crawl-result swap is paused at hook points while a reader runs; "
                  "generated referral graphs with failure patterns drive the real crawler against a reachability/exactly-once oracle; every operation is run on an empty table and with missing options. Exploration.",
    "level_note": "IP groups are /16 blocks of public IPv4 addresses by construction; the swap race needs the 'verif' hook (fullrt/verif_hook_on.go); the simulated sender stands in for the network.",
    "parts": [
        {"part": "closest", "pkg": FRT, "test": "TestVerif_C16_Closest", "quick": 4500, "thorough": 25000},
        {"part": "swap", "pkg": FRT, "test": "TestVerif_C16_Swap", "quick": 600, "thorough": 3000, "shards": 4},
        {"part": "empty", "pkg": FRT, "test": "TestVerif_C16_Empty", "quick": 300, "thorough": 3000},
        {"part": "crawler", "pkg": "./crawler/", "test": "TestVerif_C16_Crawler", "quick": 4500, "thorough": 20000},
    ],
}

CHECKS["C15"] = {
    "engine": "simnet",
    "level": "exploration",
    "technique": "property-based testing (rapid) of dual.New over two simulated networks with address classes known by construction; differential oracle against the two inner DHTs and an address-scoping invariant over both simulation logs",
    "level_text": "Generated WAN/LAN networks, routing-table emptiness, host address sets and operations run against the real dual DHT built with dual.New (so the option layering really installs the filters); the oracle checks which network saw the "
                  "write RPCs (also when the WAN-side operation fails: newer local record, providers disabled), compares reads with the inner DHTs' own results, and checks every WAN request target, stored address and advertised address against the address classes. Exploration.",
    "level_note": "Address classes are public/private by construction (ambiguous classes such as CGNAT or DNS are not generated); seeds get a harness-made public connection address; both inner DHTs share one fake host as in production.",
    "parts": [
        {"part": "dual", "pkg": "./dual/", "test": "TestVerif_C15_Dual", "quick": 3600, "thorough": 20000},
        {"part": "dual-gofuzz", "pkg": "./dual/", "fuzz": "FuzzVerif_C15_Dual", "fuzz_seconds": 60, "quick": 0, "thorough": 0, "test": "FuzzVerif_C15_Dual"},
        {"part": "findpeer-merge", "pkg": "./dual/", "test": "TestVerif_C15_FindPeerMerge", "quick": 1200, "thorough": 12000},
        {"part": "server-self", "pkg": "./dual/", "test": "TestVerif_C15_ServerSelf", "quick": 600, "thorough": 5000},
    ],
}

CHECKS["C14"] = {
    "engine": "simnet",
    "level": "exploration",
    "technique": "property-based testing (rapid) of Close/constructor-failure schedules: under synctest with a goroutine census by id and a counting event bus (DHTs), and in real time with a harness-owned gate plus goroutine-state probe (buffered provider wrapper, record stores, whose Close paths wait on mutexes); drawn Close instants / overlaps, option matrices and injected constructor faults",
    "level_text": "For each component, generated option combinations, background activity and Close instants run against the real code inside a virtual-time bubble; the goroutines alive after construction are recorded by id and must all be gone when "
                  "Close returns, every Close call and every in-flight operation must return without panic, and nothing may be left after the wind-down; constructors are failed at injected points and must leave no goroutine or subscription. The buffered wrapper and the record stores are closed 1-3 times with overlapping calls while their worker / an operation is held at a gate; no Close call may have returned while it is held; the sweeping provider is also closed over a datastore that fails during Close and with the node offline, and its dual wrapper (one provider per swarm of a dual DHT, own or given keystore) with a request of either swarm held inside the simulated network. The refresh manager runs in a bubble with dial / ping / query callbacks of drawn outcome, latency and linger (time to return once the context ended): the instant a Close call returns no callback may be in flight and no goroutine of the manager blocked. Exploration.",
    "level_note": "Censuses are taken at quiescent points (synctest.Wait, which does not advance the clock): a goroutine that Close does not wait for but that ends without the clock advancing is not distinguished; Close instants are virtual instants, not arbitrary instructions.",
    "parts": [
        {"part": "ipfsdht", "pkg": ROOT, "test": "TestVerif_C14_IpfsDHT", "quick": 2400, "thorough": 20000},
        {"part": "constructors", "pkg": ROOT, "test": "TestVerif_C14_Constructors", "quick": 300, "thorough": 3000},
        {"part": "fullrt", "pkg": "./fullrt/", "test": "TestVerif_C14_FullRT", "quick": 800, "thorough": 4000},
        {"part": "buffered", "pkg": "./provider/buffered/", "test": "TestVerif_C14_Buffered", "quick": 600, "thorough": 10000},
        {"part": "records", "pkg": "./records/", "test": "TestVerif_C14_Records", "quick": 400, "thorough": 6000},
        {"part": "keystore", "pkg": "./provider/keystore/", "test": "TestVerif_C14_Keystore", "quick": 400, "thorough": 6000},
        {"part": "sweeping-provider", "pkg": "./provider/", "test": "TestVerif_C14_SweepingProvider", "quick": 60, "thorough": 1600},
        {"part": "dual", "pkg": "./dual/", "test": "TestVerif_C14_Dual", "quick": 600, "thorough": 3000},
        {"part": "dual-provider", "pkg": "./provider/dual/", "test": "TestVerif_C14_DualProvider", "quick": 40, "thorough": 1200},
        {"part": "refresh-manager", "pkg": "./rtrefresh/", "test": "TestVerif_C14_RefreshManager", "quick": 800, "thorough": 10000},
        {"part": "refresh-manager-race", "pkg": "./rtrefresh/", "test": "TestVerif_C14_RefreshManagerRace", "quick": 150, "thorough": 3000},
    ],
}

PRV = "./provider/"
CHECKS["C17"] = {
    "engine": "sweepsim",
    "level": "exploration",
    "technique": "stateful property-based testing (rapid) of the sweeping provider over a simulated swarm under synctest virtual time across several reprovide cycles; history oracle over the ADD_PROVIDER log with a brute-force nearest-r reference",
    "level_text": "Generated swarms (constructed clusters), key sets, worker configurations and histories (start/stop/provide-once, churn, outages, restarts, address changes between and in the middle of drains) run against the real SweepingProvider for 1.2-3.3 reprovide intervals of virtual time; "
                  "the oracle reads the ADD_PROVIDER log and checks recipients, completeness with respect to the brute-force r nearest reachable peers of the swarm at send time, the reprovide bound and StopProviding; a model-based part checks the buffered wrapper, also across a Close with operations queued and a reopen over the same datastore. Exploration.",
    "level_note": "Three regimes are generated and reported separately (bucket = r; bucket > r; swarm < r); routers that return only 1-2 peers are outside the documented operating assumptions and not generated; closest-peers lookups cost 1-150 ms and failing lookups/sends 1 s of virtual time (never 0: a real clock cannot make 'now' coincide with a schedule slot to the nanosecond); "
                  "the provider's own random draws (prefix-length sampling) are not controlled: verdicts are stated so that they do not depend on them, except for the two listed findings, which are identified by their circumstances.",
    "parts": [
        {"part": "sweep-mainstream", "pkg": PRV, "test": "TestVerif_C17_SweepA", "quick": 360, "thorough": 1500},
        {"part": "sweep-bucket-gt-r", "pkg": PRV, "test": "TestVerif_C17_SweepB", "quick": 240, "thorough": 1000},
        {"part": "sweep-tiny-swarm", "pkg": PRV, "test": "TestVerif_C17_SweepC", "quick": 240, "thorough": 1000},
        {"part": "buffered", "pkg": "./provider/buffered/", "test": "TestVerif_C17_Buffered", "quick": 4500, "thorough": 20000},
    ],
}

MANIFEST_HEAD = {
    "version": 1,
    "setup_cmd": "bin/check --setup",
    "hooks": {
        "guard": "verif",
        "enable": "go test -tags verif (harness files are injected with -overlay/-modfile by bin/check; /repo itself is not edited)",
        "baseline_off_cmd": "cd /repo && go test -mod=mod -vet=off -count=1 -timeout 25m ./...",
        "source_commits": ["2e56636", "122c079"],
        "add_only": True,
    },
    "engines": [
        {"name": "driver", "path": "bin/check", "serves_properties": [], "kind_free_text": "python3 driver: overlay+modfile build from /repo's working tree, sharding, evidence merge, replay, known findings"},
        {"name": "model", "path": "harness/provider/internal", "serves_properties": ["C18", "C19"], "kind_free_text": "brute-force reference models over bit strings; exhaustive small scope + rapid"},
        {"name": "simnet", "path": "harness/internal/verifnet", "serves_properties": ["C01", "C02", "C03", "C04", "C06", "C08", "C09", "C10", "C12", "C13", "C14", "C15", "C16"],
         "kind_free_text": "fake host/network/streams + simulated peers behind pb.MessageSender and Connect (exchange log with virtual timestamps), run inside testing/synctest bubbles (verifsim.Bubble: panics, deadlocks, goroutines left, wedges become reported outcomes)"},
        {"name": "storesched", "path": "harness/internal/verifsim", "serves_properties": ["C05", "C07", "C20"],
         "kind_free_text": "journaling / fault-injecting / gateable datastore with crash-prefix reconstruction (ds.go) and a cooperative actor scheduler with goroutine-state probe for mutex-blocking code (sched.go)"},
        {"name": "sweepsim", "path": "harness/provider", "serves_properties": ["C17"],
         "kind_free_text": "simulated swarm (router + message sender over a SHA-256 prefix-indexed peer pool) for the sweeping provider, stepped minute by minute in virtual time; ADD_PROVIDER log oracle with a brute-force nearest-r reference"},
        {"name": "wire", "path": "harness/internal/net", "serves_properties": ["C10", "C11"],
         "kind_free_text": "the real message sender over in-memory stream pairs with scripted responders; build-tag yield points give the harness the interleavings of the sender bookkeeping"},
        {"name": "rt-gate", "path": "harness/internal/verifsim/rtcalls.go", "serves_properties": ["C14"],
         "kind_free_text": "real-time call tracking for code whose Close paths wait on sync.Once / mutexes (which freeze a synctest bubble): the harness owns the schedule through a gate inside a wrapped provider / datastore / router and a goroutine-state probe"},
        {"name": "gofuzz", "path": "harness/internal/verifsim/check.go", "serves_properties": ["C05", "C07", "C09", "C10", "C11", "C12", "C13", "C15", "C18", "C19"],
         "kind_free_text": "RunFuzz: go test -fuzz over the byte stream behind rapid's generators (rapid.MakeFuzz), same oracle as the rapid-driven part; thorough tier only"},
    ],
    "notes": "All checks are property-based tests (pgregory.net/rapid v1.3.0) or exhaustive small-scope enumerations with explicit oracles, "
             "compiled into the repository's own packages through a build overlay. See DESIGN.md.",
}

ALL_IDS = ["C%02d" % i for i in range(1, 21)]


def NOT_APPLICABLE(claimed):
    out = []
    for pid in ALL_IDS:
        if pid not in claimed:
            out.append({"property_id": pid, "reason": NA_REASONS.get(pid, "check not built yet in this revision of /verif (work in progress; see DESIGN.md section 7)")})
    return out


NA_REASONS = {}
