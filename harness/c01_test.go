//go:build verif

package dht

// C01 — lookups return exactly the K nearest non-failed peers they learned.
// C02 — lookups converge on the true closest peers and contact all of them.

import (
	"context"
	"crypto/sha256"
	"errors"
	"fmt"
	"sort"
	"testing"
	"time"

	"github.com/libp2p/go-libp2p-kad-dht/internal/verifnet"
	"github.com/libp2p/go-libp2p-kad-dht/internal/verifsim"
	pb "github.com/libp2p/go-libp2p-kad-dht/pb"
	kb "github.com/libp2p/go-libp2p-kbucket"
	"github.com/libp2p/go-libp2p/core/peer"
	"pgregory.net/rapid"
)

type lookupObs struct {
	Result    []peer.ID
	Err       error
	Events    []timedEvent
	Log       []verifnet.Exchange
	Seeds     []peer.ID // the K nearest routing-table peers when the lookup began
	RTBefore  []peer.ID
	Returned  time.Duration
	Started   time.Duration
	CplBefore time.Time
	CplAfter  time.Time
	Outcome   verifsim.BubbleOutcome
	NewErr    error
}

func runGetClosest(t *testing.T, s *lkSc) lookupObs {
	var obs lookupObs
	obs.Outcome = verifsim.Bubble(t, func() {
		env, err := newSimEnv(s, nil)
		if err != nil {
			obs.NewErr = err
			return
		}
		defer env.close()
		key := s.keyString()
		obs.RTBefore = env.d.RoutingTable().ListPeers()
		obs.Seeds = env.d.RoutingTable().NearestPeers(kb.ConvertKey(key), s.K)
		cpl := uint(kb.CommonPrefixLen(kb.ConvertKey(key), env.d.selfKey))
		for _, c := range env.d.RoutingTable().GetTrackedCplsForRefresh() {
			_ = c
		}
		tr := env.d.RoutingTable().GetTrackedCplsForRefresh()
		if int(cpl) < len(tr) {
			obs.CplBefore = tr[cpl]
		}
		ctx, cancel := context.WithCancel(context.Background())
		if s.EvStallMs > 0 {
			defer func(n int) { LookupEventBufferSize = n }(LookupEventBufferSize)
			LookupEventBufferSize = 0
		}
		ectx, ch := RegisterForLookupEvents(ctx)
		get, done := collectEvents(env.sim, ch, env.sim.Now()+time.Second+time.Duration(s.EvStallAtMs)*time.Millisecond, time.Duration(s.EvStallMs)*time.Millisecond)
		time.Sleep(time.Second) // the lookup starts at a virtual instant later than construction
		// events are registered on the outer context so that they keep flowing when the caller cancels the lookup itself
		lctx, lcancel := context.WithCancel(ectx)
		defer lcancel()
		if s.CancelMs > 0 {
			go func() {
				select {
				case <-time.After(time.Duration(s.CancelMs) * time.Millisecond):
					lcancel()
				case <-lctx.Done():
				}
			}()
		}
		obs.Started = env.sim.Now()
		obs.Result, obs.Err = env.d.GetClosestPeers(lctx, key)
		lcancel()
		obs.Returned = env.sim.Now()
		verifsim.Quiesce()
		tr = env.d.RoutingTable().GetTrackedCplsForRefresh()
		if int(cpl) < len(tr) {
			obs.CplAfter = tr[cpl]
		}
		cancel()
		<-done
		obs.Events = get()
		obs.Log = env.sim.Log()
	})
	return obs
}

// expectedHeard applies the documented ingress rules to a logged answer.
func expectedHeard(s *lkSc, resp *pb.Message) []peer.ID {
	if resp == nil {
		return nil
	}
	peers := resp.GetCloserPeers()
	if len(peers) > 2*s.K {
		peers = peers[:2*s.K]
	}
	type ent struct {
		id  peer.ID
		idx int
	}
	var es []ent
	for _, p := range peers {
		es = append(es, ent{peer.ID(p.Id), poolIdxOf(peer.ID(p.Id))})
	}
	if s.IPLimit > 0 {
		groups := map[string]map[peer.ID]bool{}
		for _, e := range es {
			g := s.groupOf(e.idx)
			if g == "" {
				continue
			}
			if groups[g] == nil {
				groups[g] = map[peer.ID]bool{}
			}
			groups[g][e.id] = true
		}
		drop := map[peer.ID]bool{}
		for _, ps := range groups {
			if len(ps) > s.IPLimit {
				for p := range ps {
					drop[p] = true
				}
			}
		}
		var kept []ent
		for _, e := range es {
			if !drop[e.id] {
				kept = append(kept, e)
			}
		}
		es = kept
	}
	var out []peer.ID
	key := s.keyString()
	for _, e := range es {
		if e.id == s.selfID() {
			continue
		}
		if string(e.id) == key || s.passesFilter(e.idx) {
			out = append(out, e.id)
		}
	}
	return out
}

func eqPeers(a, b []peer.ID) bool {
	if len(a) != len(b) {
		return false
	}
	for i := range a {
		if a[i] != b[i] {
			return false
		}
	}
	return true
}

func kadIDs(ps []*PeerKadID) []peer.ID {
	out := make([]peer.ID, len(ps))
	for i, p := range ps {
		out[i] = p.Peer
	}
	return out
}

type lookupFacts struct {
	learned     map[peer.ID]bool
	failed      map[peer.ID]bool
	answered    map[peer.ID]bool // processed answers (Response event with Queried)
	terminateAt time.Duration
	reason      LookupTerminationReason
	nTerminate  int
	hops2       bool
	lying       bool
	cancelled   bool
}

// judgeLookup checks the C01 clauses and extracts the facts the C02 clauses need.
func judgeLookup(s *lkSc, obs lookupObs, res *verifsim.Result) *lookupFacts {
	if !obs.Outcome.OK() {
		res.Fail("terminates", "C01/lookup/hang-or-panic", "%s %s\n%s", obs.Outcome.Deadlock, obs.Outcome.Panic, obs.Outcome.Stacks)
		return nil
	}
	if obs.NewErr != nil {
		res.Fail("constructs", "C01/new/error", "%v", obs.NewErr)
		return nil
	}
	self := s.selfID()
	target := s.keyKad()
	f := &lookupFacts{learned: map[peer.ID]bool{}, failed: map[peer.ID]bool{}, answered: map[peer.ID]bool{}, terminateAt: -1}
	if len(obs.Seeds) == 0 {
		if obs.Err == nil || len(obs.Result) != 0 {
			res.Fail("empty-table", "C01/lookup/empty-table", "no seeds but result %v err %v", shortIDs(obs.Result), obs.Err)
		}
		return nil
	}
	if obs.Err != nil && !(s.CancelMs > 0 && errors.Is(obs.Err, context.Canceled)) {
		res.Fail("no-error", "C01/lookup/error", "uncancelled lookup returned error %v", obs.Err)
		return nil
	}
	f.cancelled = obs.Err != nil
	for _, p := range obs.Seeds {
		f.learned[p] = true
	}
	// --- events vs. simulation log
	firstReq := map[peer.ID]*verifnet.Exchange{}   // first lookup-phase request per peer
	firstTouch := map[peer.ID]*verifnet.Exchange{} // first dial or request per peer
	for i := range obs.Log {
		e := &obs.Log[i]
		if _, ok := firstTouch[e.Peer]; !ok {
			firstTouch[e.Peer] = e
		}
		if e.Kind == "request" {
			if _, ok := firstReq[e.Peer]; !ok {
				firstReq[e.Peer] = e
			}
		}
	}
	// An interrupted lookup publishes with a cancelled context: whatever it publishes at or after the instant of cancellation
	// may be dropped (the event channel gives up when the publisher's context is done), and whether an answer or failure that
	// arrives at that very instant is still processed is a coin toss. Both are allowed; they make the facts of that one instant
	// ambiguous, not wrong.
	ambLearned, ambFailed := map[peer.ID]bool{}, map[peer.ID]bool{}
	if f.cancelled {
		cancelAt := obs.Started + time.Duration(s.CancelMs)*time.Millisecond
		for i := range obs.Log {
			e := &obs.Log[i]
			if e.End != cancelAt {
				continue
			}
			if e.Kind == "request" && e.Outcome == "ok" {
				for _, h := range expectedHeard(s, e.Resp) {
					ambLearned[h] = true
				}
			} else {
				ambFailed[e.Peer] = true
			}
		}
	}
	requested := map[peer.ID]time.Duration{}
	for ti, te := range obs.Events {
		ev := te.Ev
		if ev.Key == nil || ev.Key.Key != s.keyString() {
			res.Fail("events/key", "C01/events/wrong-key", "event for another key")
		}
		if ev.Terminate != nil {
			f.nTerminate++
			f.terminateAt = te.At
			f.reason = ev.Terminate.Reason
			// With a stalled consumer the Terminate event may be handed over long after the loop decided to stop. The loop decides
			// right after publishing the event of the update it has just applied, without reading anything in between: the
			// decision instant is the hand-over of the event before this one.
			if s.EvStallMs > 0 && ti > 0 && obs.Events[ti-1].At < te.At {
				f.terminateAt = obs.Events[ti-1].At
			}
		}
		if ev.Request != nil {
			for _, p := range kadIDs(ev.Request.Waiting) {
				if _, dup := requested[p]; dup {
					res.Fail("events/request-once", "C01/events/request-twice", "peer %s asked twice in one lookup", shortID(p))
				}
				requested[p] = te.At
				if !f.learned[p] && !ambLearned[p] {
					res.Fail("events/request-learned", "C01/events/request-unlearned", "request to %s which was not learned before", shortID(p))
				}
				ft := firstTouch[p]
				if ft == nil || ft.Start != te.At {
					res.Fail("events/request-real", "C01/events/request-not-sent", "Request event for %s at %v but the simulation saw no dial/request then (first contact %+v)", shortID(p), te.At, ft)
				}
			}
		}
		if ev.Response != nil {
			for _, p := range kadIDs(ev.Response.Queried) {
				ex := firstReq[p]
				// (with a stalled event consumer the loop takes an answer up when it moves again: not before it was delivered)
				if ex == nil || ex.Outcome != "ok" || (s.EvStallMs == 0 && ex.End != te.At) || ex.End > te.At {
					res.Fail("events/response-real", "C01/events/response-not-received", "Response event for %s at %v without a delivered answer then (%+v)", shortID(p), te.At, ex)
					continue
				}
				f.answered[p] = true
				want := expectedHeard(s, ex.Resp)
				got := kadIDs(ev.Response.Heard)
				if !eqPeers(got, want) {
					res.Fail("events/heard", "C01/events/heard-mismatch", "peer %s answered %d peers; after ingress rules expected Heard %v, event says %v", shortID(p), len(ex.Resp.GetCloserPeers()), shortIDs(want), shortIDs(got))
				}
				if len(ex.Resp.GetCloserPeers()) > s.K || len(want) != len(ex.Resp.GetCloserPeers()) {
					f.lying = true
				}
				for _, h := range got {
					if !f.learned[h] && h != self {
						f.learned[h] = true
					}
				}
			}
			for _, p := range kadIDs(ev.Response.Unreachable) {
				f.failed[p] = true
				ok := false
				for i := range obs.Log {
					e := &obs.Log[i]
					if e.Peer == p && e.End <= te.At && (e.Outcome == "fail" || e.Outcome == "timeout") {
						ok = true
					}
				}
				if ambFailed[p] {
					ok = true // the request was aborted by the caller's cancellation at this very instant and the lookup still got to see that
				}
				if !ok {
					res.Fail("events/unreachable-real", "C01/events/unreachable-without-failure", "Unreachable event for %s at %v but the simulation logged no failure", shortID(p), te.At)
				}
			}
			if ev.Response.Cause != nil && ev.Response.Cause.Peer == self {
				// the seeding update
				got := kadIDs(ev.Response.Heard)
				if !eqPeers(got, obs.Seeds) {
					res.Fail("events/seeds", "C01/events/seeds-mismatch", "seed event lists %v, K nearest routing-table peers are %v", shortIDs(got), shortIDs(obs.Seeds))
				}
			}
		}
	}
	if f.cancelled && f.nTerminate == 0 {
		f.nTerminate, f.terminateAt, f.reason = 1, obs.Started+time.Duration(s.CancelMs)*time.Millisecond, LookupCancelled
	}
	if f.nTerminate != 1 {
		res.Fail("events/one-terminate", "C01/events/terminate-count", "%d Terminate events", f.nTerminate)
		return f
	}
	// every lookup-phase contact / failure the simulation saw before termination is reflected in the events
	for i := range obs.Log {
		e := &obs.Log[i]
		if e.Start < f.terminateAt {
			if _, ok := requested[e.Peer]; !ok {
				res.Fail("events/complete", "C01/events/request-unreported", "simulation saw a %s to %s at %v (before termination at %v) without a Request event", e.Kind, shortID(e.Peer), e.Start, f.terminateAt)
			}
		}
		if e.End < f.terminateAt && (e.Outcome == "fail" || e.Outcome == "timeout") && !f.failed[e.Peer] {
			res.Fail("events/complete", "C01/events/failure-unreported", "%s to %s failed at %v (before termination at %v) without an Unreachable event", e.Kind, shortID(e.Peer), e.End, f.terminateAt)
		}
		if e.Kind == "request" && e.End < f.terminateAt && e.Outcome == "ok" && e == firstReq[e.Peer] && !f.answered[e.Peer] {
			res.Fail("events/complete", "C01/events/answer-unreported", "answer of %s delivered at %v (before termination at %v) without a Response event", shortID(e.Peer), e.End, f.terminateAt)
		}
	}
	// --- the result
	r := obs.Result
	if len(r) > s.K {
		res.Fail("result/at-most-k", "C01/result/too-many", "%d peers returned, K=%d", len(r), s.K)
	}
	seen := map[peer.ID]bool{}
	for i, p := range r {
		if seen[p] {
			res.Fail("result/distinct", "C01/result/duplicate", "peer %s returned twice", shortID(p))
		}
		seen[p] = true
		if p == self {
			res.Fail("result/no-self", "C01/result/self", "the local node is in the result")
		}
		if i > 0 && !distLess(target, r[i-1], p) {
			res.Fail("result/ascending", "C01/result/order", "result not strictly ascending at %d: %v", i, shortIDs(r))
		}
		if !f.learned[p] && !ambLearned[p] {
			res.Fail("result/learned", "C01/result/unlearned", "returned peer %s was neither a seed nor named in a processed answer", shortID(p))
		}
		if f.failed[p] {
			res.Fail("result/non-failed", "C01/result/failed-peer", "returned peer %s had failed (Unreachable) before the search ended", shortID(p))
		}
		if p != self && !seen[p] {
			_ = p
		}
	}
	for x := range f.learned {
		if x == self || f.failed[x] || seen[x] || ambFailed[x] {
			continue
		}
		if len(r) < s.K {
			res.Fail("result/no-omission", "C01/result/omission", "learned non-failed peer %s not returned although only %d < K=%d peers were returned (%v)", shortID(x), len(r), s.K, shortIDs(r))
			break
		}
		if distLess(target, x, r[len(r)-1]) {
			res.Fail("result/no-omission", "C01/result/omission", "learned non-failed peer %s is nearer than the farthest returned peer %s", shortID(x), shortID(r[len(r)-1]))
			break
		}
	}
	for _, p := range r {
		isSeed := false
		for _, sd := range obs.Seeds {
			if sd == p {
				isSeed = true
			}
		}
		if !isSeed {
			f.hops2 = true
		}
	}
	return f
}

// judgeContact checks the C02 clauses that hold for every lookup (sentence two).
func judgeContact(s *lkSc, obs lookupObs, f *lookupFacts, res *verifsim.Result) (decidedWhileOutstanding bool) {
	if f == nil || f.nTerminate != 1 {
		return
	}
	target := s.keyKad()
	self := s.selfID()
	if f.reason != LookupCompleted && f.reason != LookupStarvation {
		res.Fail("terminate/reason", "C02/terminate/reason", "uncancelled lookup terminated with reason %v", f.reason)
		return
	}
	// beta nearest of learned∖failed (at termination) all answered, or nothing left to ask
	var cand []peer.ID
	for x := range f.learned {
		if x != self && !f.failed[x] {
			cand = append(cand, x)
		}
	}
	sort.Slice(cand, func(i, j int) bool { return distLess(target, cand[i], cand[j]) })
	nearest := cand
	if len(nearest) > s.Beta {
		nearest = nearest[:s.Beta]
	}
	allAnswered := true
	for _, p := range nearest {
		if !f.answered[p] {
			allAnswered = false
		}
	}
	everyoneAsked := true
	for _, p := range cand {
		if !f.answered[p] {
			everyoneAsked = false
		}
	}
	if !allAnswered && !everyoneAsked {
		res.Fail("terminate/beta-answered", "C02/terminate/premature", "lookup ended (%v) although the beta=%d nearest learned non-failed peers %v have not all answered and peers remain to be asked", f.reason, s.Beta, shortIDs(nearest))
	}
	// every returned peer was sent the request at least once (follow-up included)
	asked := map[peer.ID]bool{}
	outstanding := false
	for i := range obs.Log {
		e := &obs.Log[i]
		if e.Kind == "request" {
			asked[e.Peer] = true
		}
		if e.Start < f.terminateAt && e.End > f.terminateAt {
			outstanding = true
		}
	}
	for _, p := range obs.Result {
		if !asked[p] {
			// a returned peer whose dial failed in the follow-up phase was contacted but could not be sent the request
			dialFailed := false
			for i := range obs.Log {
				e := &obs.Log[i]
				if e.Peer == p && e.Kind == "dial" && e.Outcome == "fail" {
					dialFailed = true
				}
			}
			if !dialFailed {
				res.Fail("contact/returned-asked", "C02/contact/returned-not-asked", "returned peer %s was never sent the request (no dial failure either)", shortID(p))
			}
		}
	}
	return outstanding
}

// ---------- generators ----------

func genLkPeers(t *rapid.T, n int, self int, keyKad [32]byte, adversarial bool) []lkPeer {
	pp := ppool()
	// candidate ids: uniform + clustered around the key
	near := pp.WithPrefix(verifsim.BitString(keyKad, rapid.IntRange(2, 8).Draw(t, "nearBits")))
	used := map[int]bool{self: true}
	var peers []lkPeer
	for len(peers) < n {
		var id int
		if len(near) > 0 && rapid.IntRange(0, 2).Draw(t, "near") == 0 {
			id = near[rapid.IntRange(0, len(near)-1).Draw(t, "nearIdx")]
		} else {
			id = rapid.IntRange(0, unknownBase-1).Draw(t, "id")
		}
		if used[id] {
			for used[id] {
				id = (id + 1) % unknownBase
			}
		}
		used[id] = true
		p := lkPeer{ID: id, LatMs: rapid.IntRange(1, 3000).Draw(t, "lat"), Group: rapid.IntRange(0, 3).Draw(t, "group")}
		if adversarial {
			switch rapid.IntRange(0, 11).Draw(t, "fault") {
			case 0:
				p.Dial, p.DialMs = "fail", rapid.IntRange(1, 500).Draw(t, "dialMs")
			case 1:
				p.Req = "fail"
			case 2:
				p.Req = "silent"
			case 3:
				p.Dial = "hang"
			}
			p.DialMs = rapid.IntRange(0, 300).Draw(t, "dialMs2")
			if rapid.IntRange(0, 7).Draw(t, "noaddr") == 0 {
				p.Group = -1
			}
			p.Priv = rapid.IntRange(0, 5).Draw(t, "priv") == 0
		}
		peers = append(peers, p)
	}
	return peers
}

func genAdversarial(t *rapid.T) lkSc {
	s := lkSc{K: rapid.IntRange(1, 8).Draw(t, "k"), Alpha: rapid.IntRange(1, 5).Draw(t, "alpha")}
	s.Beta = rapid.IntRange(1, s.K).Draw(t, "beta")
	s.Key = rapid.IntRange(0, simPool-1).Draw(t, "key")
	if verifsim.Chance(t, "otherKeyForm", 15) {
		s.KeyKind = rapid.SampledFrom([]int{6, 7, 4}).Draw(t, "keyForm") // raw 32-byte key, short key, identity multihash
	}
	s.Self = rapid.IntRange(0, unknownBase-1).Draw(t, "self")
	n := rapid.IntRange(1, 40).Draw(t, "nPeers")
	s.Peers = genLkPeers(t, n, s.Self, s.keyKad(), true)
	if rapid.IntRange(0, 5).Draw(t, "keyIsPeer") == 0 {
		s.KeyPeer = 1 + rapid.IntRange(0, n-1).Draw(t, "keyPeer")
	}
	for i := range s.Peers {
		p := &s.Peers[i]
		nk := rapid.IntRange(0, 12).Draw(t, "nKnows")
		for j := 0; j < nk; j++ {
			x := rapid.IntRange(-6, n-1).Draw(t, "knows")
			if x < -1 && rapid.IntRange(0, 2).Draw(t, "fewUnknown") != 0 {
				x = rapid.IntRange(0, n-1).Draw(t, "knows2")
			}
			p.Knows = append(p.Knows, x)
		}
		switch rapid.IntRange(0, 7).Draw(t, "liar") {
		case 0:
			p.Raw = true
		case 1:
			p.Raw = true
			for j := 0; j < 2*s.K+3; j++ {
				p.Knows = append(p.Knows, rapid.IntRange(-1, n-1).Draw(t, "flood"))
			}
		}
	}
	ns := rapid.IntRange(1, min(n, s.K+3)).Draw(t, "nSeeds")
	s.Seeds = rapid.SliceOfNDistinct(rapid.IntRange(0, n-1), ns, ns, func(i int) int { return i }).Draw(t, "seeds")
	s.Filter = rapid.IntRange(0, 2).Draw(t, "filter") == 0
	if rapid.IntRange(0, 3).Draw(t, "ipLimit") == 0 {
		s.IPLimit = rapid.IntRange(1, 3).Draw(t, "ipLimitN")
	}
	s.SeedConn = rapid.IntRange(0, 3).Draw(t, "seedConn") == 0
	return s
}

// A consumer of the lookup events that stops reading for a while: the lookup loop publishes synchronously and stands still,
// answers and failures of the requests in flight queue up behind it, and when it moves again it must take all of them into
// account before it decides that the search is over.
func TestVerif_C01_StalledEvents(t *testing.T) {
	verifsim.RunCheck(t, verifsim.Check[lkSc]{
		Property: "C01", Part: "stalled-events",
		Rule: "rapid: the adversarial generator (1-40 peers, faults, liars, latencies 1-3000 ms) with alpha 2-5 and a consumer of the lookup events that stops reading 0-2500 ms after the lookup started, for 50-3000 ms, on an " +
			"unbuffered event channel (LookupEventBufferSize 0: an event is read when it is published, and the synchronously publishing lookup loop stands still during the stall); the same result / event / log clauses as the " +
			"adversarial part; non-trivial = a request failed or was answered while the consumer was stalled",
		Gen: func(t *rapid.T) lkSc {
			s := genAdversarial(t)
			s.CancelMs = 0
			s.Alpha = rapid.IntRange(2, 5).Draw(t, "stallAlpha")
			s.EvStallAtMs = rapid.SampledFrom([]int{0, 1, 5, 50, 300, 1000, 2500}).Draw(t, "stallAt")
			s.EvStallMs = rapid.SampledFrom([]int{50, 300, 1000, 3000}).Draw(t, "stallMs")
			return s
		},
		Run: func(t *testing.T, s lkSc) (res verifsim.Result) {
			obs := runGetClosest(t, &s)
			f := judgeLookup(&s, obs, &res)
			if f == nil {
				return
			}
			judgeContact(&s, obs, f, &res)
			from := obs.Started + time.Duration(s.EvStallAtMs)*time.Millisecond
			for _, e := range obs.Log {
				if e.Kind == "request" && e.End >= from && e.End <= from+time.Duration(s.EvStallMs)*time.Millisecond+3*time.Second && e.End < obs.Returned {
					res.NonTrivial = true
				}
			}
			if len(f.failed) > 0 {
				res.Class("failed-peer")
			}
			return
		},
	})
}

func TestVerif_C01_Adversarial(t *testing.T) {
	verifsim.RunCheck(t, verifsim.Check[lkSc]{
		Property: "C01", Part: "adversarial",
		Rule: "rapid: 1-40 simulated peers (ids uniform and clustered around the key), K 1-8, alpha 1-5, beta 1-K, 1..K+3 seeds, per-peer dial/request faults (fail, silent to timeout, " +
			"hanging dial), latencies 1-3000 ms (arrival order), liars (raw lists with self, unknown peers, duplicates, floods >2K), address classes (4 IP groups, none, filter-rejected), " +
			"optional query filter / IP-group limit / FindPeer-style key / pre-connected seeds; real GetClosestPeers under synctest; oracle = invariant over result + lookup events + " +
			"simulation log; non-trivial = a returned peer outside the seeds and (a failed peer, a lying answer, or more than K learned peers)",
		Gen: genAdversarial,
		Run: func(t *testing.T, s lkSc) (res verifsim.Result) {
			obs := runGetClosest(t, &s)
			f := judgeLookup(&s, obs, &res)
			if f == nil {
				return
			}
			judgeContact(&s, obs, f, &res)
			res.NonTrivial = f.hops2 && (len(f.failed) > 0 || f.lying || len(f.learned) > s.K)
			if len(f.failed) > 0 {
				res.Class("failed-peer")
			}
			if f.lying {
				res.Class("lying-answer")
			}
			if len(f.learned) > s.K {
				res.Class("more-than-k-learned")
			}
			if f.hops2 {
				res.Class("multi-hop")
			}
			res.Class("reason-" + f.reason.String())
			return
		},
	})
}

// C01 for interrupted lookups: the caller cancels the context at a drawn virtual instant; what GetClosestPeers hands back with
// the context error is still held to every result clause (at most K, distinct, no self, ascending, learned, not failed, the
// nearest of the learned non-failed set at the moment the search ended) and the events to the simulation log.
func TestVerif_C01_Cancelled(t *testing.T) {
	verifsim.RunCheck(t, verifsim.Check[lkSc]{
		Property: "C01", Part: "cancelled",
		Rule: "rapid: the adversarial generator (1-40 peers, faults, liars, filters) plus a cancellation of the caller's context 1-8000 ms after the lookup started (latencies are 1-3000 ms, request timeouts 10 s); " +
			"oracle = the C01 result and event clauses over whatever is returned together with the context error; non-trivial = the lookup was really interrupted (context error returned) after at least one peer had failed " +
			"or more than K peers had been learned",
		Gen: func(t *rapid.T) lkSc {
			s := genAdversarial(t)
			if rapid.Bool().Draw(t, "hotCancel") {
				s.CancelMs = rapid.SampledFrom([]int{1, 50, 301, 700, 1500, 3001, 6000}).Draw(t, "cancelMs")
			} else {
				s.CancelMs = rapid.IntRange(1, 8000).Draw(t, "cancelMs")
			}
			return s
		},
		Run: func(t *testing.T, s lkSc) (res verifsim.Result) {
			obs := runGetClosest(t, &s)
			f := judgeLookup(&s, obs, &res)
			if f == nil {
				return
			}
			res.NonTrivial = f.cancelled && (len(f.failed) > 0 || len(f.learned) > s.K)
			if f.cancelled {
				res.Class("interrupted")
			} else {
				res.Class("completed-before-cancel")
			}
			if len(f.failed) > 0 {
				res.Class("failed-peer")
			}
			res.Class("reason-" + f.reason.String())
			return
		},
	})
}

// ---------- C02: consistent Kademlia networks ----------

type netSc struct {
	Lk       lkSc  `json:"lookup"`
	KnowAll  bool  `json:"know_all"`
	BucketRk []int `json:"bucket_ranks,omitempty"` // choice stream for K-subsets of full buckets
}

func genConsistent(t *rapid.T) netSc {
	var ns netSc
	s := &ns.Lk
	s.K = rapid.IntRange(1, 8).Draw(t, "k")
	s.Alpha = rapid.IntRange(1, 5).Draw(t, "alpha")
	s.Beta = rapid.IntRange(1, s.K).Draw(t, "beta")
	s.Key = rapid.IntRange(0, simPool-1).Draw(t, "key")
	if verifsim.Chance(t, "otherKeyForm", 20) {
		s.KeyKind = rapid.SampledFrom([]int{6, 7, 4}).Draw(t, "keyForm") // raw 32-byte key, short key, identity multihash
	}
	s.Self = rapid.IntRange(0, unknownBase-1).Draw(t, "self")
	n := rapid.IntRange(2, 120).Draw(t, "nPeers")
	s.Peers = genLkPeers(t, n, s.Self, s.keyKad(), false)
	ns.KnowAll = rapid.IntRange(0, 3).Draw(t, "knowAll") == 0
	pp := ppool()
	salt := rapid.IntRange(0, 1<<20).Draw(t, "subsetSalt")
	for i := range s.Peers {
		p := &s.Peers[i]
		if ns.KnowAll {
			for j := range s.Peers {
				if j != i {
					p.Knows = append(p.Knows, j)
				}
			}
			continue
		}
		// k-bucket completeness: every peer of each non-full bucket, a K-subset of each full one
		buckets := map[int][]int{}
		for j := range s.Peers {
			if j == i {
				continue
			}
			c := verifsim.CPL(pp.Kad[p.ID], pp.Kad[s.Peers[j].ID])
			buckets[c] = append(buckets[c], j)
		}
		cpls := make([]int, 0, len(buckets))
		for c := range buckets {
			cpls = append(cpls, c)
		}
		sort.Ints(cpls)
		for _, c := range cpls {
			b := buckets[c]
			if len(b) > s.K {
				// deterministic pseudo-random K-subset derived from the drawn salt
				sort.Slice(b, func(x, y int) bool {
					hx := sha256.Sum256([]byte(fmt.Sprintf("%d/%d/%d", salt, i, b[x])))
					hy := sha256.Sum256([]byte(fmt.Sprintf("%d/%d/%d", salt, i, b[y])))
					return string(hx[:]) < string(hy[:])
				})
				b = b[:s.K]
			}
			p.Knows = append(p.Knows, b...)
		}
	}
	nsd := rapid.IntRange(1, min(n, s.K+2)).Draw(t, "nSeeds")
	s.Seeds = rapid.SliceOfNDistinct(rapid.IntRange(0, n-1), nsd, nsd, func(i int) int { return i }).Draw(t, "seeds")
	return ns
}

func TestVerif_C02_Convergence(t *testing.T) {
	verifsim.RunCheck(t, verifsim.Check[netSc]{
		Property: "C02", Part: "convergence",
		Rule: "rapid: consistent Kademlia networks of 2-120 honest peers built by construction from the k-bucket completeness assumption (all peers of each non-full bucket, a drawn K-subset " +
			"of each full one; or everyone knows everyone), every peer answers with the K nearest it knows, drawn (K, alpha, beta>=1), seeds, latencies (arrival order); oracle = brute force over " +
			"the global peer set: first result is the globally nearest peer, exact K nearest in the know-all variant, plus all C01 clauses and the contact/termination clauses; " +
			"non-trivial = the globally nearest peer is not a seed",
		Gen: genConsistent,
		Run: func(t *testing.T, ns netSc) (res verifsim.Result) {
			s := &ns.Lk
			obs := runGetClosest(t, s)
			f := judgeLookup(s, obs, &res)
			if f == nil {
				return
			}
			outstanding := judgeContact(s, obs, f, &res)
			// brute force over the global peer set
			pp := ppool()
			target := s.keyKad()
			all := make([]peer.ID, 0, len(s.Peers))
			for _, p := range s.Peers {
				all = append(all, peer.ID(pp.IDs[p.ID]))
			}
			sort.Slice(all, func(i, j int) bool { return distLess(target, all[i], all[j]) })
			if len(obs.Result) == 0 || obs.Result[0] != all[0] {
				res.Fail("converges/nearest-first", "C02/convergence/nearest-missed", "globally nearest peer %s not returned first: %v", shortID(all[0]), shortIDs(obs.Result))
			}
			if ns.KnowAll {
				want := all
				if len(want) > s.K {
					want = want[:s.K]
				}
				if !eqPeers(obs.Result, want) {
					res.Fail("converges/exact-k", "C02/convergence/not-exact-k", "know-all network: result %v, global K nearest %v", shortIDs(obs.Result), shortIDs(want))
				}
			}
			nearestIsSeed := false
			for _, sd := range obs.Seeds {
				if sd == all[0] {
					nearestIsSeed = true
				}
			}
			res.NonTrivial = !nearestIsSeed
			if outstanding {
				res.Class("terminated-with-queries-outstanding")
			}
			if ns.KnowAll {
				res.Class("know-all")
			}
			if f.hops2 {
				res.Class("multi-hop")
			}
			res.Class("reason-" + f.reason.String())
			return
		},
	})
}

func TestVerif_C02_Contact(t *testing.T) {
	verifsim.RunCheck(t, verifsim.Check[lkSc]{
		Property: "C02", Part: "contact",
		Rule: "rapid: the adversarial C01 scenarios; oracle = sentence two of the property: an uncancelled lookup ends only when the beta nearest learned non-failed peers have answered " +
			"(or nothing is left to ask), every returned peer was sent the request (follow-up phase included), completed lookups stamp the key's bucket; " +
			"non-trivial = termination decided while queries were still outstanding",
		Gen: genAdversarial,
		Run: func(t *testing.T, s lkSc) (res verifsim.Result) {
			obs := runGetClosest(t, &s)
			var r1 verifsim.Result
			f := judgeLookup(&s, obs, &r1)
			if f == nil {
				return
			}
			res.NonTrivial = judgeContact(&s, obs, f, &res)
			res.Class("reason-" + f.reason.String())
			return
		},
	})
}

// C10 layer 3: flooding / malformed answers inside a real lookup.
func TestVerif_C10_LookupFlood(t *testing.T) {
	verifsim.RunCheck(t, verifsim.Check[lkSc]{
		Property: "C10", Part: "lookup-flood",
		Rule: "rapid: the adversarial lookup scenarios with every answering peer flooding (raw lists of 2K+3..6K entries incl. self, duplicates, unknown peers); oracle: the lookup returns (no hang, no panic) and " +
			"at most 2K peers of one response enter the lookup (Heard of each Response event), plus the C01 result clauses; non-trivial = some response listed more than 2K peers",
		Gen: func(t *rapid.T) lkSc {
			s := genAdversarial(t)
			n := len(s.Peers)
			for i := range s.Peers {
				p := &s.Peers[i]
				if rapid.IntRange(0, 2).Draw(t, "flood") != 0 {
					p.Raw = true
					for j := rapid.IntRange(2*s.K+1, 6*s.K).Draw(t, "floodN"); j > 0; j-- {
						p.Knows = append(p.Knows, rapid.IntRange(-6, n-1).Draw(t, "floodRef"))
					}
				}
			}
			return s
		},
		Run: func(t *testing.T, s lkSc) (res verifsim.Result) {
			obs := runGetClosest(t, &s)
			f := judgeLookup(&s, obs, &res)
			for i := range res.Violations {
				res.Violations[i].Signature = "C10/l3/" + res.Violations[i].Signature
			}
			if f == nil {
				return
			}
			flooded := false
			for _, te := range obs.Events {
				if te.Ev.Response != nil && len(te.Ev.Response.Heard) > 2*s.K {
					res.Fail("cap-2k", "C10/l3/more-than-2k-enter", "%d peers of one response entered the lookup (K=%d)", len(te.Ev.Response.Heard), s.K)
				}
			}
			for _, e := range obs.Log {
				if e.Kind == "request" && e.Outcome == "ok" && len(e.Resp.GetCloserPeers()) > 2*s.K {
					flooded = true
				}
			}
			res.NonTrivial = flooded
			return
		},
	})
}
