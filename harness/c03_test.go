//go:build verif

package dht

// C03 — routing operations always terminate, honour cancellation, never panic.

import (
	"context"
	"crypto/sha256"
	"fmt"
	"sort"
	"strings"
	"testing"
	"time"

	"github.com/ipfs/go-cid"
	"github.com/libp2p/go-libp2p-kad-dht/internal/verifsim"
	"github.com/libp2p/go-libp2p/core/peer"
	mh "github.com/multiformats/go-multihash"
	"pgregory.net/rapid"
)

type opSc struct {
	Lk           lkSc   `json:"lookup"`
	Op           string `json:"op"` // gcp findpeer getvalue searchvalue findprov findprovasync putvalue provide provideopt
	Quorum       int    `json:"quorum,omitempty"`
	Count        int    `json:"count,omitempty"`
	CancelMs     int    `json:"cancel_ms,omitempty"`      // 0 = never
	DeadlineMs   int    `json:"deadline_ms,omitempty"`    // provide: context deadline (0 = none)
	NoAddrs      bool   `json:"no_addrs,omitempty"`       // the host advertises no address
	Abandon      bool   `json:"abandon,omitempty"`        // channel operations: the consumer stops reading the moment it cancels (cancel and walk away)
	PreCancel    bool   `json:"pre_cancelled,omitempty"`  // the context is already cancelled when the operation is called (the earliest cancellation instant)
	CloseAfterMs int    `json:"close_after_ms,omitempty"` // >0: Close lands this long after the return (0: 10 minutes later, when every timeout of the operation has passed)
	SlowReadMs   int    `json:"slow_read_ms,omitempty"`   // channel operations: the consumer pauses this long after every value it reads (the producer is then usually blocked handing over the next one)
	SmallNet     bool   `json:"small_net,omitempty"`      // provideopt: the size estimator is primed with sparse measurements (estimate = pool size / 64): a bucketful of the pool's nearest peers is near enough for an early write
}

type opObs struct {
	Started   time.Duration
	Returned  time.Duration
	Hung      bool
	Err       error
	ChanOpen  bool // a result channel was not closed by the time the call chain ended
	Values    [][]byte
	Provs     []peer.AddrInfo
	Peers     []peer.ID
	Leaked    []string
	Cancelled time.Duration
	LastEnd   time.Duration
	Outcome   verifsim.BubbleOutcome
	NewErr    error
}

// primeEstimator feeds the network size estimator with measurements taken from
// the full peer pool so that optimistic provide has small thresholds.
func primeEstimator(d *IpfsDHT, k int, sparse ...bool) {
	pp, kp := ppool(), kpoolS()
	all := pp.WithPrefix("")
	for j := 0; j < 6; j++ {
		key := kp.IDs[100+j]
		tk := sha256.Sum256([]byte(key))
		if len(sparse) > 0 && sparse[0] {
			// every 64th nearest pool peer: what a network 64 times smaller looks like
			srt := append([]int(nil), all...)
			sort.Slice(srt, func(a, b int) bool { return verifsim.XorLess(tk, pp.Kad[srt[a]], pp.Kad[srt[b]]) })
			ids := make([]peer.ID, 0, k)
			for i := 0; i < k && (i+1)*64-1 < len(srt); i++ {
				ids = append(ids, peer.ID(pp.IDs[srt[(i+1)*64-1]]))
			}
			_ = d.nsEstimator.Track(key, ids)
			continue
		}
		// the k nearest pool peers: peers sharing the longest prefix
		var cand []int
		for l := 20; l >= 0 && len(cand) < 4*k; l-- {
			cand = pp.WithPrefix(verifsim.BitString(tk, l))
		}
		if len(cand) < k {
			cand = all
		}
		sort.Slice(cand, func(a, b int) bool { return verifsim.XorLess(tk, pp.Kad[cand[a]], pp.Kad[cand[b]]) })
		ids := make([]peer.ID, k)
		for i := 0; i < k; i++ {
			ids[i] = peer.ID(pp.IDs[cand[i]])
		}
		_ = d.nsEstimator.Track(key, ids)
	}
}

func runOp(t *testing.T, sc *opSc) opObs {
	var obs opObs
	s := &sc.Lk
	obs.Outcome = verifsim.Bubble(t, func() {
		extra := []Option{simValidatorOpt()}
		if sc.Op == "provideopt" {
			extra = append(extra, EnableOptimisticProvide())
		}
		env, err := newSimEnv(s, stdHook(s), extra...)
		if err != nil {
			obs.NewErr = err
			return
		}
		closed := false
		defer func() {
			if !closed {
				env.close()
			}
		}()
		if sc.NoAddrs {
			env.h.SetAddrs(nil)
		}
		if sc.Op == "provideopt" {
			primeEstimator(env.d, s.K, sc.SmallNet)
		}
		time.Sleep(time.Second)
		base := context.Background()
		ctx, cancel := context.WithCancel(base)
		defer cancel()
		if sc.DeadlineMs > 0 {
			var c2 context.CancelFunc
			ctx, c2 = context.WithTimeout(ctx, time.Duration(sc.DeadlineMs)*time.Millisecond)
			defer c2()
		}
		key := s.keyString()
		var abandon <-chan struct{} // nil: the consumer reads until the channel is closed
		if sc.Abandon {
			abandon = ctx.Done()
		}
		done := make(chan struct{})
		obs.Started = env.sim.Now()
		if sc.PreCancel {
			obs.Cancelled = obs.Started + 1 // (1 ns: "cancelled", and not later than anything the operation does)
			cancel()
		}
		go func() {
			defer close(done)
			defer func() {
				if r := recover(); r != nil {
					obs.Err = fmt.Errorf("PANIC: %v", r)
				}
			}()
			switch sc.Op {
			case "gcp":
				obs.Peers, obs.Err = env.d.GetClosestPeers(ctx, key)
			case "findpeer":
				_, obs.Err = env.d.FindPeer(ctx, peer.ID(key))
			case "getvalue":
				var v []byte
				v, obs.Err = env.d.GetValue(ctx, key, Quorum(sc.Quorum))
				if v != nil {
					obs.Values = append(obs.Values, v)
				}
			case "searchvalue":
				ch, err := env.d.SearchValue(ctx, key, Quorum(sc.Quorum))
				obs.Err = err
				if err == nil {
				readV:
					for {
						select {
						case v, ok := <-ch:
							if !ok {
								break readV
							}
							if sc.SlowReadMs > 0 {
								select {
								case <-time.After(time.Duration(sc.SlowReadMs) * time.Millisecond):
								case <-abandon:
									break readV
								}
							}
							obs.Values = append(obs.Values, v)
						case <-abandon:
							break readV
						}
					}
				}
			case "findprov":
				obs.Provs, obs.Err = env.d.FindProviders(ctx, cid.NewCidV1(cid.Raw, mh.Multihash(key)))
			case "findprovasync":
				pch := env.d.FindProvidersAsync(ctx, cid.NewCidV1(cid.Raw, mh.Multihash(key)), sc.Count)
			readP:
				for {
					select {
					case p, ok := <-pch:
						if !ok {
							break readP
						}
						if sc.SlowReadMs > 0 {
							select {
							case <-time.After(time.Duration(sc.SlowReadMs) * time.Millisecond):
							case <-abandon:
								break readP
							}
						}
						obs.Provs = append(obs.Provs, p)
					case <-abandon:
						break readP
					}
				}
			case "putvalue":
				obs.Err = env.d.PutValue(ctx, key, simValue(3, strings.TrimPrefix(key, "/v/"), "p"))
			case "provide", "provideopt":
				obs.Err = env.d.Provide(ctx, cid.NewCidV1(cid.Raw, mh.Multihash(key)), true)
			}
		}()
		if sc.CancelMs > 0 {
			select {
			case <-done:
			case <-time.After(time.Duration(sc.CancelMs) * time.Millisecond):
				obs.Cancelled = env.sim.Now()
				cancel()
			}
		}
		select {
		case <-done:
			obs.Returned = env.sim.Now()
		case <-time.After(3 * time.Hour):
			obs.Hung = true
			obs.Returned = env.sim.Now()
			cancel()
			return
		}
		for _, e := range env.sim.Log() {
			if e.Outcome != "pending" && e.End <= obs.Returned && e.End > obs.LastEnd {
				obs.LastEnd = e.End
			}
		}
		// background work must end by itself within the operation's own timeouts, or at Close
		if sc.CloseAfterMs > 0 {
			// Close lands while work the operation left behind may still be running (a lookup that was told to stop and waits for
			// its next response, an optimistic provide's remaining puts): either way of ending is allowed, so the census is taken
			// after the operation's own timeouts have passed as well; what is decided here is that Close in that window neither
			// panics nor wedges nor keeps anything alive beyond those timeouts.
			time.Sleep(time.Duration(sc.CloseAfterMs) * time.Millisecond)
			verifsim.Quiesce()
			env.close()
			closed = true
			time.Sleep(10 * time.Minute)
		} else {
			time.Sleep(10 * time.Minute)
			verifsim.Quiesce()
			env.close()
			closed = true
		}
		verifsim.Quiesce()
		for _, g := range verifsim.Census(true) {
			if strings.Contains(g.Stack, "verifsim.Bubble") || strings.Contains(g.Stack, "synctest.Test") || strings.Contains(g.Stack, "testing.tRunner") {
				continue
			}
			lines := strings.Split(g.Stack, "\n")
			if len(lines) > 9 {
				lines = lines[:9]
			}
			obs.Leaked = append(obs.Leaked, strings.Join(lines, "\n"))
		}
	})
	return obs
}

func judgeOp(sc *opSc, obs opObs, res *verifsim.Result) {
	op := sc.Op
	if obs.Outcome.Panic != "" {
		res.Fail("no-panic", "C03/"+op+"/panic", "%s", obs.Outcome.Panic)
		return
	}
	if obs.NewErr != nil {
		res.Fail("constructs", "C03/new/error", "%v", obs.NewErr)
		return
	}
	if obs.Err != nil && strings.HasPrefix(obs.Err.Error(), "PANIC") {
		res.Fail("no-panic", "C03/"+op+"/panic", "%v", obs.Err)
		return
	}
	if obs.Hung {
		res.Fail("terminates", "C03/"+op+"/hang", "%s did not return within 3 h of virtual time (started %v, cancelled %v)", op, obs.Started, obs.Cancelled)
		return
	}
	if obs.Cancelled > 0 {
		if obs.Returned-obs.Cancelled > time.Second+3*time.Duration(sc.SlowReadMs)*time.Millisecond { // (a pausing consumer may be in a pause, and reads what was already handed over)
			res.Fail("cancellation-prompt", "C03/"+op+"/slow-cancel", "%s returned %v after its context was cancelled", op, obs.Returned-obs.Cancelled)
		}
	} else if sc.DeadlineMs == 0 && sc.SlowReadMs == 0 { // (with a pausing consumer the call's duration is the consumer's own)
		last := max(obs.LastEnd, obs.Started)
		if obs.Returned-last > time.Second {
			res.Fail("returns-when-peers-done", "C03/"+op+"/idle-wait", "%s returned at %v, %v after the last contacted peer had answered, failed or timed out (%v)", op, obs.Returned, obs.Returned-last, last)
		}
	}
	if len(obs.Leaked) > 0 {
		sig := "C03/" + op + "/goroutine-left-after-close"
		res.Fail("background-ends", sig, "%d goroutine(s) of the operation still alive 10 min after it returned and after Close:\n%s", len(obs.Leaked), strings.Join(obs.Leaked[:min(3, len(obs.Leaked))], "\n\n"))
		return
	}
	if obs.Outcome.Deadlock != "" {
		res.Fail("background-ends", "C03/"+op+"/bubble-cannot-exit", "%s\n%s", obs.Outcome.Deadlock, obs.Outcome.Stacks)
	}
}

func genFaultyPeers(t *rapid.T, s *lkSc, n int) {
	s.Peers = genLkPeers(t, n, s.Self, s.keyKad(), true)
	mix := rapid.SampledFrom([]string{"mixed", "mixed", "mixed", "all-fail", "all-silent", "slow-tail", "healthy", "healthy"}).Draw(t, "mix")
	rich := rapid.Bool().Draw(t, "rich") // most peers hold a valid value / provider records
	for i := range s.Peers {
		p := &s.Peers[i]
		nk := rapid.IntRange(0, 10).Draw(t, "nKnows")
		for j := 0; j < nk; j++ {
			p.Knows = append(p.Knows, rapid.IntRange(-1, n-1).Draw(t, "knows"))
		}
		switch mix {
		case "healthy":
			p.Dial, p.Req = "", ""
		case "all-fail":
			p.Dial, p.Req = "fail", ""
			if i%2 == 0 {
				p.Dial, p.Req = "", "fail"
			}
		case "all-silent":
			p.Dial, p.Req = "", "silent"
			if i%3 == 0 {
				p.Dial = "hang"
			}
		case "slow-tail":
			if i%4 == 0 {
				p.LatMs = 9000 + i
			}
		}
		// records and write behaviour
		if rich {
			if rapid.IntRange(0, 4).Draw(t, "richVal") != 0 {
				p.Val = rapid.IntRange(1, 3).Draw(t, "richRank")
			}
			if rapid.IntRange(0, 4).Draw(t, "richProv") != 0 {
				for j := rapid.IntRange(1, 3).Draw(t, "nRichProv"); j > 0; j-- {
					p.Provs = append(p.Provs, rapid.IntRange(0, n-1).Draw(t, "richProvRef"))
				}
			}
		} else if rapid.IntRange(0, 2).Draw(t, "hasVal") == 0 {
			p.Val = rapid.SampledFrom([]int{1, 2, 3, 3, -1, -2, -3, -4}).Draw(t, "val")
		}
		if !rich && rapid.IntRange(0, 2).Draw(t, "hasProv") == 0 {
			np := rapid.IntRange(1, 4).Draw(t, "nProv")
			for j := 0; j < np; j++ {
				p.Provs = append(p.Provs, rapid.IntRange(-3, n-1).Draw(t, "prov"))
			}
			p.PNoAdr = rapid.IntRange(0, 3).Draw(t, "pnoaddr") == 0
		}
		p.Put = rapid.SampledFrom([]string{"", "", "", "fail", "hang"}).Draw(t, "put")
		if verifsim.Chance(t, "late", 25) {
			p.LateMs = rapid.SampledFrom([]int{1, 30, 400}).Draw(t, "lateMs")
		}
	}
}

func genOp(t *rapid.T) opSc {
	var sc opSc
	s := &sc.Lk
	sc.Op = rapid.SampledFrom([]string{"gcp", "findpeer", "getvalue", "searchvalue", "findprov", "findprovasync", "putvalue", "provide", "provideopt", "provideopt"}).Draw(t, "op")
	s.K = rapid.IntRange(1, 6).Draw(t, "k")
	s.Alpha = rapid.IntRange(1, 4).Draw(t, "alpha")
	s.Beta = rapid.IntRange(1, s.K).Draw(t, "beta")
	s.Key = rapid.IntRange(0, 99).Draw(t, "key")
	s.Self = rapid.IntRange(0, unknownBase-1).Draw(t, "self")
	n := rapid.IntRange(1, 25).Draw(t, "nPeers")
	switch sc.Op {
	case "getvalue", "searchvalue", "putvalue":
		s.KeyKind = 2
		sc.Quorum = rapid.SampledFrom([]int{0, 1, 2, 16}).Draw(t, "quorum")
	case "findprovasync":
		sc.Count = rapid.SampledFrom([]int{0, 1, 2, 5}).Draw(t, "count")
	}
	genFaultyPeers(t, s, n)
	writesHang := false
	if sc.Op == "findpeer" {
		s.KeyPeer = 1 + rapid.IntRange(0, n-1).Draw(t, "target")
	}
	if sc.Op == "provideopt" || sc.Op == "provide" {
		// include the truly nearest pool peers of the key so that optimistic thresholds are reachable
		pp := ppool()
		tk := s.keyKad()
		var cand []int
		for l := 20; l >= 0 && len(cand) < 8; l-- {
			cand = pp.WithPrefix(verifsim.BitString(tk, l))
		}
		sort.Slice(cand, func(a, b int) bool { return verifsim.XorLess(tk, pp.Kad[cand[a]], pp.Kad[cand[b]]) })
		m := rapid.IntRange(0, min(4, len(cand))).Draw(t, "nNearest")
		if sc.Op == "provideopt" && verifsim.Chance(t, "writesHang", 35) {
			// every write hangs and a bucketful (or more) of peers is near enough for an early write: more early writes are in
			// flight than the operation waits for, whatever ends it
			m = min(s.K+rapid.IntRange(0, 2).Draw(t, "nearestOver"), len(cand), len(s.Peers))
			for i := range s.Peers {
				s.Peers[i].Put = "hang"
			}
			writesHang = true
			sc.SmallNet = true
		} else if sc.Op == "provideopt" && verifsim.Chance(t, "smallNet", 20) {
			sc.SmallNet = true
		}
		for i := 0; i < m && i < len(s.Peers); i++ {
			dup := false
			for _, p := range s.Peers {
				if p.ID == cand[i] {
					dup = true
				}
			}
			if !dup && cand[i] != s.Self {
				s.Peers[i].ID = cand[i]
			}
		}
	}
	ns := rapid.IntRange(1, min(n, s.K+2)).Draw(t, "nSeeds")
	s.Seeds = rapid.SliceOfNDistinct(rapid.IntRange(0, n-1), ns, ns, func(i int) int { return i }).Draw(t, "seeds")
	s.SeedConn = rapid.IntRange(0, 3).Draw(t, "seedConn") == 0
	switch rapid.IntRange(0, 3).Draw(t, "cancelKind") {
	case 0:
		sc.CancelMs = rapid.IntRange(1, 30000).Draw(t, "cancelMs")
	case 1:
		// land on or next to a latency of some peer
		p := s.Peers[rapid.IntRange(0, n-1).Draw(t, "cancelPeer")]
		sc.CancelMs = max(1, p.LatMs+p.DialMs+rapid.SampledFrom([]int{-300, -20, -1, -1, 0, 1}).Draw(t, "cancelOff"))
	}
	if writesHang && sc.CancelMs == 0 {
		sc.CancelMs = rapid.SampledFrom([]int{1, 5, 50, 500, 3000, 9500, 12000}).Draw(t, "hangCancelMs")
	}
	if (sc.Op == "provide") && rapid.IntRange(0, 2).Draw(t, "deadline") == 0 {
		sc.DeadlineMs = rapid.SampledFrom([]int{50, 3000, 9000, 15000, 120000}).Draw(t, "deadlineMs")
	}
	sc.NoAddrs = rapid.IntRange(0, 9).Draw(t, "noAddrs") == 0
	if sc.CancelMs == 0 && sc.DeadlineMs == 0 && verifsim.Chance(t, "preCancel", 12) {
		sc.PreCancel = true
	}
	sc.Abandon = sc.CancelMs > 0 && sc.DeadlineMs == 0 && rapid.Bool().Draw(t, "abandon")
	sc.SlowReadMs = rapid.SampledFrom([]int{0, 0, 40, 700}).Draw(t, "slowRead")
	if verifsim.Chance(t, "earlyClose", 40) {
		sc.CloseAfterMs = rapid.SampledFrom([]int{1, 100, 2000, 20000, 50000}).Draw(t, "closeAfterMs")
	}
	return sc
}

func TestVerif_C03_Operations(t *testing.T) {
	verifsim.RunCheck(t, verifsim.Check[opSc]{
		Property: "C03", Part: "operations",
		Rule: "rapid: operation in {GetClosestPeers, FindPeer, GetValue, SearchValue (quorum 0/1/2/16), FindProviders, FindProvidersAsync (count 0/1/2/5), PutValue, Provide classic (with/without " +
			"deadline), Provide optimistic (size estimator primed from the peer pool, the key's truly nearest peers included)} x 1-25 simulated peers with fault mixes (mixed, all failing, all silent, slow tail; " +
			"failing/hanging write recipients; some peers deliver an answer that was 1-400 ms away when the request's context ended) x cancellation instant (never, before the call, uniform, on/next to a peer's latency); under synctest: the call must return within 1 s of virtual time after the last contacted peer " +
			"answered/failed/timed out (or after cancellation), channels are drained to closure (or abandoned by the consumer the moment it cancels), no panic, and 10 min after the return plus Close (Close 10 min after the return, or - 40% - 1 ms-50 s after it, while work left behind may still be running) no goroutine of the bubble may be alive; " +
			"non-trivial = a failing or silent peer, or a cancellation that landed inside the operation",
		Gen: genOp,
		Run: func(t *testing.T, sc opSc) (res verifsim.Result) {
			obs := runOp(t, &sc)
			judgeOp(&sc, obs, &res)
			faulty := false
			for _, p := range sc.Lk.Peers {
				if p.Dial != "" || p.Req != "" {
					faulty = true
				}
			}
			inside := obs.Cancelled > 0 && obs.Cancelled <= obs.Returned
			res.NonTrivial = faulty || inside
			res.Class("op-" + sc.Op)
			if inside {
				res.Class("cancelled-inside")
			}
			if faulty {
				res.Class("faulty-peers")
			}
			return
		},
	})
}
