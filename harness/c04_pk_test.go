//go:build verif

package dht

// C04, GetPublicKey: "a public key returned for a peer always hashes to that
// peer's ID", whichever of the two sources (the node itself, the DHT) answers
// first and whatever they answer.

import (
	"context"
	ci "github.com/libp2p/go-libp2p/core/crypto"
	"testing"
	"time"

	"github.com/libp2p/go-libp2p-kad-dht/internal/verifnet"
	"github.com/libp2p/go-libp2p-kad-dht/internal/verifsim"
	pb "github.com/libp2p/go-libp2p-kad-dht/pb"
	record "github.com/libp2p/go-libp2p-record"
	recpb "github.com/libp2p/go-libp2p-record/pb"
	"github.com/libp2p/go-libp2p/core/peer"
	"pgregory.net/rapid"
)

type pkSc struct {
	Lk        lkSc   `json:"lookup"`     // KeyKind 3; peers' Val: 0 none, 1 the target's key, 2 another peer's (valid) key, -2 filed under another key, -4 garbage
	TargetAns string `json:"target_ans"` // what the node itself answers: own | foreign | garbage | none | otherkey | fail | silent
	TargetLat int    `json:"target_lat_ms"`
	CancelMs  int    `json:"cancel_ms,omitempty"`
	LaxPk     bool   `json:"lax_pk_validator,omitempty"` // the /pk namespace has a validator that accepts any well-formed key (a forked network may configure its own)
}

// laxPkValidator accepts every value that is a well-formed public key, whatever key it is filed under.
type laxPkValidator struct{}

func (laxPkValidator) Validate(key string, value []byte) error {
	_, err := ci.UnmarshalPublicKey(value)
	return err
}
func (laxPkValidator) Select(string, [][]byte) (int, error) { return 0, nil }

func pkRecord(code int, key string, target int) *recpb.Record {
	own, _ := simPubKey(target)
	foreign, _ := simPubKey(target + 1)
	switch code {
	case 1:
		return &recpb.Record{Key: []byte(key), Value: own}
	case 2:
		return &recpb.Record{Key: []byte(key), Value: foreign}
	case -2:
		_, fid := simPubKey(target + 1)
		return &recpb.Record{Key: []byte("/pk/" + string(fid)), Value: foreign}
	case -4:
		return &recpb.Record{Key: []byte(key), Value: []byte("garbage")}
	}
	return nil
}

func TestVerif_C04_PublicKey(t *testing.T) {
	verifsim.RunCheck(t, verifsim.Check[pkSc]{
		Property: "C04", Part: "public-key",
		Rule: "rapid: GetPublicKey for a peer whose key is not inlined in its id (fixed ECDSA keys), over a C01-style network of 1-20 peers whose /pk/ answers are drawn from {the right key, another peer's valid key, a record filed " +
			"under another key, garbage, nothing} and a target node that itself answers with its own key, another peer's key, garbage, a record under another key, nothing, an error or silence, after a drawn latency (so that either " +
			"source can win the race), with the standard /pk validator or one that accepts any well-formed key; oracle: a returned key hashes to the requested peer id, the key the peerstore holds afterwards does too, and when the node itself delivered its own key the call succeeds; " +
			"non-trivial = a wrong but well-formed key was served by the node itself or by a DHT responder",
		Gen: func(t *rapid.T) pkSc {
			var sc pkSc
			s := &sc.Lk
			s.K = rapid.IntRange(1, 6).Draw(t, "k")
			s.Alpha = rapid.IntRange(1, 4).Draw(t, "alpha")
			s.Beta = rapid.IntRange(1, s.K).Draw(t, "beta")
			s.Key = rapid.IntRange(0, 3).Draw(t, "target")
			s.KeyKind = 3
			s.Self = rapid.IntRange(0, unknownBase-1).Draw(t, "self")
			n := rapid.IntRange(1, 20).Draw(t, "nPeers")
			s.Peers = genLkPeers(t, n, s.Self, s.keyKad(), verifsim.Chance(t, "faulty", 30))
			for i := range s.Peers {
				p := &s.Peers[i]
				for j := rapid.IntRange(0, 8).Draw(t, "nKnows"); j > 0; j-- {
					p.Knows = append(p.Knows, rapid.IntRange(-1, n-1).Draw(t, "knows"))
				}
				p.Val = rapid.SampledFrom([]int{0, 0, 1, 1, 2, 2, -2, -4}).Draw(t, "val")
			}
			ns := rapid.IntRange(1, min(n, s.K+2)).Draw(t, "nSeeds")
			s.Seeds = rapid.SliceOfNDistinct(rapid.IntRange(0, n-1), ns, ns, func(i int) int { return i }).Draw(t, "seeds")
			sc.TargetAns = rapid.SampledFrom([]string{"own", "own", "foreign", "foreign", "garbage", "none", "otherkey", "fail", "silent"}).Draw(t, "targetAns")
			sc.TargetLat = rapid.SampledFrom([]int{1, 5, 100, 1000, 4000}).Draw(t, "targetLat")
			if verifsim.Chance(t, "cancel", 10) {
				sc.CancelMs = rapid.IntRange(1, 6000).Draw(t, "cancelMs")
			}
			sc.LaxPk = verifsim.Chance(t, "laxPk", 25)
			return sc
		},
		Run: func(t *testing.T, sc pkSc) (res verifsim.Result) {
			s := &sc.Lk
			_, target := simPubKey(s.Key)
			key := s.keyString()
			var got peer.ID
			var gotErr error
			var stored peer.ID
			var log []verifnet.Exchange
			var newErr error
			out := verifsim.Bubble(t, func() {
				hook := func(p *lkPeer, n int, req *pb.Message, base *pb.Message) *verifnet.Reply {
					if req.Type == pb.Message_GET_VALUE {
						base.Record = pkRecord(p.Val, string(req.Key), s.Key)
					}
					return nil
				}
				var pkVal record.Validator = record.PublicKeyValidator{}
				if sc.LaxPk {
					pkVal = laxPkValidator{}
				}
				env, err := newSimEnv(s, hook, Validator(record.NamespacedValidator{"pk": pkVal, "v": simValidator{}}))
				if err != nil {
					newErr = err
					return
				}
				defer env.close()
				origDial, origRespond := env.sim.Dial, env.sim.Respond
				env.sim.Dial = func(p peer.ID, n int) (time.Duration, string) {
					if p == target {
						return time.Millisecond, "ok"
					}
					return origDial(p, n)
				}
				env.sim.Respond = func(p peer.ID, n int, req *pb.Message) verifnet.Reply {
					if p != target {
						return origRespond(p, n, req)
					}
					lat := time.Duration(sc.TargetLat) * time.Millisecond
					resp := &pb.Message{Type: req.Type, Key: req.Key}
					switch sc.TargetAns {
					case "fail":
						return verifnet.Reply{Fail: true, Latency: lat}
					case "silent":
						return verifnet.Reply{Silent: true, Latency: lat}
					case "own":
						resp.Record = pkRecord(1, string(req.Key), s.Key)
					case "foreign":
						resp.Record = pkRecord(2, string(req.Key), s.Key)
					case "garbage":
						resp.Record = pkRecord(-4, string(req.Key), s.Key)
					case "otherkey":
						resp.Record = pkRecord(-2, string(req.Key), s.Key)
					}
					return verifnet.Reply{Latency: lat, Resp: resp}
				}
				ctx, cancel := context.WithCancel(context.Background())
				defer cancel()
				time.Sleep(time.Second)
				if sc.CancelMs > 0 {
					go func() { time.Sleep(time.Duration(sc.CancelMs) * time.Millisecond); cancel() }()
				}
				pk, err := env.d.GetPublicKey(ctx, target)
				gotErr = err
				if pk != nil {
					got, _ = peer.IDFromPublicKey(pk)
					if got == "" {
						got = "?"
					}
				}
				cancel()
				time.Sleep(time.Minute)
				if spk := env.h.Peerstore().PubKey(target); spk != nil {
					stored, _ = peer.IDFromPublicKey(spk)
				}
				log = env.sim.Log()
			})
			if !out.OK() {
				res.Fail("terminates", "C04/pubkey/hang-or-panic", "%s %s\n%s", out.Deadlock, out.Panic, out.Stacks)
				return
			}
			if newErr != nil {
				res.Fail("constructs", "C04/new/error", "%v", newErr)
				return
			}
			if got != "" && got != target {
				res.Fail("key-hashes-to-id", "C04/pubkey/mismatch", "GetPublicKey(%s) returned a key that belongs to %s (err=%v)", shortID(target), shortID(got), gotErr)
			}
			if got != "" && gotErr != nil {
				res.Fail("key-or-error", "C04/pubkey/key-and-error", "GetPublicKey returned a key and error %v", gotErr)
			}
			if stored != "" && stored != target {
				res.Fail("key-hashes-to-id", "C04/pubkey/stored-mismatch", "after GetPublicKey the peerstore holds a key for %s that belongs to another peer", shortID(target))
			}
			ownDelivered := false
			wrongServed := sc.TargetAns == "foreign"
			for _, e := range log {
				if e.Kind == "request" && e.Outcome == "ok" && e.Resp != nil && e.Resp.Record != nil {
					if e.Peer == target && sc.TargetAns == "own" {
						ownDelivered = true
					}
					if e.Peer != target && string(e.Resp.Record.Key) == key {
						if own, _ := simPubKey(s.Key); string(e.Resp.Record.Value) != string(own) && len(e.Resp.Record.Value) > 20 {
							wrongServed = true
						}
					}
				}
			}
			_ = key
			if ownDelivered && sc.CancelMs == 0 && got == "" {
				res.Fail("finds-key", "C04/pubkey/missing", "the node itself delivered its own key but GetPublicKey failed: %v", gotErr)
			}
			res.NonTrivial = wrongServed
			res.Class("target-" + sc.TargetAns)
			if got != "" {
				res.Class("key-returned")
			}
			return
		},
	})
}
