//go:build verif

package dht

// C04 — value lookups only ever yield validator-approved, best-known values.

import (
	"bytes"
	"context"
	"errors"
	"fmt"
	"strings"
	"testing"
	"time"

	"github.com/libp2p/go-libp2p-kad-dht/internal/verifsim"
	pb "github.com/libp2p/go-libp2p-kad-dht/pb"
	record "github.com/libp2p/go-libp2p-record"
	"github.com/libp2p/go-libp2p/core/routing"
	"pgregory.net/rapid"
)

type valSc struct {
	Lk         lkSc `json:"lookup"`
	Quorum     int  `json:"quorum"`
	Local      int  `json:"local"` // 0 none; 1..9 valid local record of that rank; -5 local record that has expired by the validator's rule
	UseGet     bool `json:"use_get"`
	CancelMs   int  `json:"cancel_ms,omitempty"`
	Offline    bool `json:"offline,omitempty"`      // the routing.Offline option is passed
	SlowReadMs int  `json:"slow_read_ms,omitempty"` // SearchValue: the consumer pauses this long after every value it reads
}

type emitted struct {
	At  time.Duration
	Val []byte
}

func runValueSearch(t *testing.T, sc *valSc) (vals []emitted, getRes []byte, getErr error, closedAt time.Duration, obs lookupObs) {
	s := &sc.Lk
	obs.Outcome = verifsim.Bubble(t, func() {
		env, err := newSimEnv(s, stdHook(s), simValidatorOpt())
		if err != nil {
			obs.NewErr = err
			return
		}
		defer env.close()
		key := s.keyString()
		tag := strings.TrimPrefix(key, "/v/")
		ctx, cancel := context.WithCancel(context.Background())
		defer cancel()
		simExpiredLocal = nil
		switch {
		case sc.Local >= 1:
			if err := env.d.putLocal(ctx, key, record.MakePutRecord(key, simValue(sc.Local, tag, "local"))); err != nil {
				panic(err)
			}
		case sc.Local == -5:
			v := simValue(9, tag, fmt.Sprintf("exp=%d", time.Now().Unix()+30))
			simExpiredLocal = v
			if err := env.d.putLocal(ctx, key, record.MakePutRecord(key, v)); err != nil {
				panic(err)
			}
		}
		time.Sleep(time.Minute)
		if sc.CancelMs > 0 {
			go func() {
				time.Sleep(time.Duration(sc.CancelMs) * time.Millisecond)
				cancel()
			}()
		}
		opts := []routing.Option{Quorum(sc.Quorum)}
		if sc.Offline {
			opts = append(opts, routing.Offline)
		}
		if sc.UseGet {
			getRes, getErr = env.d.GetValue(ctx, key, opts...)
			closedAt = env.sim.Now()
		} else {
			ch, err := env.d.SearchValue(ctx, key, opts...)
			if err != nil {
				getErr = err
			} else {
				for v := range ch {
					vals = append(vals, emitted{env.sim.Now(), v})
					time.Sleep(time.Duration(sc.SlowReadMs) * time.Millisecond)
				}
			}
			closedAt = env.sim.Now()
		}
		cancel()
		time.Sleep(2 * time.Minute)
		obs.Log = env.sim.Log()
	})
	return
}

func TestVerif_C04_Values(t *testing.T) {
	verifsim.RunCheck(t, verifsim.Check[valSc]{
		Property: "C04", Part: "values",
		Rule: "rapid: C01-style networks of 1-25 peers whose GET_VALUE answers carry a drawn assignment of {valid record of rank 1-3, invalid value, record filed under another key whose value would be " +
			"the best for the requested key, empty value, malformed value, no record}; local storage empty / valid rank / a record that has since expired by the validator's rule (in half of those cases 1-2 responders serve the very same bytes); quorum 0/1/2/16, with or without the Offline option; " +
			"SearchValue (stream; the consumer reads at once or pauses 1-3000 ms after every value) or GetValue; optional cancellation; oracle = every yielded value validates now, the stream is strictly improving under Select, the final value is at least as good as " +
			"every valid value of local storage and of every answer delivered before the stream ended, nothing valid supplied => not-found; non-trivial = valid and invalid/mis-keyed records in the same case, or an invalid local record",
		Gen: func(t *rapid.T) valSc {
			var sc valSc
			s := &sc.Lk
			s.K = rapid.IntRange(1, 6).Draw(t, "k")
			s.Alpha = rapid.IntRange(1, 4).Draw(t, "alpha")
			s.Beta = rapid.IntRange(1, s.K).Draw(t, "beta")
			s.Key = rapid.IntRange(0, 50).Draw(t, "key")
			s.KeyKind = 2
			s.Self = rapid.IntRange(0, unknownBase-1).Draw(t, "self")
			n := rapid.IntRange(1, 25).Draw(t, "nPeers")
			s.Peers = genLkPeers(t, n, s.Self, s.keyKad(), rapid.IntRange(0, 2).Draw(t, "faulty") == 0)
			for i := range s.Peers {
				p := &s.Peers[i]
				for j := rapid.IntRange(0, 10).Draw(t, "nKnows"); j > 0; j-- {
					p.Knows = append(p.Knows, rapid.IntRange(-1, n-1).Draw(t, "knows"))
				}
				p.Val = rapid.SampledFrom([]int{0, 0, 1, 2, 3, 3, -1, -2, -2, -3, -4}).Draw(t, "val")
				if p.Val > 0 {
					p.ValVar = rapid.SampledFrom([]int{0, 0, 1, 2}).Draw(t, "valVar")
				}
			}
			ns := rapid.IntRange(1, min(n, s.K+2)).Draw(t, "nSeeds")
			s.Seeds = rapid.SliceOfNDistinct(rapid.IntRange(0, n-1), ns, ns, func(i int) int { return i }).Draw(t, "seeds")
			sc.Quorum = rapid.SampledFrom([]int{0, 1, 2, 16}).Draw(t, "quorum")
			sc.Local = rapid.SampledFrom([]int{0, 0, 1, 2, 3, 4, -5, -5}).Draw(t, "local")
			if sc.Local == -5 && rapid.Bool().Draw(t, "echoExpired") {
				// one or two responders serve the very bytes of the expired local record
				for j := rapid.IntRange(1, 2).Draw(t, "nEcho"); j > 0; j-- {
					s.Peers[rapid.IntRange(0, n-1).Draw(t, "echoPeer")].Val = -6
				}
			}
			sc.UseGet = rapid.Bool().Draw(t, "useGet")
			if rapid.IntRange(0, 5).Draw(t, "cancel") == 0 {
				sc.CancelMs = rapid.IntRange(1, 8000).Draw(t, "cancelMs")
			}
			sc.Offline = verifsim.Chance(t, "offline", 15)
			if !sc.UseGet && verifsim.Chance(t, "slowRead", 30) {
				sc.SlowReadMs = rapid.SampledFrom([]int{1, 40, 700, 3000}).Draw(t, "slowReadMs")
			}
			return sc
		},
		Run: func(t *testing.T, sc valSc) (res verifsim.Result) {
			vals, getRes, getErr, closedAt, obs := runValueSearch(t, &sc)
			if !obs.Outcome.OK() {
				res.Fail("terminates", "C04/search/hang-or-panic", "%s %s\n%s", obs.Outcome.Deadlock, obs.Outcome.Panic, obs.Outcome.Stacks)
				return
			}
			if obs.NewErr != nil {
				res.Fail("constructs", "C04/new/error", "%v", obs.NewErr)
				return
			}
			s := &sc.Lk
			key := s.keyString()
			val := simValidator{}
			if sc.UseGet && getRes != nil {
				vals = []emitted{{closedAt, getRes}}
			}
			// supplied valid values: local + answers delivered strictly before the stream ended
			var supplied [][]byte
			sawInvalid, sawValid := false, false
			if sc.Local >= 1 {
				supplied = append(supplied, simValue(sc.Local, strings.TrimPrefix(key, "/v/"), "local"))
			}
			anyDelivered := false
			// A consumer that pauses between reads sees the channel close later than the search ended. Without a quorum the search
			// ends with the lookup, i.e. with the last GET_VALUE exchange (answered, failed or cut); with a quorum it ends when the
			// quorum is reached, which a pausing consumer cannot observe: the final-value clause is then left to the cases with an
			// attentive consumer.
			if sc.SlowReadMs > 0 {
				var lastExchange time.Duration
				for _, e := range obs.Log {
					if e.Kind == "request" && e.Type == pb.Message_GET_VALUE && e.End > lastExchange {
						lastExchange = e.End
					}
				}
				if lastExchange > 0 && lastExchange < closedAt {
					closedAt = lastExchange
				}
			}
			skipFinal := sc.SlowReadMs > 0 && sc.Quorum > 0 && !sc.Offline
			atEnd := 0
			for _, e := range obs.Log {
				if e.End == closedAt {
					atEnd++
				}
			}
			aloneAtEnd := atEnd == 1
			for _, e := range obs.Log {
				if e.Kind != "request" || e.Outcome != "ok" || e.Resp == nil || e.Resp.Record == nil {
					continue
				}
				rec := e.Resp.Record
				ok := bytes.Equal(rec.Key, []byte(key)) && rec.Value != nil && val.Validate(key, rec.Value) == nil
				if !ok {
					sawInvalid = true
					continue
				}
				sawValid = true
				anyDelivered = true
				// delivered strictly before the stream ended: processed. Delivered at the very instant it ended: processed for sure
				// only when nothing else happened at that instant (then this answer is what ended the search - e.g. it completed the
				// quorum - and ending comes after processing); otherwise it may have lost the race against whatever did end it.
				if e.End < closedAt || (e.End == closedAt && aloneAtEnd && sc.CancelMs == 0) {
					supplied = append(supplied, rec.Value)
				}
			}
			_ = anyDelivered
			var prev []byte
			for i, ev := range vals {
				if err := val.Validate(key, ev.Val); err != nil {
					res.Fail("yields-valid", "C04/yield/invalid", "value %q yielded but the validator rejects it for %s: %v", ev.Val, key, err)
				}
				if strings.Contains(string(ev.Val), "MISKEYED") {
					res.Fail("yields-keyed", "C04/yield/miskeyed", "yielded the value of a record filed under another key: %q", ev.Val)
				}
				if strings.Contains(string(ev.Val), "exp=") {
					res.Fail("yields-valid", "C04/yield/expired-local", "yielded the locally stored record that has expired by the validator's rule: %q", ev.Val)
				}
				if i > 0 {
					if bytes.Equal(prev, ev.Val) || !simBetter(ev.Val, prev) {
						res.Fail("strictly-improving", "C04/stream/not-improving", "stream %q then %q", prev, ev.Val)
					}
				}
				prev = ev.Val
			}
			cancelled := sc.CancelMs > 0
			if len(vals) > 0 {
				last := vals[len(vals)-1].Val
				for _, sv := range supplied {
					if simBetter(sv, last) && !cancelled && !skipFinal {
						res.Fail("final-best", "C04/final/not-best", "final value %q although %q was supplied before the search ended (quorum %d)", last, sv, sc.Quorum)
						break
					}
				}
			} else {
				if len(supplied) > 0 && !cancelled {
					res.Fail("final-best", "C04/final/missing", "no value yielded although valid values were supplied: %q", supplied)
				}
				if sc.UseGet && !cancelled && !errors.Is(getErr, routing.ErrNotFound) && len(obs.Log) > 0 {
					res.Fail("not-found", "C04/notfound/wrong-error", "GetValue without any valid value returned err=%v", getErr)
				}
			}
			if sc.UseGet && getRes != nil && getErr != nil && !cancelled {
				res.Fail("get/result-or-error", "C04/get/value-and-error", "GetValue returned a value and error %v", getErr)
			}
			res.NonTrivial = (sawValid && sawInvalid) || sc.Local == -5
			if sawValid && sawInvalid {
				res.Class("valid-and-invalid")
			}
			if sc.Local == -5 {
				res.Class("expired-local")
			}
			if len(vals) > 1 {
				res.Class("multi-emission")
			}
			return
		},
	})
}
