//go:build verif

package dht

// C05, node level — the local PutValue path, the PUT_VALUE / GET_VALUE handlers and local reads of one real IpfsDHT share
// one value datastore; every datastore call and every validator call (Validate, Select) of an actor is a yield point, and a
// drawn schedule of runs ("actor i proceeds for n steps") decides the interleaving. The oracle is the datastore write log
// plus the outcomes of the operations.

import (
	"bytes"
	"context"
	"errors"
	"fmt"
	"strings"
	"testing"
	"time"

	"github.com/libp2p/go-libp2p-kad-dht/internal"
	"github.com/libp2p/go-libp2p-kad-dht/internal/verifsim"
	pb "github.com/libp2p/go-libp2p-kad-dht/pb"
	kb "github.com/libp2p/go-libp2p-kbucket"
	record "github.com/libp2p/go-libp2p-record"
	recpb "github.com/libp2p/go-libp2p-record/pb"
	"github.com/libp2p/go-libp2p/core/peer"
	"google.golang.org/protobuf/proto"
	"pgregory.net/rapid"
)

type ndOp struct {
	Op    string `json:"op"` // localput remoteput remoteget localget getvalue
	Key   int    `json:"key"`
	Rank  int    `json:"rank,omitempty"`
	Junk  string `json:"junk,omitempty"`
	Kind  string `json:"kind,omitempty"`  // remoteput: "" (well-formed) miskeyed wrongvalue garbage nilrec nokey nokeyrec
	Half  int    `json:"half,omitempty"`  // two-instance scenarios: which of the two DHT instances over the one datastore the operation goes to
	Stamp string `json:"stamp,omitempty"` // remoteput: receive time carried by the sender's record: "" none | past | future | garbage
}

type ndRun struct {
	Who int `json:"who"`
	N   int `json:"n"`
}

type ndSc struct {
	NKeys  int      `json:"n_keys"`
	Actors [][]ndOp `json:"actors"`
	Runs   []ndRun  `json:"runs"`
	Plant  string   `json:"plant,omitempty"`         // "", "expired", "corrupt", "miskeyed": initial datastore content of key 0
	Two    bool     `json:"two_instances,omitempty"` // two DHT instances share the value datastore (the WAN and LAN halves of a dual DHT given one datastore)
}

// gateValidator makes the validator calls of actor goroutines yield points.
type gateValidator struct{ gate func(verifsim.Call) }

func (g gateValidator) Validate(key string, v []byte) error {
	g.gate(verifsim.Call{Op: "validate", Key: key})
	return simValidator{}.Validate(key, v)
}

func (g gateValidator) Select(key string, vals [][]byte) (int, error) {
	g.gate(verifsim.Call{Op: "select", Key: key})
	return simValidator{}.Select(key, vals)
}

func ndKey(i int) string { return fmt.Sprintf("/v/k%d", i) }

type ndResult struct {
	key   string
	op    ndOp
	value []byte // put: value offered; get: value returned (nil: none)
	err   error
	ack   bool
	jAt   int // journal length when the operation started
	jEnd  int
}

func TestVerif_C05_Node(t *testing.T) {
	verifsim.RunCheck(t, verifsim.Check[ndSc]{
		Property: "C05", Part: "node",
		Rule: "rapid: a real IpfsDHT (empty routing table) over a journaling value datastore; 2-4 actors each running 1-3 operations out of local PutValue, PUT_VALUE handler " +
			"(well-formed / mis-keyed / value for another key / garbage / no record / no key; the sender's record carrying no, a past, a future or a garbage receive time), GET_VALUE handler, local read and GetValue on 1-2 keys, optional planted expired / corrupt / " +
			"mis-keyed bytes; yield points = every datastore call and every Validate/Select call of an actor, schedule = drawn runs (actor, steps); in one case in three two DHT instances share the datastore (the two halves of a dual DHT given one datastore) and each operation goes to one of them; oracle = per-key write log valid, correctly " +
			"keyed, stamped within the run and never downgraded under the validator's order, no live record deleted, rejected puts leave no trace, a local PutValue offered against a better live stored record is refused, " +
			"an acknowledged put is readable by the same actor's later reads (not worse), no read returns the planted expired/corrupt/mis-keyed bytes or a never-stored value, final read = not " +
			"worse than every acknowledged put; non-trivial = a decision point with >=2 actors inside operations on the same key, one of them a local PutValue",
		Gen: func(t *rapid.T) ndSc {
			s := ndSc{NKeys: rapid.IntRange(1, 2).Draw(t, "nKeys")}
			na := rapid.IntRange(2, 4).Draw(t, "nActors")
			for a := 0; a < na; a++ {
				ops := rapid.SliceOfN(rapid.Custom(func(t *rapid.T) ndOp {
					o := ndOp{Key: rapid.IntRange(0, s.NKeys-1).Draw(t, "k")}
					switch c := verifsim.Mix64(uint64(rapid.IntRange(0, 1<<20).Draw(t, "opKind"))) % 100; {
					case c < 35:
						o.Op = "localput"
					case c < 70:
						o.Op = "remoteput"
						if verifsim.Chance(t, "malformed", 25) {
							o.Kind = rapid.SampledFrom([]string{"miskeyed", "wrongvalue", "garbage", "nilrec", "nokey", "nokeyrec"}).Draw(t, "kind")
						}
						o.Stamp = rapid.SampledFrom([]string{"", "", "past", "future", "garbage"}).Draw(t, "stamp")
					case c < 82:
						o.Op = "remoteget"
					case c < 92:
						o.Op = "localget"
					default:
						o.Op = "getvalue"
					}
					o.Half = rapid.IntRange(0, 1).Draw(t, "half")
					if o.Op == "localput" || o.Op == "remoteput" {
						o.Rank = rapid.IntRange(0, 3).Draw(t, "rank")
						o.Junk = rapid.SampledFrom([]string{"", "x"}).Draw(t, "junk")
					}
					return o
				}), 1, 3).Draw(t, "ops")
				s.Actors = append(s.Actors, ops)
			}
			s.Runs = rapid.SliceOfN(rapid.Custom(func(t *rapid.T) ndRun {
				return ndRun{Who: rapid.IntRange(0, na-1).Draw(t, "who"), N: rapid.IntRange(1, 9).Draw(t, "n")}
			}), 0, 24).Draw(t, "runs")
			s.Plant = rapid.SampledFrom([]string{"", "", "", "expired", "corrupt", "miskeyed"}).Draw(t, "plant")
			s.Two = verifsim.Chance(t, "twoInstances", 35)
			return s
		},
		Run: func(t *testing.T, s ndSc) verifsim.Result { return runNode(t, s) },
	})
}

func runNode(t *testing.T, s ndSc) (res verifsim.Result) {
	ctx := context.Background()
	d := verifsim.NewJournalDS("values")
	sch := verifsim.NewSched()
	lk := &lkSc{K: 2, Alpha: 1, Beta: 1, Self: 1}
	env, err := newSimEnv(lk, nil, ValueDatastore(d), Validator(record.NamespacedValidator{"v": gateValidator{gate: sch.Gate}}),
		MaxRecordAge(time.Hour), Mode(ModeServer))
	if err != nil {
		res.Fail("constructs", "C05/node/new", "%v", err)
		return
	}
	defer env.close()
	dhtn := env.d
	nodes := []*IpfsDHT{env.d, env.d}
	if s.Two {
		lk2 := &lkSc{K: 2, Alpha: 1, Beta: 1, Self: 2}
		env2, err := newSimEnv(lk2, nil, ValueDatastore(d), Validator(record.NamespacedValidator{"v": gateValidator{gate: sch.Gate}}),
			MaxRecordAge(time.Hour), Mode(ModeServer))
		if err != nil {
			res.Fail("constructs", "C05/node/new", "%v", err)
			return
		}
		defer env2.close()
		nodes[1] = env2.d
	}
	from := peer.ID(ppool().IDs[7])

	// where the node files a key: learned from the node itself with a probe key (then removed from the journal's view)
	probe := map[string]string{} // value key -> datastore key
	for i := 0; i < s.NKeys; i++ {
		k := ndKey(i)
		before := d.JournalLen()
		if err := dhtn.putLocal(ctx, k, record.MakePutRecord(k, simValue(0, strings.TrimPrefix(k, "/v/"), "probe"))); err != nil {
			res.Fail("constructs", "C05/node/probe", "%v", err)
			return
		}
		j := d.Journal()
		if len(j) != before+1 || len(j[before].Writes) != 1 {
			res.Fail("constructs", "C05/node/probe", "probe put wrote %d journal entries", len(j)-before)
			return
		}
		probe[k] = j[before].Writes[0].Key
	}
	d.Destroy()
	var planted []byte
	switch s.Plant {
	case "expired":
		r := record.MakePutRecord(ndKey(0), simValue(9, "k0", "old"))
		r.TimeReceived = internal.FormatRFC3339(time.Now().Add(-2 * time.Hour))
		planted, _ = proto.Marshal(r)
	case "corrupt":
		planted = []byte{0xff, 0, 1}
	case "miskeyed":
		// valid bytes of a record that belongs to another key, filed under key 0
		r := record.MakePutRecord("/v/other", simValue(9, "other", "old"))
		r.TimeReceived = internal.FormatRFC3339(time.Now())
		planted, _ = proto.Marshal(r)
	}
	if planted != nil {
		d.PlantRaw(probe[ndKey(0)], planted)
	}
	base := d.JournalLen()
	t0 := time.Now()

	results := make([][]ndResult, len(s.Actors))
	for ai, ops := range s.Actors {
		ai, ops := ai, ops
		sch.Go(fmt.Sprintf("a%d", ai), func() {
			for _, op := range ops {
				k := ndKey(op.Key % s.NKeys)
				tag := strings.TrimPrefix(k, "/v/")
				r := ndResult{key: k, op: op, jAt: d.JournalLen()}
				dhtn := nodes[op.Half%2]
				switch op.Op {
				case "localput":
					r.value = simValue(op.Rank, tag, op.Junk)
					r.err = dhtn.PutValue(ctx, k, r.value)
					r.ack = r.err == nil || errors.Is(r.err, kb.ErrLookupFailure)
				case "remoteput":
					r.value = simValue(op.Rank, tag, op.Junk)
					msg := &pb.Message{Type: pb.Message_PUT_VALUE, Key: []byte(k), Record: &recpb.Record{Key: []byte(k), Value: r.value}}
					switch op.Stamp {
					case "past":
						msg.Record.TimeReceived = internal.FormatRFC3339(time.Now().Add(-1000 * time.Hour))
					case "future":
						msg.Record.TimeReceived = internal.FormatRFC3339(time.Now().Add(1000 * time.Hour))
					case "garbage":
						msg.Record.TimeReceived = "attacker-supplied"
					}
					switch op.Kind {
					case "miskeyed":
						r.value = simValue(op.Rank, "other", op.Junk+"MISKEYED")
						msg.Record = &recpb.Record{Key: []byte("/v/other"), Value: r.value}
					case "wrongvalue":
						r.value = simValue(op.Rank, "other", op.Junk+"WRONG")
						msg.Record.Value = r.value
					case "garbage":
						r.value = []byte("garbage")
						msg.Record.Value = r.value
					case "nokeyrec":
						// valid for the message key, but the record itself names no key
						r.value = simValue(op.Rank, tag, op.Junk+"NOKEYREC")
						msg.Record = &recpb.Record{Value: r.value}
					case "nilrec":
						msg.Record = nil
					case "nokey":
						msg.Key = nil
					}
					h := dhtn.handlerForMsgType(pb.Message_PUT_VALUE)
					if h == nil {
						r.err = errors.New("no PUT_VALUE handler")
					} else {
						var resp *pb.Message
						resp, r.err = h(ctx, from, msg)
						r.ack = r.err == nil && resp != nil
					}
				case "remoteget":
					h := dhtn.handlerForMsgType(pb.Message_GET_VALUE)
					if h == nil {
						r.err = errors.New("no GET_VALUE handler")
					} else {
						var resp *pb.Message
						resp, r.err = h(ctx, from, &pb.Message{Type: pb.Message_GET_VALUE, Key: []byte(k)})
						if r.err == nil && resp.GetRecord() != nil {
							r.value = resp.GetRecord().GetValue()
							if string(resp.GetRecord().GetKey()) != k {
								r.err = fmt.Errorf("GET_VALUE for %q answered with a record keyed %q", k, resp.GetRecord().GetKey())
							}
						}
					}
				case "localget":
					var rec *recpb.Record
					rec, r.err = dhtn.getLocal(ctx, k)
					if r.err == nil && rec != nil {
						r.value = rec.GetValue()
					}
				case "getvalue":
					v, err := dhtn.GetValue(ctx, k)
					if err == nil {
						r.value = v
					}
				}
				r.jEnd = d.JournalLen()
				results[ai] = append(results[ai], r)
			}
		})
	}
	d.Gate = sch.Gate
	contended := 0
	run, left := 0, 0
	trace, derr := sch.Drive(func(step, n int) int {
		parked := sch.Parked()
		// a decision point with >=2 actors inside operations (not at their start gate) on the same key, one of them a local put
		byKey := map[string][2]int{}
		for _, a := range parked {
			if a.At.Op == "start" {
				continue
			}
			var ai int
			fmt.Sscanf(a.Name, "a%d", &ai)
			cur := len(results[ai])
			if cur >= len(s.Actors[ai]) {
				continue
			}
			op := s.Actors[ai][cur]
			c := byKey[ndKey(op.Key%s.NKeys)]
			c[0]++
			if op.Op == "localput" {
				c[1]++
			}
			byKey[ndKey(op.Key%s.NKeys)] = c
		}
		for _, c := range byKey {
			if c[0] >= 2 && c[1] >= 1 {
				contended++
				break
			}
		}
		for {
			if left == 0 {
				if run >= len(s.Runs) {
					return 0
				}
				left = s.Runs[run].N
				run++
			}
			want := fmt.Sprintf("a%d", s.Runs[run-1].Who%len(s.Actors))
			for i, a := range parked {
				if a.Name == want {
					left--
					return i
				}
			}
			left = 0 // that actor is done or blocked: next run
		}
	}, 600)
	d.Gate = nil
	tEnd := time.Now()
	if derr != nil {
		if strings.HasPrefix(derr.Error(), "deadlock") {
			res.Fail("no-deadlock", "C05/node/deadlock", "%v; trace %v", derr, trace)
		} else {
			panic("C05 node scheduler: " + derr.Error())
		}
		return
	}
	for _, p := range sch.Panics() {
		res.Fail("no-panic", "C05/node/panic", "%s", p)
	}

	// ---- write log ----
	type wl struct {
		seq int
		v   []byte // nil: delete
	}
	perKey := map[string][]wl{}
	stored := map[string]bool{} // every value ever written (by content)
	journal := d.Journal()
	for ji, e := range journal {
		if ji < base {
			continue
		}
		for _, w := range e.Writes {
			if w.Del {
				perKey[w.Key] = append(perKey[w.Key], wl{ji, nil})
				continue
			}
			rec := new(recpb.Record)
			if err := proto.Unmarshal(w.Value, rec); err != nil {
				res.Fail("stored-valid", "C05/stored/undecodable", "undecodable bytes stored under %s", w.Key)
				continue
			}
			k := string(rec.GetKey())
			if probe[k] != w.Key {
				res.Fail("stored-keyed", "C05/stored/wrong-key", "record keyed %q stored under %s", k, w.Key)
			}
			if (simValidator{}).Validate(k, rec.GetValue()) != nil {
				res.Fail("stored-valid", "C05/stored/invalid", "invalid record %q stored under %s", rec.GetValue(), w.Key)
			}
			if ts, err := internal.ParseRFC3339(rec.GetTimeReceived()); err != nil {
				res.Fail("stored-stamped", "C05/stored/unstamped", "record %q stored without a receive time", rec.GetValue())
			} else if ts.Before(t0.Add(-time.Second)) || ts.After(tEnd.Add(time.Second)) {
				// the run takes real time: the stamp must lie between its start and its end, whatever the sender's record carried
				res.Fail("stored-stamped", "C05/stored/timestamp", "record %q stored with receive time %s, the run lasted from %s to %s", rec.GetValue(), rec.GetTimeReceived(), t0.UTC().Format(time.RFC3339), tEnd.UTC().Format(time.RFC3339))
			}
			perKey[w.Key] = append(perKey[w.Key], wl{ji, rec.GetValue()})
			stored[string(rec.GetValue())] = true
		}
	}
	for dk, seq := range perKey {
		var prev []byte
		live := false
		for _, w := range seq {
			if w.v == nil {
				if live {
					res.Fail("delete-only-expired", "C05/delete/live-record", "%s: live record %q deleted; trace %v", dk, prev, trace)
				}
				prev, live = nil, false
				continue
			}
			if live && simBetter(prev, w.v) {
				res.Fail("never-downgraded", "C05/stored/downgrade", "%s: %q replaced by worse %q; trace %v", dk, prev, w.v, trace)
			}
			prev, live = w.v, true
		}
	}
	// live record stored under dskey when the journal had n entries (nil: none, or the planted bytes)
	liveAt := func(dskey string, n int) []byte {
		var v []byte
		for _, w := range perKey[dskey] {
			if w.seq >= n {
				break
			}
			v = w.v
		}
		return v
	}

	plantedVals := map[string]bool{}
	if s.Plant == "expired" {
		plantedVals[string(simValue(9, "k0", "old"))] = true
	}
	if s.Plant == "miskeyed" {
		plantedVals[string(simValue(9, "other", "old"))] = true
	}
	acked := map[string][][]byte{}
	ackedSet := map[string]bool{}
	for _, rs := range results {
		for _, r := range rs {
			if (r.op.Op == "localput" || r.op.Op == "remoteput") && r.ack {
				acked[r.key] = append(acked[r.key], r.value)
				ackedSet[string(r.value)] = true
			}
		}
	}
	for ai, rs := range results {
		var lastAck = map[string][]byte{}
		for oi, r := range rs {
			name := fmt.Sprintf("a%d op%d %s %s", ai, oi, r.op.Op, r.key)
			switch r.op.Op {
			case "localput", "remoteput":
				if r.op.Kind != "" && r.ack {
					res.Fail("malformed-rejected", "C05/node/malformed-acknowledged", "%s: malformed PUT_VALUE (%s) was acknowledged", name, r.op.Kind)
				}
				if !r.ack && len(r.value) > 0 && stored[string(r.value)] && !ackedSet[string(r.value)] {
					res.Fail("rejected-no-trace", "C05/node/rejected-put-stored", "%s: put of %q failed with %v, yet the value was written", name, r.value, r.err)
				}
				if r.ack && !stored[string(r.value)] {
					// an acknowledged put of bytes equal to the stored record may skip the write only if those bytes were stored before
					res.Fail("ack-stored", "C05/node/acknowledged-not-stored", "%s: put of %q acknowledged but the value was never written", name, r.value)
				}
				if r.op.Op == "localput" {
					if at := liveAt(probe[r.key], r.jAt); at != nil && simBetter(at, r.value) {
						if r.ack {
							res.Fail("local-put-refused", "C05/node/local-put-not-refused", "%s: PutValue(%q) returned %v although the better %q was stored when it started; trace %v", name, r.value, r.err, at, trace)
						}
					}
				}
				if r.ack {
					lastAck[r.key] = r.value
				}
			default:
				if r.err != nil && r.op.Op != "getvalue" {
					res.Fail("get/error", "C05/get/error", "%s: %v", name, r.err)
				}
				if r.value != nil {
					if plantedVals[string(r.value)] {
						res.Fail("expired-never-served", "C05/get/planted-served", "%s returned the planted %s record %q", name, s.Plant, r.value)
					} else if !stored[string(r.value)] {
						res.Fail("get/stored", "C05/node/get-never-stored", "%s returned %q which was never stored", name, r.value)
					} else if (simValidator{}).Validate(r.key, r.value) != nil {
						res.Fail("get/valid", "C05/get/invalid", "%s returned %q, invalid for the key", name, r.value)
					}
				}
				if la := lastAck[r.key]; la != nil {
					if r.value == nil {
						res.Fail("ack-readable", "C05/node/acknowledged-not-readable", "%s found nothing after this actor's acknowledged put of %q; trace %v", name, la, trace)
					} else if simBetter(la, r.value) {
						res.Fail("ack-readable", "C05/node/read-worse-than-acknowledged", "%s returned %q after this actor's acknowledged put of the better %q; trace %v", name, r.value, la, trace)
					}
				}
			}
		}
	}
	// final state
	for i := 0; i < s.NKeys; i++ {
		k := ndKey(i)
		got, err := dhtn.getLocal(ctx, k)
		if err != nil {
			res.Fail("get/error", "C05/get/error", "final read of %s: %v", k, err)
			continue
		}
		for _, a := range acked[k] {
			if got == nil {
				res.Fail("final-best", "C05/node/final-missing", "%s: nothing stored at the end although the put of %q was acknowledged; trace %v", k, a, trace)
				break
			}
			if simBetter(a, got.GetValue()) {
				res.Fail("final-best", "C05/node/final-not-best", "%s: final record %q is worse than the acknowledged %q; trace %v", k, got.GetValue(), a, trace)
				break
			}
		}
		if got != nil && !stored[string(got.GetValue())] {
			res.Fail("final-best", "C05/node/final-invented", "%s: final record %q was never written by the node", k, got.GetValue())
		}
		if got != nil && !bytes.Equal(got.GetKey(), []byte(k)) {
			res.Fail("final-best", "C05/get/wrong-key", "%s: final record keyed %q", k, got.GetKey())
		}
	}
	res.NonTrivial = contended > 0
	if contended > 0 {
		res.Class("local-put-contended")
	}
	if s.Plant != "" {
		res.Class("planted-" + s.Plant)
	}
	if s.Two {
		res.Class("two-instances")
	}
	return
}
