//go:build verif

package dht

// C06 — puts and provides reach every closest peer found, with correct content.

import (
	"bytes"
	"context"
	"fmt"
	"sort"
	"strings"
	"testing"
	"time"

	"github.com/ipfs/go-cid"
	"github.com/libp2p/go-libp2p-kad-dht/internal/verifnet"
	"github.com/libp2p/go-libp2p-kad-dht/internal/verifsim"
	pb "github.com/libp2p/go-libp2p-kad-dht/pb"
	kb "github.com/libp2p/go-libp2p-kbucket"
	"github.com/libp2p/go-libp2p/core/peer"
	ma "github.com/multiformats/go-multiaddr"
	mh "github.com/multiformats/go-multihash"
	"pgregory.net/rapid"
)

type wrSc struct {
	Lk       lkSc     `json:"lookup"`
	Op       string   `json:"op"` // putvalue provide provideopt search
	Addrs    []string `json:"addrs"`
	AddrFilt string   `json:"addr_filter"` // "" | nolo | pub
}

var addrClasses = map[string]string{
	"pub4":  "/ip4/8.8.4.4/tcp/4001",
	"pub4b": "/ip4/9.9.9.9/udp/4001/quic-v1",
	"priv":  "/ip4/192.168.1.5/tcp/4001",
	"lo":    "/ip4/127.0.0.1/tcp/4001",
	"lo6":   "/ip6/::1/tcp/4001",
}

func applyAddrFilter(kind string, classes []string) []string {
	var out []string
	for _, c := range classes {
		switch kind {
		case "nolo":
			if c == "lo" || c == "lo6" {
				continue
			}
		case "pub":
			if c != "pub4" && c != "pub4b" {
				continue
			}
		}
		out = append(out, c)
	}
	return out
}

func addrFilterOpt(kind string) Option {
	return AddressFilter(func(in []ma.Multiaddr) []ma.Multiaddr {
		var out []ma.Multiaddr
		for _, a := range in {
			s := a.String()
			lo := strings.HasPrefix(s, "/ip4/127.") || strings.HasPrefix(s, "/ip6/::1")
			pub := strings.HasPrefix(s, "/ip4/8.") || strings.HasPrefix(s, "/ip4/9.")
			switch kind {
			case "nolo":
				if lo {
					continue
				}
			case "pub":
				if !pub {
					continue
				}
			}
			out = append(out, a)
		}
		return out
	})
}

// resultFromEvents recomputes the lookup result (K nearest of learned minus
// failed) from the lookup events, as validated by the C01 check.
func resultFromEvents(s *lkSc, evs []timedEvent, seeds []peer.ID) (r []peer.ID, terminated bool) {
	learned := map[peer.ID]bool{}
	failed := map[peer.ID]bool{}
	for _, p := range seeds {
		learned[p] = true
	}
	self := s.selfID()
	for _, te := range evs {
		if te.Ev.Terminate != nil {
			terminated = true
		}
		if te.Ev.Response == nil {
			continue
		}
		for _, p := range kadIDs(te.Ev.Response.Heard) {
			if p != self {
				learned[p] = true
			}
		}
		for _, p := range kadIDs(te.Ev.Response.Unreachable) {
			failed[p] = true
		}
	}
	target := s.keyKad()
	for p := range learned {
		if !failed[p] {
			r = append(r, p)
		}
	}
	sort.Slice(r, func(i, j int) bool { return distLess(target, r[i], r[j]) })
	if len(r) > s.K {
		r = r[:s.K]
	}
	return
}

type wrObs struct {
	Events    []timedEvent
	Log       []verifnet.Exchange
	Seeds     []peer.ID
	Err       error
	LocalAt   time.Duration // when the local store was observed to hold the record (before first PUT)
	LocalOK   bool
	SelfProv  bool
	Values    [][]byte
	Outcome   verifsim.BubbleOutcome
	NewErr    error
	HostAddrs []ma.Multiaddr
	Returned  time.Duration
}

func runWrite(t *testing.T, sc *wrSc) wrObs {
	var obs wrObs
	s := &sc.Lk
	obs.Outcome = verifsim.Bubble(t, func() {
		extra := []Option{simValidatorOpt()}
		if sc.AddrFilt != "" {
			extra = append(extra, addrFilterOpt(sc.AddrFilt))
		}
		if sc.Op == "provideopt" {
			extra = append(extra, EnableOptimisticProvide())
		}
		var env *simEnv
		hook := stdHook(s)
		localSeen := false
		wrapped := func(p *lkPeer, n int, req *pb.Message, base *pb.Message) *verifnet.Reply {
			if req.Type == pb.Message_PUT_VALUE && !localSeen {
				// first PUT_VALUE on the wire: the local store must already hold the record
				localSeen = true
				rec, err := env.d.getLocal(context.Background(), string(req.Key))
				obs.LocalOK = err == nil && rec != nil && bytes.Equal(rec.GetValue(), req.GetRecord().GetValue())
			}
			return hook(p, n, req, base)
		}
		var err error
		env, err = newSimEnv(s, wrapped, extra...)
		if err != nil {
			obs.NewErr = err
			return
		}
		defer env.close()
		var has []ma.Multiaddr
		for _, c := range sc.Addrs {
			has = append(has, ma.StringCast(addrClasses[c]))
		}
		env.h.SetAddrs(has)
		obs.HostAddrs = has
		if sc.Op == "provideopt" {
			primeEstimator(env.d, s.K)
		}
		key := s.keyString()
		obs.Seeds = env.d.RoutingTable().NearestPeers(kb.ConvertKey(key), s.K)
		ctx, cancel := context.WithCancel(context.Background())
		ectx, ch := RegisterForLookupEvents(ctx)
		get, done := collectEvents(env.sim, ch)
		time.Sleep(time.Second)
		switch sc.Op {
		case "putvalue":
			obs.Err = env.d.PutValue(ectx, key, simValue(3, strings.TrimPrefix(key, "/v/"), "put"))
		case "provide", "provideopt":
			obs.Err = env.d.Provide(ectx, cid.NewCidV1(cid.Raw, mh.Multihash(key)), true)
			provs, _ := env.d.providerStore.GetProviders(context.Background(), []byte(key))
			for _, p := range provs {
				if p.ID == env.d.self {
					obs.SelfProv = true
				}
			}
		case "search":
			out, err := env.d.SearchValue(ectx, key, Quorum(0))
			obs.Err = err
			if err == nil {
				for v := range out {
					obs.Values = append(obs.Values, v)
				}
			}
		}
		obs.Returned = env.sim.Now()
		time.Sleep(3 * time.Minute) // background RPCs (optimistic provide, corrective puts) end within their own timeouts
		verifsim.Quiesce()
		cancel()
		<-done
		obs.Events = get()
		obs.Log = env.sim.Log()
	})
	return obs
}

func TestVerif_C06_Writes(t *testing.T) {
	verifsim.RunCheck(t, verifsim.Check[wrSc]{
		Property: "C06", Part: "writes",
		Rule: "rapid: C01-style networks (1-25 peers, faults, latencies) with per-recipient treatment of write RPCs (ok, error, hang to timeout), host address sets drawn from classes " +
			"{public x2, private, loopback v4/v6, none}, address filter {none, no-loopback, public-only}; operations PutValue, Provide classic, Provide optimistic (estimator primed) for SHA-256, identity and SHA-1 multihash keys, completed SearchValue; " +
			"oracle over the simulation log with the lookup result R recomputed from the lookup events: local store first, PUT_VALUE with the same record to exactly R, one ADD_PROVIDER naming exactly self with the " +
			"filtered non-empty addresses to every member of R (exactly R for classic; nobody twice), none at all when no address passes, corrective puts to exactly the closest peers that did not return the best value; " +
			"non-trivial = |R|>=2 with a failing/hanging recipient, or a host address set the filter changes",
		Gen: func(t *rapid.T) wrSc {
			var sc wrSc
			s := &sc.Lk
			sc.Op = rapid.SampledFrom([]string{"putvalue", "provide", "provideopt", "search"}).Draw(t, "op")
			s.K = rapid.IntRange(1, 6).Draw(t, "k")
			s.Alpha = rapid.IntRange(1, 4).Draw(t, "alpha")
			s.Beta = rapid.IntRange(1, s.K).Draw(t, "beta")
			s.Key = rapid.IntRange(0, 99).Draw(t, "key")
			if sc.Op == "putvalue" || sc.Op == "search" {
				s.KeyKind = 2
			} else if verifsim.Chance(t, "otherHash", 20) {
				s.KeyKind = rapid.SampledFrom([]int{4, 5}).Draw(t, "hashKind") // provide: identity / SHA-1 multihash
			}
			s.Self = rapid.IntRange(0, unknownBase-1).Draw(t, "self")
			n := rapid.IntRange(1, 25).Draw(t, "nPeers")
			s.Peers = genLkPeers(t, n, s.Self, s.keyKad(), rapid.IntRange(0, 3).Draw(t, "faulty") == 0)
			for i := range s.Peers {
				p := &s.Peers[i]
				for j := rapid.IntRange(0, 10).Draw(t, "nKnows"); j > 0; j-- {
					p.Knows = append(p.Knows, rapid.IntRange(0, n-1).Draw(t, "knows"))
				}
				p.Put = rapid.SampledFrom([]string{"", "", "", "fail", "hang"}).Draw(t, "put")
				if sc.Op == "search" {
					p.Val = rapid.SampledFrom([]int{0, 1, 2, 3, 3, -1}).Draw(t, "val")
				}
			}
			if sc.Op == "provideopt" {
				pp := ppool()
				tk := s.keyKad()
				var cand []int
				for l := 20; l >= 0 && len(cand) < 4; l-- {
					cand = pp.WithPrefix(verifsim.BitString(tk, l))
				}
				m := rapid.IntRange(0, min(4, len(cand))).Draw(t, "nNearest")
				for i := 0; i < m && i < len(s.Peers); i++ {
					dup := false
					for _, p := range s.Peers {
						if p.ID == cand[i] {
							dup = true
						}
					}
					if !dup && cand[i] != s.Self {
						s.Peers[i].ID = cand[i]
					}
				}
			}
			ns := rapid.IntRange(1, min(n, s.K+2)).Draw(t, "nSeeds")
			s.Seeds = rapid.SliceOfNDistinct(rapid.IntRange(0, n-1), ns, ns, func(i int) int { return i }).Draw(t, "seeds")
			sc.Addrs = rapid.SliceOfNDistinct(rapid.SampledFrom([]string{"pub4", "pub4b", "priv", "lo", "lo6"}), 0, 4, func(s string) string { return s }).Draw(t, "addrs")
			sc.AddrFilt = rapid.SampledFrom([]string{"", "nolo", "pub"}).Draw(t, "addrFilter")
			return sc
		},
		Run: func(t *testing.T, sc wrSc) (res verifsim.Result) {
			obs := runWrite(t, &sc)
			if !obs.Outcome.OK() {
				res.Fail("terminates", "C06/"+sc.Op+"/hang-or-panic", "%s %s\n%s", obs.Outcome.Deadlock, obs.Outcome.Panic, obs.Outcome.Stacks)
				return
			}
			if obs.NewErr != nil {
				res.Fail("constructs", "C06/new/error", "%v", obs.NewErr)
				return
			}
			s := &sc.Lk
			key := s.keyString()
			self := s.selfID()
			R, terminated := resultFromEvents(s, obs.Events, obs.Seeds)
			inR := map[peer.ID]bool{}
			for _, p := range R {
				inR[p] = true
			}
			wantAddrs := map[string]bool{}
			for _, c := range applyAddrFilter(sc.AddrFilt, sc.Addrs) {
				wantAddrs[ma.StringCast(addrClasses[c]).String()] = true
			}
			puts := map[peer.ID]int{}
			adds := map[peer.ID]int{}
			failingRecipient := false
			for _, e := range obs.Log {
				switch {
				case e.Type == pb.Message_PUT_VALUE && (e.Kind == "request"):
					puts[e.Peer]++
					if e.Outcome != "ok" {
						failingRecipient = true
					}
					if sc.Op == "putvalue" {
						want := simValue(3, strings.TrimPrefix(key, "/v/"), "put")
						if string(e.Req.GetKey()) != key || string(e.Req.GetRecord().GetKey()) != key || !bytes.Equal(e.Req.GetRecord().GetValue(), want) {
							res.Fail("put/content", "C06/putvalue/content", "PUT_VALUE to %s carries key %q record key %q value %q", shortID(e.Peer), e.Req.GetKey(), e.Req.GetRecord().GetKey(), e.Req.GetRecord().GetValue())
						}
					}
				case e.Type == pb.Message_ADD_PROVIDER && e.Kind != "dial":
					adds[e.Peer]++
					if e.Outcome != "ok" {
						failingRecipient = true
					}
					pps := e.Req.GetProviderPeers()
					if string(e.Req.GetKey()) != key || len(pps) != 1 || peer.ID(pps[0].Id) != self {
						res.Fail("provide/content", "C06/provide/content", "ADD_PROVIDER to %s: key ok=%v, %d provider records, id self=%v", shortID(e.Peer), string(e.Req.GetKey()) == key, len(pps), len(pps) == 1 && peer.ID(pps[0].Id) == self)
						continue
					}
					got := map[string]bool{}
					for _, a := range pps[0].Addresses() {
						got[a.String()] = true
					}
					if len(got) == 0 {
						res.Fail("provide/non-empty-addrs", "C06/provide/empty-addrs", "ADD_PROVIDER to %s advertises no address", shortID(e.Peer))
					}
					if fmt.Sprint(sortedSet(got)) != fmt.Sprint(sortedSet(wantAddrs)) {
						res.Fail("provide/filtered-addrs", "C06/provide/addrs", "ADD_PROVIDER to %s advertises %v, filter(%s) of host addresses is %v", shortID(e.Peer), sortedSet(got), sc.AddrFilt, sortedSet(wantAddrs))
					}
				}
			}
			switch sc.Op {
			case "putvalue":
				if len(obs.Seeds) == 0 {
					break
				}
				if obs.Err != nil {
					res.Fail("put/no-error", "C06/putvalue/error", "PutValue: %v", obs.Err)
					break
				}
				if len(puts) > 0 && !obs.LocalOK {
					res.Fail("put/local-first", "C06/putvalue/local-not-first", "the first PUT_VALUE went out before the local store held the record")
				}
				for _, p := range R {
					if puts[p] != 1 {
						res.Fail("put/reaches-all", "C06/putvalue/recipient-missed", "closest peer %s received %d PUT_VALUE (R=%v, recipients %d)", shortID(p), puts[p], shortIDs(R), len(puts))
						break
					}
				}
				for p := range puts {
					if !inR[p] {
						res.Fail("put/only-closest", "C06/putvalue/extra-recipient", "PUT_VALUE sent to %s which the lookup did not return (R=%v)", shortID(p), shortIDs(R))
						break
					}
				}
			case "provide", "provideopt":
				if !obs.SelfProv {
					res.Fail("provide/local-record", "C06/provide/self-not-recorded", "local provider store does not list the local node after Provide")
				}
				if len(wantAddrs) == 0 {
					if len(adds) != 0 {
						res.Fail("provide/no-addr-no-announce", "C06/provide/announced-without-addrs", "%d ADD_PROVIDER sent although no address passes the filter", len(adds))
					}
					break
				}
				if len(obs.Seeds) == 0 || !terminated {
					break
				}
				for _, p := range R {
					if adds[p] < 1 {
						res.Fail("provide/reaches-all", "C06/"+sc.Op+"/recipient-missed", "closest peer %s received no ADD_PROVIDER (R=%v, recipients %d, err %v)", shortID(p), shortIDs(R), len(adds), obs.Err)
						break
					}
				}
				for p, n := range adds {
					if n > 1 {
						res.Fail("provide/once", "C06/"+sc.Op+"/recipient-twice", "%s received %d ADD_PROVIDER", shortID(p), n)
					}
					if sc.Op == "provide" && !inR[p] {
						res.Fail("provide/only-closest", "C06/provide/extra-recipient", "ADD_PROVIDER sent to %s which the lookup did not return (R=%v)", shortID(p), shortIDs(R))
					}
				}
			case "search":
				if len(obs.Values) == 0 || !terminated {
					break
				}
				best := obs.Values[len(obs.Values)-1]
				// peers that returned the best value (processed answers)
				withBest := map[peer.ID]bool{}
				for _, e := range obs.Log {
					if e.Kind == "request" && e.Type == pb.Message_GET_VALUE && e.Outcome == "ok" && e.Resp.GetRecord() != nil && bytes.Equal(e.Resp.GetRecord().GetValue(), best) && e.End <= obs.Returned {
						withBest[e.Peer] = true
					}
				}
				for _, p := range R {
					want := 1
					if withBest[p] {
						want = 0
					}
					if puts[p] != want {
						res.Fail("corrective/exact", "C06/search/corrective-puts", "closest peer %s (returned best=%v) received %d corrective PUT_VALUE, want %d", shortID(p), withBest[p], puts[p], want)
						break
					}
				}
				for p := range puts {
					if !inR[p] {
						res.Fail("corrective/only-closest", "C06/search/corrective-extra", "corrective PUT_VALUE sent to %s outside the closest set", shortID(p))
					}
				}
				for _, e := range obs.Log {
					if e.Kind == "request" && e.Type == pb.Message_PUT_VALUE && !bytes.Equal(e.Req.GetRecord().GetValue(), best) {
						res.Fail("corrective/content", "C06/search/corrective-content", "corrective put carries %q, best is %q", e.Req.GetRecord().GetValue(), best)
					}
				}
			}
			changed := len(applyAddrFilter(sc.AddrFilt, sc.Addrs)) != len(sc.Addrs)
			res.NonTrivial = (len(R) >= 2 && failingRecipient) || (changed && strings.HasPrefix(sc.Op, "provide"))
			res.Class("op-" + sc.Op)
			if failingRecipient {
				res.Class("failing-recipient")
			}
			if changed {
				res.Class("filter-changes-addrs")
			}
			return
		},
	})
}

func sortedSet(m map[string]bool) []string {
	out := make([]string, 0, len(m))
	for k := range m {
		out = append(out, k)
	}
	sort.Strings(out)
	return out
}
