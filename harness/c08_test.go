//go:build verif

package dht

// C08 — provider searches yield only reported providers, bounded by count.

import (
	"context"
	"testing"
	"time"

	"github.com/ipfs/go-cid"
	"github.com/libp2p/go-libp2p-kad-dht/internal/verifsim"
	pb "github.com/libp2p/go-libp2p-kad-dht/pb"
	"github.com/libp2p/go-libp2p/core/peer"
	mh "github.com/multiformats/go-multihash"
	"pgregory.net/rapid"
)

type fpSc struct {
	Lk         lkSc  `json:"lookup"`
	Count      int   `json:"count"`
	Local      []int `json:"local"`      // provider refs stored locally
	LocalAdr   bool  `json:"local_addr"` // local providers have addresses in the peerstore
	CancelMs   int   `json:"cancel_ms,omitempty"`
	SlowReadMs int   `json:"slow_read_ms,omitempty"` // the consumer pauses this long after every provider it reads
}

type provEmit struct {
	At    time.Duration
	ID    peer.ID
	Addrs int
}

func TestVerif_C08_FindProviders(t *testing.T) {
	verifsim.RunCheck(t, verifsim.Check[fpSc]{
		Property: "C08", Part: "find-providers",
		Rule: "rapid: C01-style networks of 1-25 peers with a drawn distribution of provider records over responders (overlapping, with/without addresses, unknown peers, some listing more than count) " +
			"and local storage, count in {0,1,2,3,K,50}, latencies, optional cancellation; oracle over the channel and the simulation log: yielded ids are local or named in an answer delivered before the channel " +
			"closed, at most count distinct, a repeat only to add addresses first lacking, count 0 yields every named provider, no GET_PROVIDERS request starts after the count-th distinct provider was emitted, " +
			"channel closed; non-trivial = more distinct providers available than count, spread over >=2 responders",
		Gen: func(t *rapid.T) fpSc {
			var sc fpSc
			s := &sc.Lk
			s.K = rapid.IntRange(1, 6).Draw(t, "k")
			s.Alpha = rapid.IntRange(1, 4).Draw(t, "alpha")
			s.Beta = rapid.IntRange(1, s.K).Draw(t, "beta")
			s.Key = rapid.IntRange(0, 99).Draw(t, "key")
			s.Self = rapid.IntRange(0, unknownBase-1).Draw(t, "self")
			n := rapid.IntRange(1, 25).Draw(t, "nPeers")
			s.Peers = genLkPeers(t, n, s.Self, s.keyKad(), rapid.IntRange(0, 3).Draw(t, "faulty") == 0)
			for i := range s.Peers {
				p := &s.Peers[i]
				for j := rapid.IntRange(0, 10).Draw(t, "nKnows"); j > 0; j-- {
					p.Knows = append(p.Knows, rapid.IntRange(0, n-1).Draw(t, "knows"))
				}
				if verifsim.Chance(t, "hasProv", 75) {
					for j := rapid.IntRange(1, 5).Draw(t, "nProv"); j > 0; j-- {
						p.Provs = append(p.Provs, rapid.IntRange(-5, n-1).Draw(t, "prov"))
					}
					p.PNoAdr = rapid.IntRange(0, 2).Draw(t, "pnoaddr") == 0
				}
			}
			ns := rapid.IntRange(1, min(n, s.K+2)).Draw(t, "nSeeds")
			s.Seeds = rapid.SliceOfNDistinct(rapid.IntRange(0, n-1), ns, ns, func(i int) int { return i }).Draw(t, "seeds")
			sc.Count = rapid.SampledFrom([]int{0, 1, 1, 2, 2, 3, s.K, 50}).Draw(t, "count")
			sc.Local = rapid.SliceOfN(rapid.IntRange(-4, n-1), 0, 3).Draw(t, "local")
			sc.LocalAdr = rapid.Bool().Draw(t, "localAddr")
			if rapid.IntRange(0, 5).Draw(t, "cancel") == 0 {
				sc.CancelMs = rapid.IntRange(1, 6000).Draw(t, "cancelMs")
			}
			if verifsim.Chance(t, "slowRead", 30) {
				sc.SlowReadMs = rapid.SampledFrom([]int{1, 40, 700, 3000}).Draw(t, "slowReadMs")
			}
			return sc
		},
		Run: func(t *testing.T, sc fpSc) (res verifsim.Result) {
			s := &sc.Lk
			pp := ppool()
			var emits []provEmit
			var closedAt time.Duration
			var logx []struct {
				Start, End time.Duration
				Peer       peer.ID
				Outcome    string
				Provs      []*pb.Message_Peer
			}
			var newErr error
			localIDs := map[peer.ID]bool{}
			out := verifsim.Bubble(t, func() {
				env, err := newSimEnv(s, stdHook(s))
				if err != nil {
					newErr = err
					return
				}
				defer env.close()
				key := s.keyString()
				ctx, cancel := context.WithCancel(context.Background())
				defer cancel()
				for _, x := range sc.Local {
					idx := s.ref(x)
					ai := peer.AddrInfo{ID: peer.ID(pp.IDs[idx])}
					if sc.LocalAdr {
						ai.Addrs = s.addrOf(idx)
					}
					env.d.providerStore.AddProvider(ctx, []byte(key), ai)
					localIDs[ai.ID] = true
				}
				time.Sleep(time.Second)
				if sc.CancelMs > 0 {
					go func() { time.Sleep(time.Duration(sc.CancelMs) * time.Millisecond); cancel() }()
				}
				for p := range env.d.FindProvidersAsync(ctx, cid.NewCidV1(cid.Raw, mh.Multihash(key)), sc.Count) {
					emits = append(emits, provEmit{env.sim.Now(), p.ID, len(p.Addrs)})
					time.Sleep(time.Duration(sc.SlowReadMs) * time.Millisecond)
				}
				closedAt = env.sim.Now()
				if sc.SlowReadMs > 0 {
					// a pausing consumer sees the channel close later than the search ended: the search ends with its last exchange
					var lastExchange time.Duration
					for _, e := range env.sim.Log() {
						if e.Kind == "request" && e.Type == pb.Message_GET_PROVIDERS && e.End > lastExchange {
							lastExchange = e.End
						}
					}
					if lastExchange > 0 && lastExchange < closedAt {
						closedAt = lastExchange
					}
				}
				cancel()
				time.Sleep(time.Minute)
				for _, e := range env.sim.Log() {
					if e.Kind == "request" && e.Type == pb.Message_GET_PROVIDERS {
						logx = append(logx, struct {
							Start, End time.Duration
							Peer       peer.ID
							Outcome    string
							Provs      []*pb.Message_Peer
						}{e.Start, e.End, e.Peer, e.Outcome, e.Resp.GetProviderPeers()})
					}
				}
			})
			if !out.OK() {
				res.Fail("channel-closed", "C08/find/hang-or-panic", "%s %s\n%s", out.Deadlock, out.Panic, out.Stacks)
				return
			}
			if newErr != nil {
				res.Fail("constructs", "C08/new/error", "%v", newErr)
				return
			}
			named := map[peer.ID]bool{}      // named in an answer delivered before the channel closed
			namedAddr := map[peer.ID]bool{}  // ... with at least one address
			responders := map[peer.ID]bool{} // responders that named at least one provider
			for _, e := range logx {
				if e.Outcome == "ok" && e.End <= closedAt {
					for _, mp := range e.Provs {
						named[peer.ID(mp.Id)] = true
						if len(mp.Addrs) > 0 {
							namedAddr[peer.ID(mp.Id)] = true
						}
						responders[e.Peer] = true
					}
				}
			}
			first := map[peer.ID]provEmit{}
			times := map[peer.ID]int{}
			var tCount time.Duration = -1
			for _, em := range emits {
				if !localIDs[em.ID] && !named[em.ID] {
					res.Fail("only-reported", "C08/yield/unreported", "yielded %s which is neither a local provider nor named in a delivered answer", shortID(em.ID))
				}
				times[em.ID]++
				if f, ok := first[em.ID]; ok {
					if times[em.ID] > 2 || f.Addrs != 0 || em.Addrs == 0 {
						res.Fail("repeat-only-for-addrs", "C08/yield/repeat", "%s yielded %d times (first with %d addrs, now %d)", shortID(em.ID), times[em.ID], f.Addrs, em.Addrs)
					}
				} else {
					first[em.ID] = em
					if sc.Count > 0 && len(first) == sc.Count {
						tCount = em.At
					}
				}
			}
			if sc.Count > 0 && len(first) > sc.Count {
				res.Fail("at-most-count", "C08/yield/over-count", "%d distinct providers yielded, count=%d", len(first), sc.Count)
			}
			if sc.Count == 0 && sc.CancelMs == 0 {
				for p := range named {
					if _, ok := first[p]; !ok {
						res.Fail("count0-all", "C08/yield/missing", "count 0: provider %s named in a delivered answer was not yielded", shortID(p))
						break
					}
				}
				for p := range localIDs {
					if _, ok := first[p]; !ok {
						res.Fail("count0-all", "C08/yield/missing-local", "count 0: local provider %s was not yielded", shortID(p))
						break
					}
				}
			}
			if tCount >= 0 {
				for _, e := range logx {
					if e.Start > tCount {
						res.Fail("stops-asking", "C08/search/asks-after-count", "GET_PROVIDERS to %s started at %v, after the count-th provider was emitted at %v", shortID(e.Peer), e.Start, tCount)
						break
					}
				}
			}
			avail := map[peer.ID]bool{}
			for p := range localIDs {
				avail[p] = true
			}
			for p := range named {
				avail[p] = true
			}
			res.NonTrivial = sc.Count > 0 && len(avail) > sc.Count && len(responders) >= 2
			if sc.Count == 0 {
				res.Class("count-0")
			}
			if tCount >= 0 {
				res.Class("count-reached")
			}
			if sc.CancelMs > 0 {
				res.Class("cancelled")
			}
			for _, n := range times {
				if n > 1 {
					res.Class("address-repeat")
					break
				}
			}
			return
		},
	})
}
