//go:build verif

package dht

// C09 — a server answers any request safely, within protocol bounds.

import (
	"bytes"
	"context"
	"crypto/sha256"
	"encoding/binary"
	"fmt"
	"sort"
	"strings"
	"sync"
	"testing"
	"time"

	"github.com/libp2p/go-libp2p-kad-dht/internal/verifnet"
	"github.com/libp2p/go-libp2p-kad-dht/internal/verifsim"
	pb "github.com/libp2p/go-libp2p-kad-dht/pb"
	recpb "github.com/libp2p/go-libp2p-record/pb"
	"github.com/libp2p/go-libp2p/core/network"
	"github.com/libp2p/go-libp2p/core/peer"
	ma "github.com/multiformats/go-multiaddr"
	"google.golang.org/protobuf/proto"
	"pgregory.net/rapid"
)

type srvReq struct {
	Sender  int    `json:"sender"` // index into the sender set
	Stream  int    `json:"stream"` // 0/1: which stream of that sender
	Kind    string `json:"kind"`   // msg | raw
	Type    int    `json:"type"`
	KeySel  int    `json:"key_sel"` // 0 empty, 1 one byte, 2 pool multihash, 3 80 bytes, 4 81 bytes, 5 4 KiB, 6 value key, 7 id of an RT peer, 8 sender id, 9 self id
	KeyN    int    `json:"key_n"`
	Rec     string `json:"rec,omitempty"` // "" none | ok | badkey | invalid | emptyval
	Rank    int    `json:"rank,omitempty"`
	Provs   []int  `json:"provs,omitempty"`  // provider records: 0 sender id, 1 other id, 2 empty id
	PAddr   string `json:"paddr,omitempty"`  // addresses of those records: "" none | ok | bad (undecodable) | huge | mixed (public+loopback)
	Closer  int    `json:"closer,omitempty"` // number of junk closer peers stuffed into the request
	Cluster int    `json:"cluster,omitempty"`
	Raw     []byte `json:"raw,omitempty"`    // Kind raw: bytes written verbatim
	Framed  bool   `json:"framed,omitempty"` // Kind raw: ... behind a correct length prefix
	Mutate  int    `json:"mutate,omitempty"` // msg: 0 none; 1 truncate frame; 2 oversize length prefix; 3 flip a byte
}

type srvSc struct {
	K         int      `json:"k"`
	Client    bool     `json:"client"` // client mode: nothing is served
	Self      int      `json:"self"`
	RT        []int    `json:"rt"`          // pool indices in the routing table
	NoAddr    []int    `json:"no_addr"`     // positions in RT without peerstore addresses
	HugeAddr  []int    `json:"huge_addr"`   // positions in RT with >8 KiB of addresses
	Senders   []int    `json:"senders"`     // pool indices (may coincide with RT members)
	Stored    []int    `json:"stored"`      // value keys k<n> with a stored record
	ProvKeys  []int    `json:"prov_keys"`   // pool multihash keys that have providers stored
	NProv     int      `json:"n_prov"`      // providers per such key
	BigProv   bool     `json:"big_prov"`    // providers carry ~8 KiB of addresses each (4 MiB budget reachable when NProv is large)
	Filter    string   `json:"addr_filter"` // "" | nolo
	Reqs      []srvReq `json:"reqs"`
	Silent    bool     `json:"silent,omitempty"`     // at the end the senders go silent instead of closing their streams
	SelfAddrs bool     `json:"self_addrs,omitempty"` // the peerstore holds the node's own addresses (a public and a loopback one), as a libp2p host keeps them
	tainted   bool     // set while running: a byte-flipped frame of unknown effect was sent; state-dependent provider clauses are off
}

var (
	vfHugeOnce  sync.Once
	vfHugeAddrs []ma.Multiaddr
)

func bigAddrList() []ma.Multiaddr {
	vfHugeOnce.Do(func() {
		for i := 0; i < 44; i++ {
			l := strings.Repeat(fmt.Sprintf("x%02d", i), 20)[:60]
			vfHugeAddrs = append(vfHugeAddrs, ma.StringCast(fmt.Sprintf("/dns4/%s.%s.%s.example.com/tcp/%d", l, l, l, 4000+i)))
		}
	})
	return vfHugeAddrs
}

func (sc *srvSc) key(r srvReq) []byte {
	pp, kp := ppool(), kpoolS()
	switch r.KeySel {
	case 0:
		return nil
	case 1:
		return []byte{byte(r.KeyN)}
	case 2:
		return []byte(kp.IDs[r.KeyN%64])
	case 3:
		return bytes.Repeat([]byte{byte(r.KeyN)}, 80)
	case 4:
		return bytes.Repeat([]byte{byte(r.KeyN)}, 81)
	case 5:
		return bytes.Repeat([]byte{byte(r.KeyN)}, 4096)
	case 6:
		return []byte(fmt.Sprintf("/v/k%d", r.KeyN%8))
	case 7:
		if len(sc.RT) > 0 {
			return []byte(pp.IDs[sc.RT[r.KeyN%len(sc.RT)]])
		}
		return []byte(pp.IDs[7000])
	case 8:
		return []byte(pp.IDs[sc.Senders[r.Sender%len(sc.Senders)]])
	default:
		return []byte(pp.IDs[sc.Self])
	}
}

func (sc *srvSc) build(r srvReq) *pb.Message {
	pp := ppool()
	m := &pb.Message{Type: pb.Message_MessageType(r.Type), Key: sc.key(r), ClusterLevelRaw: int32(r.Cluster)}
	key := string(m.Key)
	tag := strings.TrimPrefix(key, "/v/")
	switch r.Rec {
	case "ok":
		m.Record = &recpb.Record{Key: m.Key, Value: simValue(r.Rank, tag, "srv")}
	case "badkey":
		// a record that is valid for its own key, which differs from the message key
		m.Record = &recpb.Record{Key: []byte("/v/zzz"), Value: simValue(r.Rank, "zzz", "srv")}
	case "nokeyrec":
		// a record that would be valid for the message key but names no key of its own
		m.Record = &recpb.Record{Value: simValue(r.Rank, tag, "srv")}
	case "invalid":
		m.Record = &recpb.Record{Key: m.Key, Value: simValue(r.Rank, "othertag", "srv")}
	case "emptyval":
		m.Record = &recpb.Record{Key: m.Key}
	}
	sender := pp.IDs[sc.Senders[r.Sender%len(sc.Senders)]]
	for _, pk := range r.Provs {
		mp := &pb.Message_Peer{}
		switch pk {
		case 0:
			mp.Id = []byte(sender)
		case 1:
			mp.Id = []byte(pp.IDs[7100])
		}
		switch r.PAddr {
		case "ok":
			mp.Addrs = [][]byte{ma.StringCast("/ip4/8.8.8.8/tcp/4001").Bytes()}
		case "bad":
			mp.Addrs = [][]byte{{0xff, 0xff, 0x01}, {}}
		case "huge":
			for _, a := range bigAddrList() {
				mp.Addrs = append(mp.Addrs, a.Bytes())
			}
		case "mixed":
			mp.Addrs = [][]byte{ma.StringCast("/ip4/8.8.8.8/tcp/4001").Bytes(), ma.StringCast("/ip4/127.0.0.1/tcp/4001").Bytes(), {0xff, 0xee}}
		}
		m.ProviderPeers = append(m.ProviderPeers, mp)
	}
	for i := 0; i < r.Closer; i++ {
		mp := &pb.Message_Peer{Id: []byte(pp.IDs[7200+i%50])}
		for _, a := range bigAddrList() {
			mp.Addrs = append(mp.Addrs, a.Bytes())
		}
		m.CloserPeers = append(m.CloserPeers, mp)
	}
	return m
}

func frame(b []byte) []byte {
	var hdr [binary.MaxVarintLen64]byte
	n := binary.PutUvarint(hdr[:], uint64(len(b)))
	return append(hdr[:n:n], b...)
}

// wire returns the bytes sent for r, the message the handler will see (nil when the bytes are not exactly one well-formed
// frame), and whether the bytes oblige the server to end the stream: a complete frame whose payload is not a DHT message, a
// length prefix beyond the transport limit or a malformed varint is a request that cannot be answered, so "answers or resets"
// leaves only the reset. An incomplete frame is not a request yet (the server may keep waiting for the rest).
func (sc *srvSc) wire(r srvReq) (out []byte, req *pb.Message, mustEnd bool) {
	if r.Kind == "raw" {
		out = r.Raw
		if r.Framed {
			out = frame(r.Raw)
		}
	} else {
		m := sc.build(r)
		b, err := proto.Marshal(m)
		if err != nil {
			panic(err)
		}
		out = frame(b)
		switch r.Mutate {
		case 1:
			if len(out) > 2 {
				out = out[:len(out)/2]
			}
		case 2:
			var hdr [binary.MaxVarintLen64]byte
			n := binary.PutUvarint(hdr[:], uint64(network.MessageSizeMax+1))
			out = append(hdr[:n:n], b...)
		case 3:
			if len(out) > 3 {
				out[len(out)/2] ^= 0x5a
			}
		}
	}
	l, n := binary.Uvarint(out)
	switch {
	case n < 0:
		return out, nil, true // varint overflow
	case n == 0:
		return out, nil, false // length prefix incomplete
	case l > uint64(network.MessageSizeMax):
		return out, nil, true
	case uint64(len(out)-n) < l:
		return out, nil, false // frame incomplete
	}
	dec := new(pb.Message)
	if proto.Unmarshal(out[n:n+int(l)], dec) != nil {
		return out, nil, true
	}
	if len(out)-n > int(l) {
		// one well-formed message followed by more bytes: what the handler makes of the tail is not modelled
		sc.tainted = true
		return out, nil, false
	}
	// Exactly one well-formed frame - built that way, or a byte-flipped / random one that still parses (a changed byte inside a
	// key, an address, a peer id): that message is what the handler sees, it is judged like any other, and the model learns its
	// effects.
	return out, dec, false
}

// readFrames parses zero or more varint-framed messages.
func readFrames(b []byte) (msgs []*pb.Message, rest []byte, err error) {
	for len(b) > 0 {
		l, n := binary.Uvarint(b)
		if n <= 0 {
			return msgs, b, fmt.Errorf("bad length prefix")
		}
		if uint64(len(b)-n) < l {
			return msgs, b, fmt.Errorf("truncated frame (%d of %d bytes)", len(b)-n, l)
		}
		m := new(pb.Message)
		if err := proto.Unmarshal(b[n:n+int(l)], m); err != nil {
			return msgs, b, fmt.Errorf("unparseable response: %v", err)
		}
		if int(l) > network.MessageSizeMax {
			return msgs, b, fmt.Errorf("response frame of %d bytes exceeds the transport limit", l)
		}
		msgs = append(msgs, m)
		b = b[n+int(l):]
	}
	return msgs, nil, nil
}

type srvStream struct {
	cli  *verifnet.Stream
	dead bool
}

func runServer(t *testing.T, sc *srvSc) (res verifsim.Result) {
	pp := ppool()
	reached, bounds, unanswerable, idleStreams := 0, 0, 0, 0
	out := verifsim.Bubble(t, func() {
		self := peer.ID(pp.IDs[sc.Self])
		h := verifnet.NewHost(self, []ma.Multiaddr{ma.StringCast("/ip4/8.1.1.1/tcp/4001")})
		if sc.SelfAddrs {
			h.Peerstore().AddAddrs(self, []ma.Multiaddr{ma.StringCast("/ip4/8.1.1.1/tcp/4001"), ma.StringCast("/ip4/127.0.0.1/tcp/4001")}, time.Hour)
		}
		defer h.Close()
		mode := ModeServer
		if sc.Client {
			mode = ModeClient
		}
		opts := []Option{ProtocolPrefix("/sim"), BucketSize(sc.K), DisableAutoRefresh(), Mode(mode), disableFixLowPeersRoutine(nil), simValidatorOpt()}
		if sc.Filter != "" {
			opts = append(opts, addrFilterOpt(sc.Filter))
		}
		d, err := New(h, opts...)
		if err != nil {
			res.Fail("constructs", "C09/new/error", "%v", err)
			return
		}
		defer d.Close()
		ctx := context.Background()
		noAddr := map[int]bool{}
		for _, i := range sc.NoAddr {
			noAddr[i] = true
		}
		huge := map[int]bool{}
		for _, i := range sc.HugeAddr {
			huge[i] = true
		}
		hasAddr := map[peer.ID]bool{}
		for i, idx := range sc.RT {
			id := peer.ID(pp.IDs[idx])
			if id == self {
				continue
			}
			switch {
			case noAddr[i]:
			case huge[i]:
				h.Peerstore().AddAddrs(id, bigAddrList(), time.Hour)
				hasAddr[id] = true
			default:
				h.Peerstore().AddAddrs(id, []ma.Multiaddr{ma.StringCast(fmt.Sprintf("/ip4/8.2.%d.%d/tcp/4001", idx/250, idx%250+1))}, time.Hour)
				hasAddr[id] = true
			}
			d.RoutingTable().TryAddPeer(id, true, false)
		}
		for _, n := range sc.Stored {
			k := fmt.Sprintf("/v/k%d", n%8)
			d.putLocal(ctx, k, &recpb.Record{Key: []byte(k), Value: simValue(2, strings.TrimPrefix(k, "/v/"), "stored")})
		}
		provOf := map[string]map[peer.ID]bool{}
		for _, kn := range sc.ProvKeys {
			k := kpoolS().IDs[kn%64]
			provOf[k] = map[peer.ID]bool{}
			for j := 0; j < sc.NProv; j++ {
				id := peer.ID(pp.IDs[6000+j])
				// address sets known for the provider: public + loopback, loopback only (every address rejected by the "nolo"
				// filter: the provider is still a stored provider and has to be served, without addresses), none at all
				addrs := []ma.Multiaddr{ma.StringCast("/ip4/8.3.0.1/tcp/1"), ma.StringCast("/ip4/127.0.0.1/tcp/1")}
				switch j % 3 {
				case 1:
					addrs = []ma.Multiaddr{ma.StringCast("/ip4/127.0.0.1/tcp/1"), ma.StringCast(fmt.Sprintf("/ip4/127.0.1.%d/tcp/2", 1+j%200))}
				case 2:
					addrs = nil
				}
				if sc.BigProv {
					addrs = bigAddrList()
				}
				d.providerStore.AddProvider(ctx, []byte(k), peer.AddrInfo{ID: id, Addrs: addrs})
				provOf[k][id] = true
			}
		}
		rt := d.RoutingTable().ListPeers()
		streams := map[[2]int]*srvStream{}
		var wg sync.WaitGroup
		var allStreams []*verifnet.Stream
		defer func() {
			// also on early return: no handler may be left blocked when the bubble ends
			for _, c := range allStreams {
				c.Reset()
			}
			wg.Wait()
		}()
		openStream := func(sender peer.ID) *verifnet.Stream {
			conn := h.Net().AddConn(sender, ma.StringCast("/ip4/8.9.9.9/tcp/1"))
			cli, srv := verifnet.NewStreamPair(nil, conn, "/sim/kad/1.0.0")
			allStreams = append(allStreams, cli)
			wg.Add(1)
			go func() { defer wg.Done(); d.handleNewStream(srv) }()
			return cli
		}
		ping := func(step string) bool {
			other := peer.ID(pp.IDs[7300])
			cli := openStream(other)
			b, _ := proto.Marshal(&pb.Message{Type: pb.Message_PING})
			cli.Write(frame(b))
			verifsim.Quiesce()
			data, _, reset := cli.Peek()
			cli.CloseWrite()
			msgs, _, err := readFrames(data)
			if sc.Client {
				if len(data) != 0 {
					res.Fail("client-mode-silent", "C09/client/answered", "%s: client-mode node answered a PING with %d bytes", step, len(data))
					return false
				}
				return true
			}
			if reset || err != nil || len(msgs) != 1 || msgs[0].Type != pb.Message_PING {
				res.Fail("keeps-serving", "C09/serve/stopped-serving", "%s: afterwards a PING from another peer is not answered (reset=%v err=%v msgs=%d)", step, reset, err, len(msgs))
				return false
			}
			return true
		}
		for i, r := range sc.Reqs {
			step := fmt.Sprintf("request %d (type %d, key sel %d, kind %s, mutate %d)", i, r.Type, r.KeySel, r.Kind, r.Mutate)
			sIdx := r.Sender % len(sc.Senders)
			sender := peer.ID(pp.IDs[sc.Senders[sIdx]])
			sk := [2]int{sIdx, r.Stream % 2}
			st := streams[sk]
			if st == nil || st.dead {
				st = &srvStream{cli: openStream(sender)}
				streams[sk] = st
			}
			raw, req, mustEnd := sc.wire(r)
			beforeKey := string(sc.key(r))
			if req != nil {
				beforeKey = string(req.GetKey()) // (a byte-flipped frame that still parses may carry another key)
			}
			storeBefore, _ := d.valueStore.Get(ctx, beforeKey)
			if _, err := st.cli.Write(raw); err != nil {
				st.dead = true
				continue
			}
			verifsim.Quiesce()
			data, eof, reset := st.cli.Peek()
			st.cli.Drain()
			if reset || eof {
				st.dead = true
			}
			msgs, _, perr := readFrames(data)
			if perr != nil {
				res.Fail("well-formed-or-reset", "C09/response/malformed", "%s: %v", step, perr)
				return
			}
			if len(msgs) > 1 {
				res.Fail("well-formed-or-reset", "C09/response/multiple", "%s: %d responses to one request", step, len(msgs))
				return
			}
			if sc.Client {
				if len(data) != 0 {
					res.Fail("client-mode-silent", "C09/client/answered", "%s: client-mode node wrote %d response bytes", step, len(data))
					return
				}
				if !ping(step) {
					return
				}
				continue
			}
			var resp *pb.Message
			if len(msgs) == 1 {
				resp = msgs[0]
			}
			if mustEnd {
				unanswerable++
				if !st.dead {
					res.Fail("well-formed-or-reset", "C09/response/neither-answered-nor-reset", "%s: %d bytes that cannot be a request (undecodable complete frame, oversize or malformed length prefix) were neither answered nor was the stream ended", step, len(raw))
					return
				}
			}
			if req == nil && !st.dead {
				// not a clean frame: the stream is desynchronised from here on; stop using it
				st.cli.CloseWrite()
				st.dead = true
				verifsim.Quiesce()
			}
			if req != nil {
				reached++
				if !judgeServerResponse(&res, sc, d, step, sender, self, rt, hasAddr, provOf, req, resp, storeBefore, &bounds) {
					return
				}
			}
			if !ping(step) {
				return
			}
		}
		if sc.Silent {
			// the peers go silent instead of closing: the node must not keep serving goroutines and streams for them beyond its
			// idle timeout, whatever the last request on the stream was
			time.Sleep(dhtStreamIdleTimeout + time.Second)
			verifsim.Quiesce()
			for sk, st := range streams {
				if st.dead {
					continue
				}
				idleStreams++
				if _, eof, reset := st.cli.Peek(); !eof && !reset {
					res.Fail("idle-stream-ended", "C09/serve/idle-stream-kept", "stream %d of sender %d: the peer was silent for %v after its last request and the node still holds the stream open", sk[1], sk[0], dhtStreamIdleTimeout+time.Second)
				}
			}
		}
		for _, st := range streams {
			st.cli.CloseWrite()
		}
		verifsim.Quiesce()
		time.Sleep(2 * time.Minute) // idle timers
		wg.Wait()
	})
	if !out.OK() {
		res.Fail("no-panic", "C09/serve/hang-or-panic", "%s %s\n%s", out.Deadlock, out.Panic, out.Stacks)
	}
	res.NonTrivial = reached > 0 && bounds > 0
	if unanswerable > 0 {
		res.Class("unanswerable-bytes")
	}
	if idleStreams > 0 {
		res.Class("silent-peer-streams")
	}
	res.Weight = max(1, len(sc.Reqs))
	if sc.Client {
		res.Class("client-mode")
	}
	if bounds > 0 {
		res.Class("touches-a-bound")
	}
	return
}

func judgeServerResponse(res *verifsim.Result, sc *srvSc, d *IpfsDHT, step string, sender, self peer.ID, rt []peer.ID, hasAddr map[peer.ID]bool,
	provOf map[string]map[peer.ID]bool, req, resp *pb.Message, storeBefore *recpb.Record, bounds *int) bool {
	ctx := context.Background()
	key := req.GetKey()
	tk := sha256.Sum256(key)
	fail := func(clause, sig, f string, a ...any) bool {
		res.Fail(clause, sig, "%s: %s", step, fmt.Sprintf(f, a...))
		return false
	}
	// generic per-record bounds
	if resp != nil {
		for _, mp := range append(append([]*pb.Message_Peer{}, resp.CloserPeers...), resp.ProviderPeers...) {
			if n := proto.Size(mp); n > pb.MaxPeerRecordSize {
				return fail("record-8k", "C09/response/peer-record-too-big", "peer record of %d bytes (> 8 KiB)", n)
			}
		}
		if proto.Size(resp) > network.MessageSizeMax {
			return fail("message-limit", "C09/response/message-too-big", "response of %d bytes", proto.Size(resp))
		}
	}
	checkCloser := func(findNode bool) bool {
		cps := resp.GetCloserPeers()
		ids := make([]peer.ID, len(cps))
		for i, mp := range cps {
			ids[i] = peer.ID(mp.Id)
		}
		target := peer.ID(key)
		start := 0
		if findNode && len(ids) > 0 && ids[0] == target {
			start = 1
		}
		rest := ids[start:]
		if len(rest) > sc.K {
			return fail("at-most-k", "C09/closer/too-many", "%d closer peers (K=%d)", len(rest), sc.K)
		}
		if len(rt) >= sc.K {
			*bounds++
		}
		inRT := map[peer.ID]bool{}
		for _, p := range rt {
			inRT[p] = true
		}
		seen := map[peer.ID]bool{}
		for i, p := range rest {
			if p == sender || p == self {
				// the target exemption only covers the first slot of FIND_NODE
				return fail("no-requester-or-self", "C09/closer/requester-or-self", "closer peers list the %s", map[bool]string{true: "requester", false: "node itself"}[p == sender])
			}
			if !inRT[p] {
				return fail("from-routing-table", "C09/closer/unknown-peer", "closer peer %s is not in the routing table", shortID(p))
			}
			if seen[p] {
				return fail("distinct", "C09/closer/duplicate", "closer peer %s listed twice", shortID(p))
			}
			seen[p] = true
			if i > 0 && !verifsim.XorLess(tk, sha256.Sum256([]byte(rest[i-1])), sha256.Sum256([]byte(p))) {
				return fail("nearest-first", "C09/closer/order", "closer peers not in ascending distance")
			}
			if findNode && len(cps[start+i].Addrs) == 0 {
				return fail("find-node-addresses", "C09/closer/no-address", "FIND_NODE lists %s without addresses", shortID(p))
			}
		}
		// no nearer eligible routing-table peer omitted
		if len(rest) > 0 {
			far := sha256.Sum256([]byte(rest[len(rest)-1]))
			cands := append([]peer.ID{}, rt...)
			sort.Slice(cands, func(i, j int) bool { return distLess(tk, cands[i], cands[j]) })
			// the handler looks at the K nearest table peers other than the requester
			var window []peer.ID
			for _, p := range cands {
				if p != sender && len(window) < sc.K {
					window = append(window, p)
				}
			}
			for _, p := range window {
				if seen[p] || (findNode && !hasAddr[p]) || (findNode && p == target) {
					continue
				}
				if verifsim.XorLess(tk, sha256.Sum256([]byte(p)), far) {
					return fail("nearest", "C09/closer/omission", "routing-table peer %s is nearer than the farthest listed peer but was omitted", shortID(p))
				}
			}
		}
		known := d.peerstore.Addrs(target)
		if target == self {
			// its own entry is an advertisement of the node's addresses: the configured address filter applies
			known = d.filterAddrs(known)
			if start == 1 {
				for _, ab := range cps[0].Addrs {
					if a, err := ma.NewMultiaddrBytes(ab); err == nil && sc.Filter == "nolo" && strings.HasPrefix(a.String(), "/ip4/127.") {
						return fail("own-addresses-filtered", "C09/closer/self-unfiltered-address", "FIND_NODE for the node itself lists its own address %s, which the address filter rejects", a)
					}
				}
			}
		}
		if findNode && start == 0 && len(known) > 0 && target != "" {
			// requested peer with known addresses must come first
			return fail("target-first", "C09/closer/target-missing", "FIND_NODE for a peer with known addresses does not list it first")
		}
		return true
	}
	typ := req.GetType()
	switch typ {
	case pb.Message_PING:
		if resp == nil || resp.Type != pb.Message_PING {
			return fail("ping-echo", "C09/ping/no-echo", "no PING echo")
		}
		if len(resp.CloserPeers) != 0 || len(resp.ProviderPeers) != 0 {
			return fail("echo-no-peer-records", "C09/echo/peer-records", "PING echo carries %d+%d peer records", len(resp.CloserPeers), len(resp.ProviderPeers))
		}
		if len(req.CloserPeers) > 0 {
			*bounds++
		}
	case pb.Message_PUT_VALUE:
		rec := req.GetRecord()
		valid := len(key) > 0 && rec != nil && bytes.Equal(rec.GetKey(), key) && (simValidator{}).Validate(string(key), rec.GetValue()) == nil &&
			strings.HasPrefix(string(key), "/v/")
		better := valid && (storeBefore == nil || !simBetter(storeBefore.GetValue(), rec.GetValue()))
		after, _ := d.valueStore.Get(ctx, string(key))
		if resp != nil {
			if !valid {
				return fail("put-validates", "C09/put/accepted-bad", "PUT_VALUE with key/record mismatch or invalid record was acknowledged")
			}
			if len(resp.CloserPeers) != 0 || len(resp.ProviderPeers) != 0 {
				return fail("echo-no-peer-records", "C09/echo/peer-records", "PUT_VALUE echo carries peer records")
			}
			if !bytes.Equal(resp.GetRecord().GetValue(), rec.GetValue()) {
				return fail("put-echo", "C09/put/echo", "PUT_VALUE echo carries another value")
			}
			if after == nil || !bytes.Equal(after.GetValue(), rec.GetValue()) {
				return fail("put-stores", "C09/put/not-stored", "acknowledged PUT_VALUE is not stored")
			}
		} else {
			if better {
				return fail("put-accepts", "C09/put/refused-good", "valid, not-worse PUT_VALUE was refused")
			}
			if (after == nil) != (storeBefore == nil) || (after != nil && !bytes.Equal(after.GetValue(), storeBefore.GetValue())) {
				return fail("put-refused-unchanged", "C09/put/refused-but-stored", "refused PUT_VALUE changed the store")
			}
		}
		if len(req.CloserPeers) > 0 || (rec != nil && !bytes.Equal(rec.GetKey(), key)) {
			*bounds++
		}
	case pb.Message_GET_VALUE:
		if len(key) == 0 {
			if resp != nil {
				return fail("empty-key", "C09/get/empty-key-answered", "GET_VALUE without key answered")
			}
			return true
		}
		if resp == nil {
			return fail("answers", "C09/get/no-answer", "valid GET_VALUE not answered")
		}
		if resp.Record != nil && !bytes.Equal(resp.Record.GetKey(), key) {
			return fail("record-keyed", "C09/get/wrong-record", "GET_VALUE answer carries a record for another key")
		}
		if (resp.Record != nil) != (storeBefore != nil) {
			return fail("record-served", "C09/get/record-presence", "record served=%v stored=%v", resp.Record != nil, storeBefore != nil)
		}
		return checkCloser(false)
	case pb.Message_FIND_NODE:
		if len(key) == 0 {
			if resp != nil {
				return fail("empty-key", "C09/findnode/empty-key-answered", "FIND_NODE without key answered")
			}
			return true
		}
		if resp == nil {
			return fail("answers", "C09/findnode/no-answer", "valid FIND_NODE not answered")
		}
		return checkCloser(true)
	case pb.Message_GET_PROVIDERS:
		if len(key) == 0 || len(key) > 80 {
			if len(key) > 80 {
				*bounds++
			}
			if resp != nil {
				return fail("key-length", "C09/getproviders/bad-key-answered", "GET_PROVIDERS with key of %d bytes answered", len(key))
			}
			return true
		}
		if resp == nil {
			return fail("answers", "C09/getproviders/no-answer", "valid GET_PROVIDERS not answered")
		}
		known := provOf[string(key)]
		seen := map[peer.ID]bool{}
		for _, mp := range resp.ProviderPeers {
			id := peer.ID(mp.Id)
			if !known[id] && !addedBySender(d, key, id) && !sc.tainted {
				return fail("providers-stored", "C09/getproviders/unknown-provider", "provider %s was never stored for the key", shortID(id))
			}
			if seen[id] {
				return fail("providers-distinct", "C09/getproviders/duplicate", "provider listed twice")
			}
			seen[id] = true
			if sc.Filter == "nolo" {
				for _, a := range mp.Addresses() {
					if strings.HasPrefix(a.String(), "/ip4/127.") {
						return fail("providers-filtered", "C09/getproviders/unfiltered-address", "provider record carries loopback address despite the filter")
					}
				}
			}
		}
		if sc.BigProv && sc.NProv > 400 && known != nil {
			*bounds++
			if len(resp.ProviderPeers) == 0 {
				return fail("budget-serves-some", "C09/getproviders/budget-empty", "no provider served although single records fit the budget")
			}
		} else if known != nil && len(resp.ProviderPeers) < len(known) {
			return fail("providers-complete", "C09/getproviders/missing", "%d of %d stored providers served although they fit", len(resp.ProviderPeers), len(known))
		}
		return checkCloser(false)
	case pb.Message_ADD_PROVIDER:
		if resp != nil {
			return fail("add-provider-silent", "C09/addprovider/answered", "ADD_PROVIDER produced a response")
		}
		okKey := len(key) >= 1 && len(key) <= 80
		if len(key) == 80 || len(key) == 81 {
			*bounds++
		}
		if len(key) == 0 {
			return true // an empty key cannot be looked up in the store (it would list every key's providers)
		}
		provs, _ := d.providerStore.GetProviders(ctx, key)
		stored := map[peer.ID]bool{}
		for _, p := range provs {
			stored[p.ID] = true
		}
		wantSender := false
		for _, mp := range req.ProviderPeers {
			id := peer.ID(mp.Id)
			nDec := len((&pb.Message_Peer{Id: mp.Id, Addrs: mp.Addrs}).Addresses())
			if id != sender {
				*bounds++
				if stored[id] && !provOf[string(key)][id] && !sc.tainted {
					return fail("sender-only", "C09/addprovider/foreign-provider-stored", "provider %s stored although the authenticated sender is %s", shortID(id), shortID(sender))
				}
				continue
			}
			if okKey && nDec >= 1 {
				wantSender = true
			}
		}
		if wantSender && !stored[sender] {
			return fail("add-provider-stores", "C09/addprovider/not-stored", "valid ADD_PROVIDER from %s not stored", shortID(sender))
		}
		if !wantSender && stored[sender] && !addedBySender(d, key, sender) && !provOf[string(key)][sender] && !sc.tainted {
			return fail("add-provider-requires", "C09/addprovider/stored-invalid", "ADD_PROVIDER without address / with bad key stored the sender as provider (key %d bytes)", len(key))
		}
		if wantSender {
			markAdded(d, key, sender)
			if sc.Filter == "nolo" {
				for _, a := range d.peerstore.Addrs(sender) {
					if strings.HasPrefix(a.String(), "/ip4/127.") {
						return fail("add-provider-filters", "C09/addprovider/unfiltered-address", "loopback address of the provider kept despite the filter")
					}
				}
			}
		}
	default:
		if resp != nil {
			return fail("unknown-type", "C09/unknown-type/answered", "request of unknown type %d answered", typ)
		}
	}
	return true
}

// bookkeeping of providers legitimately added through ADD_PROVIDER during a case
var (
	addedMu sync.Mutex
	added   = map[*IpfsDHT]map[string]bool{}
)

func markAdded(d *IpfsDHT, key []byte, p peer.ID) {
	addedMu.Lock()
	defer addedMu.Unlock()
	if added[d] == nil {
		if len(added) > 64 {
			added = map[*IpfsDHT]map[string]bool{}
		}
		added[d] = map[string]bool{}
	}
	added[d][string(key)+"|"+string(p)] = true
}

func addedBySender(d *IpfsDHT, key []byte, p peer.ID) bool {
	addedMu.Lock()
	defer addedMu.Unlock()
	return added[d][string(key)+"|"+string(p)]
}

func genSrvReq(t *rapid.T) srvReq {
	r := srvReq{Sender: rapid.IntRange(0, 2).Draw(t, "sender"), Stream: rapid.IntRange(0, 1).Draw(t, "stream"), Kind: "msg"}
	if rapid.IntRange(0, 9).Draw(t, "raw") == 0 {
		r.Kind = "raw"
		r.Raw = rapid.SliceOfN(rapid.Byte(), 0, 40).Draw(t, "rawBytes")
		r.Framed = rapid.Bool().Draw(t, "framed") // random payload behind a correct length prefix
		return r
	}
	r.Type = rapid.SampledFrom([]int{0, 1, 2, 3, 4, 5, 5, 4, 4, 3, 6, 17, -1}).Draw(t, "type")
	r.KeySel = rapid.IntRange(0, 9).Draw(t, "keySel")
	r.KeyN = rapid.IntRange(0, 255).Draw(t, "keyN")
	r.Cluster = rapid.SampledFrom([]int{0, 0, 1, -1, 1 << 30, -(1 << 30)}).Draw(t, "cluster")
	switch pb.Message_MessageType(r.Type) {
	case pb.Message_PUT_VALUE:
		r.KeySel = rapid.SampledFrom([]int{6, 6, 6, 0, 2}).Draw(t, "putKeySel")
		r.Rec = rapid.SampledFrom([]string{"ok", "ok", "ok", "badkey", "invalid", "emptyval", "", "nokeyrec"}).Draw(t, "rec")
		r.Rank = rapid.IntRange(0, 4).Draw(t, "rank")
	case pb.Message_GET_VALUE:
		r.KeySel = rapid.SampledFrom([]int{6, 6, 0, 2, 7}).Draw(t, "getKeySel")
	case pb.Message_ADD_PROVIDER, pb.Message_GET_PROVIDERS:
		r.KeySel = rapid.SampledFrom([]int{2, 2, 2, 3, 4, 0, 1, 5}).Draw(t, "provKeySel")
		r.KeyN = rapid.IntRange(0, 5).Draw(t, "provKeyN")
		if pb.Message_MessageType(r.Type) == pb.Message_ADD_PROVIDER {
			r.Provs = rapid.SliceOfN(rapid.IntRange(0, 2), 0, 3).Draw(t, "provs")
			r.PAddr = rapid.SampledFrom([]string{"ok", "ok", "", "bad", "huge", "mixed"}).Draw(t, "paddr")
		}
	case pb.Message_FIND_NODE:
		r.KeySel = rapid.SampledFrom([]int{7, 7, 8, 9, 2, 0, 1}).Draw(t, "fnKeySel")
	}
	if rapid.IntRange(0, 5).Draw(t, "stuff") == 0 {
		r.Closer = rapid.IntRange(1, 3).Draw(t, "closer")
	}
	if rapid.IntRange(0, 11).Draw(t, "mutate") == 0 {
		r.Mutate = rapid.IntRange(1, 3).Draw(t, "mutation")
	}
	return r
}

func TestVerif_C09_Server(t *testing.T) { verifsim.RunCheck(t, c09ServerCheck()) }

// the same generator and oracle driven by Go's coverage-guided fuzzer (thorough tier)
func FuzzVerif_C09_Server(f *testing.F) {
	verifsim.RunFuzz(f, c09ServerCheck(), "TestVerif_C09_Server")
}

func c09ServerCheck() verifsim.Check[srvSc] {
	return verifsim.Check[srvSc]{
		Property: "C09", Part: "server",
		Rule: "rapid: a server-mode (or client-mode) node with drawn state (0-25 routing-table peers, some without / with >8 KiB of peerstore addresses, stored values, 0-3 provider keys with 1-30 providers, " +
			"occasionally 600 providers x ~8 KiB so that the 4 MiB budget bites) receives 1-6 requests over fake inbound streams from 3 senders x 2 streams: structured messages of every type incl. unknown enums x key " +
			"lengths {0,1,34,80,81,4096, value key, a table peer, the sender, the node} x records {absent, ok, key mismatch, invalid, empty} x provider records {sender/other/empty id} x addresses {none, ok, undecodable, " +
			">8 KiB, mixed} x stuffed peer lists x cluster-level extremes, all through marshal->bytes, plus truncated frames, oversize length prefixes, flipped bytes and raw garbage with and without a correct length prefix (bytes that cannot be a request must end the stream); oracle = validity predicate on the bytes " +
			"read back, provider/value store effects, a PING from another peer answered after every request, and (one scenario in three) streams whose peer goes silent ended after the idle timeout; non-trivial = a request reached a handler and touched a bound",
		Gen: func(t *rapid.T) srvSc {
			sc := srvSc{K: rapid.IntRange(1, 8).Draw(t, "k"), Client: rapid.IntRange(0, 7).Draw(t, "client") == 0, Self: rapid.IntRange(0, 5000).Draw(t, "self")}
			sc.RT = rapid.SliceOfNDistinct(rapid.IntRange(0, 5000), 0, 25, func(i int) int { return i }).Draw(t, "rt")
			sc.NoAddr = rapid.SliceOfN(rapid.IntRange(0, 24), 0, 4).Draw(t, "noAddr")
			sc.HugeAddr = rapid.SliceOfN(rapid.IntRange(0, 24), 0, 3).Draw(t, "hugeAddr")
			sc.Senders = []int{5100, 5101, 5102}
			if len(sc.RT) > 0 && sc.RT[0] != sc.Self && rapid.Bool().Draw(t, "senderInRT") { // (a sender is never the node itself)
				sc.Senders[0] = sc.RT[0]
			}
			sc.Stored = rapid.SliceOfN(rapid.IntRange(0, 7), 0, 4).Draw(t, "stored")
			sc.ProvKeys = rapid.SliceOfN(rapid.IntRange(0, 5), 0, 3).Draw(t, "provKeys")
			sc.NProv = rapid.IntRange(1, 30).Draw(t, "nProv")
			if rapid.IntRange(0, 39).Draw(t, "big") == 0 && len(sc.ProvKeys) > 0 {
				sc.ProvKeys = sc.ProvKeys[:1]
				sc.NProv = 600
				sc.BigProv = true
			}
			sc.Filter = rapid.SampledFrom([]string{"", "nolo"}).Draw(t, "filter")
			sc.Reqs = rapid.SliceOfN(rapid.Custom(genSrvReq), 1, 6).Draw(t, "reqs")
			sc.Silent = rapid.IntRange(0, 2).Draw(t, "silent") == 0
			sc.SelfAddrs = rapid.Bool().Draw(t, "selfAddrs")
			return sc
		},
		Run: func(t *testing.T, sc srvSc) verifsim.Result { return runServer(t, &sc) },
	}
}
