//go:build verif

package dht

// C12 — routing-table members have proven themselves; failed peers leave.

import (
	"context"
	"fmt"
	"strings"
	"testing"
	"time"

	"github.com/libp2p/go-libp2p-kad-dht/internal/verifnet"
	"github.com/libp2p/go-libp2p-kad-dht/internal/verifsim"
	pb "github.com/libp2p/go-libp2p-kad-dht/pb"
	"github.com/libp2p/go-libp2p/core/event"
	"github.com/libp2p/go-libp2p/core/host"
	"github.com/libp2p/go-libp2p/core/peer"
	"github.com/libp2p/go-libp2p/core/protocol"
	ma "github.com/multiformats/go-multiaddr"
	"pgregory.net/rapid"
)

type rtEvent struct {
	Ev     string `json:"ev"` // identify protoupd lookup cancelled-lookup refresh advance health close-refresh fixlow (one pass of the low-peers repair over the connected peers)
	Peer   int    `json:"peer,omitempty"`
	Proto  bool   `json:"proto,omitempty"` // identify/protoupd: the peer advertises the DHT protocol
	Conn   bool   `json:"conn,omitempty"`
	Key    int    `json:"key,omitempty"`
	Force  bool   `json:"force,omitempty"`
	Dial   string `json:"dial,omitempty"` // health: "" ok | fail
	Req    string `json:"req,omitempty"`  // health: "" ok | fail | silent
	Ms     int    `json:"ms,omitempty"`
	Min    int    `json:"min,omitempty"`
	GoneMs int    `json:"gone_ms,omitempty"` // identify with Proto: this long afterwards (while the admission probe may be in flight) the peer stops advertising the protocol
}

type rtSc struct {
	K        int       `json:"k"`
	Alpha    int       `json:"alpha"`
	Beta     int       `json:"beta"`
	Self     int       `json:"self"`
	Peers    []lkPeer  `json:"peers"`
	Rejected []int     `json:"rejected"` // indices the routing-table filter rejects
	CheckCap int       `json:"check_cap"`
	Boot     []int     `json:"boot,omitempty"` // indices of peers configured as bootstrap peers (dialled by the low-peers repair when the table is empty)
	Events   []rtEvent `json:"events"`
	// PreConn: peers already connected when the DHT is constructed (New looks at them), each with or without the DHT protocol
	// in the peerstore: (peer index, advertises)
	PreConn [][2]int `json:"pre_conn,omitempty"`
}

type interaction struct {
	seq  int
	what string // ok | fail | gone | followup-fail
}

func runRT(t *testing.T, sc *rtSc) (res verifsim.Result) {
	pp := ppool()
	admissionThenEviction, cancelledWithFailures, goneDuringProbe, livenessTimeouts := 0, 0, 0, 0
	out := verifsim.Bubble(t, func() {
		s := &lkSc{K: sc.K, Alpha: sc.Alpha, Beta: sc.Beta, Self: sc.Self, Peers: sc.Peers}
		self := s.selfID()
		h := verifnet.NewHost(self, []ma.Multiaddr{ma.StringCast("/ip4/10.200.0.1/tcp/4001")})
		defer h.Close()
		sim := verifnet.NewSim()
		idx := map[peer.ID]int{}
		for i, p := range sc.Peers {
			idx[peer.ID(pp.IDs[p.ID])] = i
		}
		health := make([]lkPeer, len(sc.Peers))
		copy(health, sc.Peers)
		goneAt := map[peer.ID]int{}                  // log length when a "protocol gone" event was delivered
		livenessDeadline := map[time.Duration]bool{} // instants at which a refresh's liveness pass (started with a refresh event) times out
		sim.Dial = func(p peer.ID, n int) (time.Duration, string) {
			i, ok := idx[p]
			if !ok {
				return time.Millisecond, "fail"
			}
			o := health[i].Dial
			if o == "" {
				o = "ok"
			}
			return time.Duration(health[i].DialMs) * time.Millisecond, o
		}
		sim.OnConnected = func(p peer.ID) { h.Net().SetConnected(p, true) }
		sim.Respond = func(p peer.ID, n int, req *pb.Message) verifnet.Reply {
			i, ok := idx[p]
			if !ok {
				return verifnet.Reply{Fail: true, Latency: time.Millisecond}
			}
			lat := time.Duration(health[i].LatMs) * time.Millisecond
			switch health[i].Req {
			case "fail":
				return verifnet.Reply{Fail: true, Latency: lat}
			case "silent":
				return verifnet.Reply{Silent: true}
			}
			return verifnet.Reply{Latency: lat, Resp: &pb.Message{Type: req.Type, Key: req.Key, CloserPeers: s.closerList(&sc.Peers[i], req.Key)}}
		}
		h.ConnectFn = sim.Connect
		rejected := map[peer.ID]bool{}
		for _, r := range sc.Rejected {
			rejected[peer.ID(pp.IDs[sc.Peers[r%len(sc.Peers)].ID])] = true
		}
		advertises := map[peer.ID]bool{} // what the peerstore currently says about the peer's DHT protocol support
		for _, pc := range sc.PreConn {
			p := peer.ID(pp.IDs[sc.Peers[pc[0]%len(sc.Peers)].ID])
			if pc[1] != 0 {
				h.Peerstore().SetProtocols(p, "/sim/kad/1.0.0")
			} else {
				h.Peerstore().SetProtocols(p, "/other/1.0.0")
			}
			advertises[p] = pc[1] != 0
			h.Net().SetConnected(p, true)
		}
		d, err := New(h,
			WithCustomMessageSender(func(host.Host, []protocol.ID) pb.MessageSenderWithDisconnect { return sim }),
			ProtocolPrefix("/sim"), BucketSize(sc.K), Concurrency(sc.Alpha), Resiliency(sc.Beta), DisableAutoRefresh(), Mode(ModeClient),
			disableFixLowPeersRoutine(nil), LookupCheckConcurrency(sc.CheckCap),
			// the default refresh-query / probe timeout (10 s) equals the transport's read timeout: a silent peer asked at the start
			// of a refresh lookup would fail at the very instant the lookup is cancelled by its own deadline, and which of the two the
			// DHT sees first is a coin toss. Half a millisecond apart (latencies are whole milliseconds) the order is a fact.
			RoutingTableRefreshQueryTimeout(10*time.Second+500*time.Microsecond),
			RoutingTableFilter(func(_ any, p peer.ID) bool { return !rejected[p] }),
			BootstrapPeersFunc(func() []peer.AddrInfo {
				var out []peer.AddrInfo
				for _, b := range sc.Boot {
					i := b % len(sc.Peers)
					out = append(out, peer.AddrInfo{ID: peer.ID(pp.IDs[sc.Peers[i].ID]), Addrs: s.addrOf(sc.Peers[i].ID)})
				}
				return out
			}))
		if err != nil {
			res.Fail("constructs", "C12/new/error", "%v", err)
			return
		}
		closed := false
		defer func() {
			if !closed {
				d.Close()
			}
		}()
		emID, _ := h.EventBus().Emitter(new(event.EvtPeerIdentificationCompleted))
		emPU, _ := h.EventBus().Emitter(new(event.EvtPeerProtocolsUpdated))
		defer emID.Close()
		defer emPU.Close()
		everMember := map[peer.ID]bool{}
		prevMembers := map[peer.ID]bool{}
		prevLogLen := 0
		cancelledWindows := [][2]time.Duration{}
		fixlowWindows := [][2]time.Duration{} // the low-peers repair runs synchronously: its bootstrap connection attempts start inside these
		bootPeer := map[peer.ID]bool{}
		for _, b := range sc.Boot {
			bootPeer[peer.ID(pp.IDs[sc.Peers[b%len(sc.Peers)].ID])] = true
		}
		settle := func() { time.Sleep(3 * time.Minute); verifsim.Quiesce() }
		check := func(step string) bool {
			members := d.RoutingTable().ListPeers()
			log := sim.Log()
			isMember := map[peer.ID]bool{}
			for _, m := range members {
				isMember[m] = true
				if m == self {
					res.Fail("no-self", "C12/member/self", "%s: the local node is a routing-table member", step)
					return false
				}
				ok := false
				for _, e := range log {
					if e.Peer == m && e.Kind == "request" && e.Outcome == "ok" {
						ok = true
					}
				}
				if !ok {
					res.Fail("proven", "C12/member/unproven", "%s: member %s never answered a request from this node", step, shortID(m))
					return false
				}
				// a peer admitted since the last quiescent point was admitted by an answer it gave since then: to a lookup query, or
				// to the admission probe (FIND_NODE for its own id) - the probe only counts for a peer that advertises the DHT
				// protocol and passes the routing-table filter
				if !prevMembers[m] {
					qualifies, viaProbeOnly := false, false
					for i := prevLogLen; i < len(log); i++ {
						e := log[i]
						if e.Peer != m || e.Kind != "request" || e.Outcome != "ok" {
							continue
						}
						isProbe := e.Type == pb.Message_FIND_NODE && e.Req != nil && string(e.Req.GetKey()) == string(m)
						if !isProbe || (advertises[m] && !rejected[m]) {
							qualifies = true
						} else {
							viaProbeOnly = true
						}
					}
					if !qualifies && !viaProbeOnly {
						// every admission follows an answer: nothing is queued for later (the routing table keeps no candidates)
						res.Fail("proven", "C12/admit/without-answer", "%s: %s was admitted although it has not answered any request of this node since the previous quiescent point", step, shortID(m))
						return false
					}
					if !qualifies && viaProbeOnly {
						res.Fail("probe-needs-protocol-and-filter", "C12/admit/probe-without-protocol-or-filter", "%s: %s was admitted on the strength of the admission probe alone although it does not advertise the DHT protocol (advertises=%v) or is rejected by the routing-table filter (rejected=%v)", step, shortID(m), advertises[m], rejected[m])
						return false
					}
				}
			}
			defer func() {
				prevMembers = isMember
				prevLogLen = len(log)
			}()
			// latest interaction per peer
			inCancelled := func(e verifnet.Exchange) bool {
				for _, w := range cancelledWindows {
					if e.Start >= w[0] && e.End <= w[1]+time.Second {
						return true
					}
				}
				return false
			}
			bootDial := func(e verifnet.Exchange) bool {
				if !bootPeer[e.Peer] {
					return false
				}
				for _, w := range fixlowWindows {
					if e.Start >= w[0] && e.Start <= w[1] {
						return true
					}
				}
				return false
			}
			last := map[peer.ID]interaction{}
			for i, e := range log {
				switch {
				case e.Kind == "request" && e.Outcome == "ok":
					last[e.Peer] = interaction{i, "ok"}
				case (e.Outcome == "fail" || e.Outcome == "timeout") && e.Kind == "dial" && bootDial(e):
					// a connection attempt of the low-peers repair to a configured bootstrap peer (it tries them in a random
					// order): neither a lookup nor a liveness probe, its failure says nothing about membership
				case (e.Outcome == "fail" || e.Outcome == "timeout") && !inCancelled(e):
					last[e.Peer] = interaction{i, "fail"}
				case e.Outcome == "cancelled" && livenessDeadline[e.End] && e.End-e.Start == 10*time.Second:
					// a dial or ping that began with a refresh's liveness pass and was cut by that pass's own 10 s deadline: the
					// member failed its liveness probe by timing out (nothing else ends exactly then: the refresh lookups start after
					// the pass, and no caller cancelled anything)
					last[e.Peer] = interaction{i, "fail"}
					livenessTimeouts++
				}
			}
			for p, at := range goneAt {
				if l, ok := last[p]; !ok || l.seq < at {
					last[p] = interaction{at, "gone"}
				}
			}
			for p, l := range last {
				if (l.what == "fail" || l.what == "gone") && isMember[p] {
					// a request failure in the follow-up phase of a lookup is reported separately
					sig := "C12/evict/failed-peer-still-member"
					e := log[min(l.seq, len(log)-1)]
					if l.what == "fail" && e.Kind == "request" && isFollowUp(log, l.seq) {
						sig = "C12/evict/followup-failure-not-evicted"
					}
					if l.what == "gone" {
						sig = "C12/evict/protocol-gone-still-member"
					}
					res.Fail("failed-peers-leave", sig, "%s: %s is a member although its latest interaction is a %s (%s %s at %v)", step, shortID(p), l.what, e.Kind, e.Outcome, e.End)
					return false
				}
				if isMember[p] {
					everMember[p] = true
				} else if everMember[p] && (l.what == "fail" || l.what == "gone") {
					admissionThenEviction++
					delete(everMember, p)
				}
			}
			return true
		}
		awaitOne := func(step string, ch <-chan error) bool {
			n := 0
			deadline := time.After(30 * time.Minute)
			for {
				select {
				case _, ok := <-ch:
					if !ok {
						if n != 1 {
							res.Fail("refresh-answered", "C12/refresh/answers", "%s: refresh channel delivered %d values before closing", step, n)
							return false
						}
						return true
					}
					n++
				case <-deadline:
					res.Fail("refresh-answered", "C12/refresh/unanswered", "%s: refresh request not answered within 30 min of virtual time (values so far %d)", step, n)
					return false
				}
			}
		}
		// admissions made by the constructor itself (peers already connected) are judged before any event changes what they advertise
		settle()
		if !check("construction") {
			return
		}
		for i, ev := range sc.Events {
			step := fmt.Sprintf("event %d %s", i, ev.Ev)
			var p peer.ID
			if len(sc.Peers) > 0 {
				p = peer.ID(pp.IDs[sc.Peers[ev.Peer%len(sc.Peers)].ID])
			}
			switch ev.Ev {
			case "identify", "protoupd":
				if ev.Proto {
					h.Peerstore().SetProtocols(p, "/sim/kad/1.0.0")
					delete(goneAt, p)
				} else {
					h.Peerstore().SetProtocols(p, "/other/1.0.0")
					goneAt[p] = len(sim.Log())
				}
				advertises[p] = ev.Proto
				if ev.Conn {
					h.Net().SetConnected(p, true)
				}
				if ev.Ev == "identify" {
					emID.Emit(event.EvtPeerIdentificationCompleted{Peer: p})
				} else {
					emPU.Emit(event.EvtPeerProtocolsUpdated{Peer: p})
				}
				if ev.Proto && ev.GoneMs > 0 {
					// the peer turns into a client (identify push) while it is being probed
					// (half a millisecond off the whole milliseconds of the latencies: the push never coincides with the probe's answer)
					time.Sleep(time.Duration(ev.GoneMs)*time.Millisecond - 500*time.Microsecond)
					h.Peerstore().SetProtocols(p, "/other/1.0.0")
					goneAt[p] = len(sim.Log())
					advertises[p] = false
					emPU.Emit(event.EvtPeerProtocolsUpdated{Peer: p})
					goneDuringProbe++
				}
			case "lookup":
				d.GetClosestPeers(context.Background(), kpoolS().IDs[ev.Key%simPool])
			case "cancelled-lookup":
				ctx, cancel := context.WithCancel(context.Background())
				start := sim.Now()
				go func() { time.Sleep(time.Duration(ev.Ms) * time.Millisecond); cancel() }()
				d.GetClosestPeers(ctx, kpoolS().IDs[ev.Key%simPool])
				cancel()
				time.Sleep(time.Second)
				cancelledWindows = append(cancelledWindows, [2]time.Duration{start, sim.Now()})
				for _, e := range sim.Log() {
					if e.Start >= start && (e.Outcome == "fail" || e.Outcome == "cancelled") {
						cancelledWithFailures++
						break
					}
				}
			case "refresh":
				livenessDeadline[sim.Now()+10*time.Second] = true
				var ch <-chan error
				if ev.Force {
					ch = d.ForceRefresh()
				} else {
					ch = d.RefreshRoutingTable()
				}
				if !awaitOne(step, ch) {
					return
				}
			case "fixlow":
				t0 := sim.Now()
				d.fixLowPeers()
				fixlowWindows = append(fixlowWindows, [2]time.Duration{t0, sim.Now()})
			case "advance":
				time.Sleep(time.Duration(ev.Min) * time.Minute)
			case "health":
				h := &health[ev.Peer%len(health)]
				h.Dial, h.Req = ev.Dial, ev.Req
			case "close-refresh":
				ch1 := d.RefreshRoutingTable()
				go func() { time.Sleep(time.Duration(ev.Ms) * time.Millisecond); d.Close() }()
				ch2 := d.ForceRefresh()
				closed = true
				if !awaitOne(step+" (first)", ch1) || !awaitOne(step+" (second)", ch2) {
					return
				}
				time.Sleep(time.Minute)
				ch3 := d.RefreshRoutingTable()
				if !awaitOne(step+" (after close)", ch3) {
					return
				}
				return
			}
			settle()
			if !check(step) {
				return
			}
		}
	})
	if !out.OK() {
		res.Fail("terminates", "C12/history/hang-or-panic", "%s %s\n%s", out.Deadlock, out.Panic, out.Stacks)
	}
	res.NonTrivial = admissionThenEviction > 0 || cancelledWithFailures > 0
	if admissionThenEviction > 0 {
		res.Class("admission-then-eviction")
	}
	if livenessTimeouts > 0 {
		res.Class("liveness-probe-timed-out")
	}
	if goneDuringProbe > 0 {
		res.Class("protocol-dropped-during-probe")
	}
	if cancelledWithFailures > 0 {
		res.Class("cancelled-lookup-with-failures")
	}
	return
}

// isFollowUp reports whether the request at log index i is a repeated request
// of the same kind to a peer that had already been asked during the same
// lookup burst, or a request issued after the burst's last first-time request
// had been answered (heuristic classification used only to pick a signature).
func isFollowUp(log []verifnet.Exchange, i int) bool {
	e := log[i]
	// a follow-up request is not preceded by a dial entry of the same start instant and has no matching dial at all when the peer was not connected
	for j := i - 1; j >= 0 && j >= i-8; j-- {
		if log[j].Peer == e.Peer && log[j].Kind == "dial" && log[j].End == e.Start {
			return false
		}
	}
	return true
}

func c12Check() verifsim.Check[rtSc] {
	return verifsim.Check[rtSc]{
		Property: "C12", Part: "routing-table",
		Rule: "rapid: histories of 1-14 events over 2-14 simulated peers: identify-completed / protocols-updated (protocol advertised or not, connected or not), lookups (peers healthy, failing dial, failing or silent on requests; " +
			"health changes between events), lookups cancelled mid-flight, passes of the low-peers repair over the connected peers, peers already connected (with or without the protocol) when the DHT is constructed, RefreshRoutingTable / ForceRefresh, clock advances past the liveness grace period, Close racing refresh requests; routing-table filter rejecting a drawn subset, lookup-check " +
			"concurrency 1-3; at every quiescent point: the local node is no member, every member has a successful answer in the simulation log, a peer whose latest interaction is an uncancelled dial/request failure, a failed probe or a protocol-gone " +
			"event is no member, a peer admitted since the previous quiescent point gave an answer since then - to a lookup query, or to the admission probe while advertising the protocol and passing the filter -, every refresh channel delivers exactly one value and closes; non-trivial = a peer admitted and later evicted, or a cancelled lookup with failures",
		Gen: func(t *rapid.T) rtSc {
			sc := rtSc{K: rapid.IntRange(1, 5).Draw(t, "k"), Alpha: rapid.IntRange(1, 3).Draw(t, "alpha"), Self: rapid.IntRange(0, unknownBase-1).Draw(t, "self"), CheckCap: rapid.IntRange(1, 3).Draw(t, "checkCap")}
			sc.Beta = rapid.IntRange(1, sc.K).Draw(t, "beta")
			n := rapid.IntRange(2, 14).Draw(t, "nPeers")
			sc.Peers = genLkPeers(t, n, sc.Self, [32]byte{}, false)
			for i := range sc.Peers {
				for j := rapid.IntRange(0, 6).Draw(t, "nKnows"); j > 0; j-- {
					sc.Peers[i].Knows = append(sc.Peers[i].Knows, rapid.IntRange(0, n-1).Draw(t, "knows"))
				}
				sc.Peers[i].DialMs = rapid.IntRange(0, 200).Draw(t, "dialMs")
			}
			sc.Rejected = rapid.SliceOfN(rapid.IntRange(0, n-1), 0, 2).Draw(t, "rejected")
			if rapid.Bool().Draw(t, "hasBoot") {
				sc.Boot = rapid.SliceOfNDistinct(rapid.IntRange(0, n-1), 1, min(3, n), func(i int) int { return i }).Draw(t, "boot")
			}
			sc.PreConn = rapid.SliceOfN(rapid.Custom(func(t *rapid.T) [2]int {
				return [2]int{rapid.IntRange(0, n-1).Draw(t, "prePeer"), rapid.IntRange(0, 1).Draw(t, "preProto")}
			}), 0, 3).Draw(t, "preConn")
			sc.Events = rapid.SliceOfN(rapid.Custom(func(t *rapid.T) rtEvent {
				p := rapid.IntRange(0, n-1).Draw(t, "peer")
				switch rapid.IntRange(0, 13).Draw(t, "kind") {
				case 0, 1, 2, 3:
					ev := rtEvent{Ev: "identify", Peer: p, Proto: rapid.IntRange(0, 4).Draw(t, "proto") != 0, Conn: rapid.Bool().Draw(t, "conn")}
					if ev.Proto && verifsim.Chance(t, "goneDuringProbe", 20) {
						ev.GoneMs = rapid.SampledFrom([]int{1, 10, 100, 1000, 5000}).Draw(t, "goneMs")
					}
					return ev
				case 4:
					return rtEvent{Ev: "protoupd", Peer: p, Proto: rapid.Bool().Draw(t, "proto")}
				case 5, 6, 7:
					return rtEvent{Ev: "lookup", Key: rapid.IntRange(0, 200).Draw(t, "key")}
				case 8:
					return rtEvent{Ev: "cancelled-lookup", Key: rapid.IntRange(0, 200).Draw(t, "key"), Ms: rapid.IntRange(1, 4000).Draw(t, "ms")}
				case 9:
					return rtEvent{Ev: "refresh", Force: rapid.Bool().Draw(t, "force")}
				case 10:
					if rapid.Bool().Draw(t, "fixlow") {
						return rtEvent{Ev: "fixlow"}
					}
					return rtEvent{Ev: "advance", Min: rapid.SampledFrom([]int{5, 30, 90}).Draw(t, "min")}
				case 11, 12:
					return rtEvent{Ev: "health", Peer: p, Dial: rapid.SampledFrom([]string{"", "", "fail", "hang"}).Draw(t, "dial"), Req: rapid.SampledFrom([]string{"", "fail", "silent"}).Draw(t, "req")}
				default:
					return rtEvent{Ev: "close-refresh", Ms: rapid.IntRange(0, 3000).Draw(t, "ms")}
				}
			}), 1, 14).Draw(t, "events")
			if len(sc.Boot) > 0 && verifsim.Chance(t, "bootMacro", 50) {
				// a configured bootstrap peer that is dialable and advertises the protocol but does not answer, met by the low-peers
				// repair while the table is (probably) empty
				b := sc.Boot[0]
				pre := []rtEvent{{Ev: "health", Peer: b, Req: rapid.SampledFrom([]string{"fail", "silent"}).Draw(t, "bootReq")}, {Ev: "identify", Peer: b, Proto: true, Conn: rapid.Bool().Draw(t, "bootConn")}, {Ev: "fixlow"}}
				if rapid.Bool().Draw(t, "bootFirst") {
					sc.Events = append(pre, sc.Events...)
				} else {
					sc.Events = append(sc.Events, pre...)
				}
			}
			if verifsim.Chance(t, "livenessMacro", 30) {
				// some peers start to time out (dial hangs / request stays silent), time passes until members are due for their
				// liveness check, and a refresh runs it
				for j := rapid.IntRange(1, 3).Draw(t, "nSick"); j > 0; j-- {
					ev := rtEvent{Ev: "health", Peer: rapid.IntRange(0, n-1).Draw(t, "sick")}
					if rapid.Bool().Draw(t, "sickDial") {
						ev.Dial = "hang"
					} else {
						ev.Req = "silent"
					}
					sc.Events = append(sc.Events, ev)
				}
				sc.Events = append(sc.Events, rtEvent{Ev: "advance", Min: 90}, rtEvent{Ev: "refresh", Force: rapid.Bool().Draw(t, "macroForce")})
			}
			return sc
		},
		Run: func(t *testing.T, sc rtSc) verifsim.Result { return runRT(t, &sc) },
	}
}

func TestVerif_C12_RoutingTable(t *testing.T) { verifsim.RunCheck(t, c12Check()) }

// the same generator and oracle driven by Go's coverage-guided fuzzer (thorough tier)
func FuzzVerif_C12_RoutingTable(f *testing.F) {
	verifsim.RunFuzz(f, c12Check(), "TestVerif_C12_RoutingTable")
}

var _ = strings.Contains
