//go:build verif

package dht

// C13 — client-mode nodes never serve; auto mode follows reachability.

import (
	"fmt"
	"testing"
	"time"

	"github.com/libp2p/go-libp2p-kad-dht/internal/verifnet"
	"github.com/libp2p/go-libp2p-kad-dht/internal/verifsim"
	pb "github.com/libp2p/go-libp2p-kad-dht/pb"
	"github.com/libp2p/go-libp2p/core/event"
	"github.com/libp2p/go-libp2p/core/network"
	"github.com/libp2p/go-libp2p/core/peer"
	"github.com/libp2p/go-libp2p/core/protocol"
	ma "github.com/multiformats/go-multiaddr"
	"google.golang.org/protobuf/proto"
	"pgregory.net/rapid"
)

type modeEv struct {
	Ev    string `json:"ev"`              // reach | req-new | req-old | open
	Reach int    `json:"reach,omitempty"` // 0 unknown 1 public 2 private
	Old   int    `json:"old,omitempty"`   // which held stream
	Reg   bool   `json:"reg,omitempty"`   // open: the stream's connection is listed by the network
	Ahead int    `json:"ahead,omitempty"` // open: streams the connection lists before the inbound one: bit 0 a request stream of the node's own (outbound, DHT protocol), bit 1 an inbound stream of another protocol
	Burst []int  `json:"burst,omitempty"` // reach: further reachability values emitted GapMs apart right after the first (the last one counts)
	GapMs int    `json:"gap_ms,omitempty"`
	Cur   []bool `json:"cur,omitempty"` // addrs: the host's current addresses after the update (true: a public one, false: a private one)
	Rem   []bool `json:"rem,omitempty"` // addrs: the addresses that went away
}

type modeSc struct {
	Mode   int      `json:"mode"` // 0 auto 1 client 2 server 3 auto-server
	Events []modeEv `json:"events"`
}

func expectServer(mode int, last int, any bool) bool {
	switch ModeOpt(mode) {
	case ModeClient:
		return false
	case ModeServer:
		return true
	}
	if !any {
		return ModeOpt(mode) == ModeAutoServer
	}
	switch network.Reachability(last) {
	case network.ReachabilityPublic:
		return true
	case network.ReachabilityPrivate:
		return false
	default:
		return ModeOpt(mode) == ModeAutoServer
	}
}

type heldStream struct {
	cli        *verifnet.Stream
	registered bool
	graceUsed  bool
	done       chan struct{}
}

func c13Check() verifsim.Check[modeSc] {
	const proto1 = protocol.ID("/sim/kad/1.0.0")
	return verifsim.Check[modeSc]{
		Property: "C13", Part: "modes",
		Rule: "rapid: mode option in {auto, client, server, auto-server} x 1-14 events: local-reachability changes {unknown, public, private} on the real event bus (singly or in bursts of 2-4 events 0-400 ms apart), address-set updates (public / private addresses kept and removed), opening inbound streams (connection listed by the network or not), " +
			"requests on new streams and on streams opened earlier; at every quiescent point the behaviour must equal f(option, last reachability event): in client mode no handler is registered, every listed inbound stream has been reset, a request on any " +
			"held stream gets no response bytes; in server mode requests on new and old streams are answered; non-trivial = at least one mode switch with a held stream",
		Gen: func(t *rapid.T) modeSc {
			// (the two automatic modes are the ones that switch: drawn more often than the fixed ones)
			sc := modeSc{Mode: rapid.SampledFrom([]int{int(ModeAuto), int(ModeAuto), int(ModeAutoServer), int(ModeAutoServer), int(ModeClient), int(ModeServer)}).Draw(t, "mode")}
			sc.Events = rapid.SliceOfN(rapid.Custom(func(t *rapid.T) modeEv {
				switch rapid.IntRange(0, 7).Draw(t, "kind") {
				case 0, 1, 2:
					ev := modeEv{Ev: "reach", Reach: rapid.SampledFrom([]int{0, 1, 2, 1, 2}).Draw(t, "reach")}
					if verifsim.Chance(t, "burst", 30) {
						// AutoNAT reporting back to back while it is still probing
						ev.Burst = rapid.SliceOfN(rapid.IntRange(0, 2), 1, 3).Draw(t, "burst")
						ev.GapMs = rapid.SampledFrom([]int{0, 1, 20, 140, 400}).Draw(t, "gapMs")
					}
					return ev
				case 6:
					return modeEv{Ev: "addrs", Cur: rapid.SliceOfN(rapid.Bool(), 0, 3).Draw(t, "cur"), Rem: rapid.SliceOfN(rapid.Bool(), 0, 2).Draw(t, "rem")}
				case 3:
					return modeEv{Ev: "open", Reg: rapid.Bool().Draw(t, "reg"), Ahead: rapid.SampledFrom([]int{0, 1, 2, 3, 1}).Draw(t, "ahead")}
				case 4:
					return modeEv{Ev: "req-new"}
				default:
					return modeEv{Ev: "req-old", Old: rapid.IntRange(0, 5).Draw(t, "old")}
				}
			}), 1, 14).Draw(t, "events")
			return sc
		},
		Run: func(t *testing.T, sc modeSc) (res verifsim.Result) {
			pp := ppool()
			switches, bursts, addrEvents, mixedConns := 0, 0, 0, 0
			out := verifsim.Bubble(t, func() {
				h := verifnet.NewHost(peer.ID(pp.IDs[1]), []ma.Multiaddr{ma.StringCast("/ip4/8.1.1.1/tcp/1")})
				defer h.Close()
				d, err := New(h, ProtocolPrefix("/sim"), BucketSize(4), DisableAutoRefresh(), Mode(ModeOpt(sc.Mode)), disableFixLowPeersRoutine(nil), simValidatorOpt())
				if err != nil {
					res.Fail("constructs", "C13/new/error", "%v", err)
					return
				}
				defer d.Close()
				em, err := h.EventBus().Emitter(new(event.EvtLocalReachabilityChanged))
				if err != nil {
					panic(err)
				}
				defer em.Close()
				emAddr, err := h.EventBus().Emitter(new(event.EvtLocalAddressesUpdated))
				if err != nil {
					panic(err)
				}
				defer emAddr.Close()
				var held []*heldStream
				defer func() {
					for _, hs := range held {
						hs.cli.Reset()
						<-hs.done
					}
				}()
				sender := peer.ID(pp.IDs[9])
				open := func(registered bool, ahead int) *heldStream {
					hd := h.Handler(proto1)
					if hd == nil {
						return nil
					}
					var conn *verifnet.Conn
					if registered {
						conn = h.Net().AddConn(sender, ma.StringCast("/ip4/8.9.9.9/tcp/1"))
					} else {
						conn = (&verifnet.Network{}).NewDetachedConn(h.ID(), sender)
					}
					if ahead&1 != 0 {
						verifnet.NewStreamPair(conn, nil, proto1) // the node's own request stream to that peer
						mixedConns++
					}
					if ahead&2 != 0 {
						verifnet.NewStreamPair(nil, conn, "/other/1.0.0")
					}
					cli, srv := verifnet.NewStreamPair(nil, conn, proto1)
					hs := &heldStream{cli: cli, registered: registered, done: make(chan struct{})}
					go func() { defer close(hs.done); hd(srv) }()
					return hs
				}
				ping := func(hs *heldStream) (answered bool, dead bool) {
					b, _ := proto.Marshal(&pb.Message{Type: pb.Message_PING})
					if _, err := hs.cli.Write(frame(b)); err != nil {
						return false, true
					}
					verifsim.Quiesce()
					data, eof, reset := hs.cli.Peek()
					hs.cli.Drain()
					msgs, _, _ := readFrames(data)
					return len(msgs) == 1 && msgs[0].Type == pb.Message_PING, eof || reset
				}
				last, any := 0, false
				prevServer := expectServer(sc.Mode, 0, false)
				for i, ev := range sc.Events {
					step := fmt.Sprintf("event %d %s", i, ev.Ev)
					switch ev.Ev {
					case "reach":
						em.Emit(event.EvtLocalReachabilityChanged{Reachability: network.Reachability(ev.Reach)})
						last, any = ev.Reach, true
						for _, r := range ev.Burst {
							time.Sleep(time.Duration(ev.GapMs) * time.Millisecond)
							em.Emit(event.EvtLocalReachabilityChanged{Reachability: network.Reachability(r)})
							last = r
							bursts++
						}
					case "addrs":
						// the host's address set changes: no business of the mode
						mk := func(xs []bool, base int, act event.AddrAction) (out []event.UpdatedAddress) {
							for j, pub := range xs {
								a := ma.StringCast(fmt.Sprintf("/ip4/192.168.%d.%d/tcp/4001", base, j+1))
								if pub {
									a = ma.StringCast(fmt.Sprintf("/ip4/8.%d.1.%d/tcp/4001", base, j+1))
								}
								out = append(out, event.UpdatedAddress{Address: a, Action: act})
							}
							return
						}
						emAddr.Emit(event.EvtLocalAddressesUpdated{Diffs: true, Current: mk(ev.Cur, 1, event.Maintained), Removed: mk(ev.Rem, 2, event.Removed)})
						addrEvents++
					case "open":
						if hs := open(ev.Reg, ev.Ahead); hs != nil {
							held = append(held, hs)
						}
					}
					time.Sleep(time.Second)
					verifsim.Quiesce()
					wantServer := expectServer(sc.Mode, last, any)
					if wantServer != prevServer && len(held) > 0 {
						switches++
					}
					prevServer = wantServer
					hasHandler := h.Handler(proto1) != nil
					if hasHandler != wantServer {
						res.Fail("mode-follows-reachability", "C13/mode/wrong-mode", "%s: option %d, last reachability %d (any=%v): handler registered=%v, expected server=%v", step, sc.Mode, last, any, hasHandler, wantServer)
						return
					}
					if !wantServer {
						for j, hs := range held {
							if hs.registered && !hs.cli.WasReset() {
								res.Fail("demotion-resets-streams", "C13/client/open-stream-not-reset", "%s: inbound stream %d opened earlier is still open in client mode", step, j)
								return
							}
						}
					}
					switch ev.Ev {
					case "req-new":
						hs := open(true, 0)
						if wantServer {
							if hs == nil {
								res.Fail("server-serves", "C13/server/no-handler", "%s: server mode but no handler", step)
								return
							}
							held = append(held, hs)
							if ok, _ := ping(hs); !ok {
								res.Fail("server-serves", "C13/server/new-stream-unanswered", "%s: request on a new stream not answered in server mode", step)
								return
							}
						} else if hs != nil {
							held = append(held, hs)
							res.Fail("client-silent", "C13/client/handler-registered", "%s: a new inbound stream could be opened in client mode", step)
							return
						}
					case "req-old":
						if len(held) == 0 {
							break
						}
						hs := held[ev.Old%len(held)]
						wasDead := hs.cli.WasReset()
						ok, _ := ping(hs)
						if !wantServer && ok {
							// A stream the network does not list cannot be reset at demotion; the handler re-checks the mode
							// before waiting for each message, so exactly the one message it was already waiting for may still be served.
							if hs.registered || hs.graceUsed {
								res.Fail("client-silent", "C13/client/old-stream-answered", "%s: request on a held stream answered in client mode (listed by the network: %v)", step, hs.registered)
								return
							}
							hs.graceUsed = true
						}
						if wantServer {
							hs.graceUsed = false
						}
						if wantServer && !wasDead && !ok {
							res.Fail("server-serves", "C13/server/old-stream-unanswered", "%s: request on a live held stream not answered in server mode", step)
							return
						}
					}
				}
			})
			if !out.OK() {
				res.Fail("terminates", "C13/modes/hang-or-panic", "%s %s\n%s", out.Deadlock, out.Panic, out.Stacks)
			}
			res.NonTrivial = switches > 0
			if bursts > 0 {
				res.Class("reachability-burst")
			}
			if addrEvents > 0 {
				res.Class("address-update")
			}
			if mixedConns > 0 && switches > 0 {
				res.Class("demotion-with-own-request-stream-listed-first")
			}
			res.Class(fmt.Sprintf("mode-%d", sc.Mode))
			return
		},
	}
}

func TestVerif_C13_Modes(t *testing.T) { verifsim.RunCheck(t, c13Check()) }

// the same generator and oracle driven by Go's coverage-guided fuzzer (thorough tier)
func FuzzVerif_C13_Modes(f *testing.F) { verifsim.RunFuzz(f, c13Check(), "TestVerif_C13_Modes") }
