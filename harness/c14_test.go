//go:build verif

package dht

// C14 — Close stops everything; failed constructors leave nothing running.
// (IpfsDHT part; the other components have their parts in their packages.)

import (
	"context"
	"errors"
	"fmt"
	"strings"
	"sync"
	"testing"
	"time"

	"github.com/ipfs/go-cid"
	dhtcfg "github.com/libp2p/go-libp2p-kad-dht/internal/config"
	"github.com/libp2p/go-libp2p-kad-dht/internal/verifnet"
	"github.com/libp2p/go-libp2p-kad-dht/internal/verifsim"
	pb "github.com/libp2p/go-libp2p-kad-dht/pb"
	"github.com/libp2p/go-libp2p-kad-dht/records"
	"github.com/libp2p/go-libp2p/core/host"
	"github.com/libp2p/go-libp2p/core/peer"
	"github.com/libp2p/go-libp2p/core/protocol"
	ma "github.com/multiformats/go-multiaddr"
	mh "github.com/multiformats/go-multihash"
	"google.golang.org/protobuf/proto"
	"pgregory.net/rapid"
)

type closeSc struct {
	Lk        lkSc     `json:"lookup"`
	Mode      int      `json:"mode"`
	NoProv    bool     `json:"no_providers"`
	NoVal     bool     `json:"no_values"`
	AutoRef   bool     `json:"auto_refresh"`
	OptProv   bool     `json:"optimistic_provide"`
	Ops       []string `json:"ops"` // operations started before Close: gcp getvalue findprov provide putvalue refresh inbound
	CloseMs   int      `json:"close_ms"`
	NClose    int      `json:"n_close"`
	ConcClose bool     `json:"concurrent_close"`
}

func censusIDs() map[string]verifsim.GoroutineState {
	out := map[string]verifsim.GoroutineState{}
	for _, g := range verifsim.Census(true) {
		out[g.ID] = g
	}
	return out
}

func describe(gs []verifsim.GoroutineState) string {
	var parts []string
	for i, g := range gs {
		if i >= 3 {
			break
		}
		lines := strings.Split(g.Stack, "\n")
		if len(lines) > 8 {
			lines = lines[:8]
		}
		parts = append(parts, strings.Join(lines, "\n"))
	}
	return strings.Join(parts, "\n\n")
}

func TestVerif_C14_IpfsDHT(t *testing.T) {
	verifsim.RunCheck(t, verifsim.Check[closeSc]{
		Property: "C14", Part: "ipfsdht",
		Rule: "rapid: IpfsDHT with a drawn option matrix (mode, providers/values disabled, auto-refresh, optimistic provide) over a simulated network with slow/failing peers; 0-4 operations (lookups, value/provider searches, " +
			"puts, provides, refresh requests, an inbound request stream) are started, Close lands at a drawn virtual instant and is called 1-3 times sequentially or concurrently; oracle: goroutine census by id - none of the goroutines alive after " +
			"construction is alive when Close has returned, every Close call returns, every in-flight operation returns without panic, and after 10 min of wind-down no goroutine of the bubble is left; non-trivial = Close landed while an operation was in flight",
		Gen: func(t *rapid.T) closeSc {
			var sc closeSc
			s := &sc.Lk
			s.K = rapid.IntRange(1, 5).Draw(t, "k")
			s.Alpha = rapid.IntRange(1, 3).Draw(t, "alpha")
			s.Beta = rapid.IntRange(1, s.K).Draw(t, "beta")
			s.Key = rapid.IntRange(0, 50).Draw(t, "key")
			s.Self = rapid.IntRange(0, unknownBase-1).Draw(t, "self")
			n := rapid.IntRange(1, 15).Draw(t, "nPeers")
			genFaultyPeers(t, s, n)
			ns := rapid.IntRange(1, min(n, s.K+1)).Draw(t, "nSeeds")
			s.Seeds = rapid.SliceOfNDistinct(rapid.IntRange(0, n-1), ns, ns, func(i int) int { return i }).Draw(t, "seeds")
			sc.Mode = rapid.IntRange(0, 3).Draw(t, "mode")
			sc.NoProv = rapid.IntRange(0, 4).Draw(t, "noProv") == 0
			sc.NoVal = rapid.IntRange(0, 4).Draw(t, "noVal") == 0
			sc.AutoRef = rapid.IntRange(0, 2).Draw(t, "autoRef") == 0
			sc.OptProv = rapid.IntRange(0, 3).Draw(t, "optProv") == 0
			sc.Ops = rapid.SliceOfN(rapid.SampledFrom([]string{"gcp", "getvalue", "findprov", "provide", "putvalue", "refresh", "inbound"}), 0, 4).Draw(t, "ops")
			sc.CloseMs = rapid.SampledFrom([]int{0, 1, 50, 500, 2500, 9000, 15000, 70000}).Draw(t, "closeMs")
			sc.NClose = rapid.IntRange(1, 3).Draw(t, "nClose")
			sc.ConcClose = rapid.Bool().Draw(t, "concClose")
			return sc
		},
		Run: func(t *testing.T, sc closeSc) (res verifsim.Result) {
			s := &sc.Lk
			inFlightAtClose := 0
			out := verifsim.Bubble(t, func() {
				before := censusIDs()
				extra := []Option{simValidatorOpt(), Mode(ModeOpt(sc.Mode))}
				if sc.NoProv {
					extra = append(extra, DisableProviders())
				}
				if sc.NoVal {
					extra = append(extra, DisableValues())
				}
				if sc.OptProv {
					extra = append(extra, EnableOptimisticProvide())
				}
				if sc.AutoRef {
					extra = append(extra, func(c *dhtcfg.Config) error { c.RoutingTable.AutoRefresh = true; return nil })
				}
				env, err := newSimEnv(s, stdHook(s), extra...)
				if err != nil {
					res.Fail("constructs", "C14/ipfsdht/new-error", "%v", err)
					return
				}
				defer env.h.Close()
				env.h.Subs.SlowClose = time.Millisecond
				verifsim.Quiesce()
				g0 := map[string]verifsim.GoroutineState{}
				for id, g := range censusIDs() {
					if _, ok := before[id]; !ok && !strings.Contains(g.Stack, "pstoremem") && !strings.Contains(g.Stack, "eventbus") {
						g0[id] = g
					}
				}
				ctx := context.Background()
				var wg sync.WaitGroup
				var mu sync.Mutex
				running := 0
				panics := []string{}
				start := func(name string, f func()) {
					wg.Add(1)
					mu.Lock()
					running++
					mu.Unlock()
					go func() {
						defer wg.Done()
						defer func() {
							if r := recover(); r != nil {
								mu.Lock()
								panics = append(panics, fmt.Sprintf("%s: %v", name, r))
								mu.Unlock()
							}
							mu.Lock()
							running--
							mu.Unlock()
						}()
						f()
					}()
				}
				key := s.keyString()
				c := cid.NewCidV1(cid.Raw, mh.Multihash(kpoolS().IDs[s.Key]))
				var inbound *verifnet.Stream
				for _, op := range sc.Ops {
					switch op {
					case "gcp":
						start(op, func() { env.d.GetClosestPeers(ctx, key) })
					case "getvalue":
						start(op, func() { env.d.GetValue(ctx, "/v/k1") })
					case "findprov":
						start(op, func() {
							for range env.d.FindProvidersAsync(ctx, c, 0) {
							}
						})
					case "provide":
						start(op, func() { env.d.Provide(ctx, c, true) })
					case "putvalue":
						start(op, func() { env.d.PutValue(ctx, "/v/k1", simValue(2, "k1", "c14")) })
					case "refresh":
						start(op, func() {
							for range env.d.RefreshRoutingTable() {
							}
						})
					case "inbound":
						if hd := env.h.Handler("/sim/kad/1.0.0"); hd != nil && inbound == nil {
							conn := env.h.Net().AddConn(peer.ID(ppool().IDs[7777]), ma.StringCast("/ip4/8.9.9.9/tcp/1"))
							cli, srv := verifnet.NewStreamPair(nil, conn, "/sim/kad/1.0.0")
							inbound = cli
							start(op, func() { hd(srv) })
							b, _ := proto.Marshal(&pb.Message{Type: pb.Message_FIND_NODE, Key: []byte(key)})
							cli.Write(frame(b))
						}
					}
				}
				time.Sleep(time.Duration(sc.CloseMs) * time.Millisecond)
				mu.Lock()
				inFlightAtClose = running
				mu.Unlock()
				closed := make(chan error, sc.NClose)
				doClose := func() {
					defer func() {
						if r := recover(); r != nil {
							closed <- fmt.Errorf("PANIC: %v", r)
						}
					}()
					closed <- env.d.Close()
				}
				if sc.ConcClose {
					for i := 0; i < sc.NClose; i++ {
						go doClose()
					}
				} else {
					go func() {
						for i := 0; i < sc.NClose; i++ {
							doClose()
						}
					}()
				}
				gotFirst := false
				for i := 0; i < sc.NClose; i++ {
					select {
					case err := <-closed:
						if err != nil && strings.HasPrefix(err.Error(), "PANIC") {
							res.Fail("close-no-panic", "C14/ipfsdht/close-panic", "Close call %d: %v", i, err)
							return
						}
						if !gotFirst {
							gotFirst = true
							verifsim.Quiesce()
							var alive []verifsim.GoroutineState
							now := censusIDs()
							for id := range g0 {
								if g, ok := now[id]; ok {
									alive = append(alive, g)
								}
							}
							if len(alive) > 0 {
								res.Fail("close-waits", "C14/ipfsdht/goroutine-survives-close", "%d goroutine(s) started by the constructor are still alive after Close returned:\n%s", len(alive), describe(alive))
								return
							}
							if n := env.h.Subs.Open(); n != 0 {
								res.Fail("close-unsubscribes", "C14/ipfsdht/subscription-left", "%d event-bus subscription(s) still open after Close returned", n)
								return
							}
						}
					case <-time.After(30 * time.Minute):
						res.Fail("close-returns", "C14/ipfsdht/close-hangs", "Close call %d of %d did not return within 30 min of virtual time (in-flight operations %d)", i, sc.NClose, inFlightAtClose)
						return
					}
				}
				if inbound != nil {
					inbound.CloseWrite()
				}
				opsDone := make(chan struct{})
				go func() { wg.Wait(); close(opsDone) }()
				select {
				case <-opsDone:
				case <-time.After(3 * time.Hour):
					res.Fail("ops-finish", "C14/ipfsdht/operation-stuck", "an operation in flight at Close did not return within 3 h of virtual time (ops %v)", sc.Ops)
					return
				}
				if len(panics) > 0 {
					res.Fail("ops-no-panic", "C14/ipfsdht/operation-panic", "%v", panics)
					return
				}
				time.Sleep(10 * time.Minute)
				verifsim.Quiesce()
				var left []verifsim.GoroutineState
				for id, g := range censusIDs() {
					if _, ok := before[id]; ok {
						continue
					}
					if strings.Contains(g.Stack, "pstoremem") || strings.Contains(g.Stack, "eventbus") || strings.Contains(g.Stack, "verifsim.Bubble") {
						continue // owned by the fake host, closed by the deferred h.Close
					}
					left = append(left, g)
				}
				if len(left) > 0 {
					res.Fail("nothing-left", "C14/ipfsdht/goroutine-left", "%d goroutine(s) left 10 min after Close and after all operations returned:\n%s", len(left), describe(left))
				}
			})
			if out.Panic != "" {
				res.Fail("no-panic", "C14/ipfsdht/panic", "%s", out.Panic)
			} else if out.Deadlock != "" && len(res.Violations) == 0 {
				res.Fail("nothing-left", "C14/ipfsdht/bubble-cannot-exit", "%s\n%s", out.Deadlock, out.Stacks)
			}
			res.NonTrivial = inFlightAtClose > 0
			if sc.NClose > 1 {
				res.Class("repeated-close")
			}
			if inFlightAtClose > 0 {
				res.Class("close-with-ops-in-flight")
			}
			return
		},
	})
}

// ---------- constructor failures ----------

type ctorSc struct {
	Fault   string `json:"fault"` // badmode opterr subscribe1 subscribe2 provopt
	Mode    int    `json:"mode"`
	NoProv  bool   `json:"no_providers"`
	AutoRef bool   `json:"auto_refresh"`
}

func TestVerif_C14_Constructors(t *testing.T) {
	verifsim.RunCheck(t, verifsim.Check[ctorSc]{
		Property: "C14", Part: "constructors",
		Rule: "rapid: dht.New with an injected failure (invalid mode value, failing option, failing provider-manager option, failing event-bus subscription (1st or 2nd Subscribe call)) x mode x providers on/off x auto-refresh; " +
			"oracle: New returns an error, after quiescence no goroutine beyond the pre-call census exists and every event-bus subscription opened during the call has been closed; non-trivial = the failure happens after something was started",
		Gen: func(t *rapid.T) ctorSc {
			return ctorSc{
				Fault:   rapid.SampledFrom([]string{"badmode", "opterr", "subscribe1", "subscribe2", "provopt"}).Draw(t, "fault"),
				Mode:    rapid.IntRange(0, 3).Draw(t, "mode"),
				NoProv:  rapid.Bool().Draw(t, "noProv"),
				AutoRef: rapid.Bool().Draw(t, "autoRef"),
			}
		},
		Run: func(t *testing.T, sc ctorSc) (res verifsim.Result) {
			late := false
			out := verifsim.Bubble(t, func() {
				h := verifnet.NewHost(peer.ID(ppool().IDs[3]), []ma.Multiaddr{ma.StringCast("/ip4/8.1.1.1/tcp/1")})
				defer h.Close()
				verifsim.Quiesce()
				before := censusIDs()
				sim := verifnet.NewSim()
				opts := []Option{ProtocolPrefix("/sim"), BucketSize(4), Mode(ModeOpt(sc.Mode)), disableFixLowPeersRoutine(nil), simValidatorOpt(),
					WithCustomMessageSender(func(host.Host, []protocol.ID) pb.MessageSenderWithDisconnect { return sim })}
				if !sc.AutoRef {
					opts = append(opts, DisableAutoRefresh())
				}
				if sc.NoProv {
					opts = append(opts, DisableProviders())
				}
				switch sc.Fault {
				case "badmode":
					opts = append(opts, Mode(ModeOpt(17)))
					late = true
				case "opterr":
					opts = append(opts, func(*dhtcfg.Config) error { return errors.New("injected option error") })
				case "subscribe1":
					h.Subs.FailSubscribe = 1
					late = true
				case "subscribe2":
					h.Subs.FailSubscribe = 2
					late = true
				case "provopt":
					opts = append(opts, ProviderManagerOpts(func(*records.ProviderManager) error { return errors.New("injected provider manager option error") }))
				}
				var d *IpfsDHT
				var err error
				func() {
					defer func() {
						if r := recover(); r != nil {
							res.Fail("no-panic", "C14/constructors/panic", "New panicked with fault %s: %v", sc.Fault, r)
						}
					}()
					d, err = New(h, opts...)
				}()
				if len(res.Violations) > 0 {
					return
				}
				if err == nil {
					// the fault did not apply to this configuration (e.g. only one Subscribe call): not a failed constructor
					d.Close()
					late = false
					return
				}
				time.Sleep(time.Second)
				verifsim.Quiesce()
				var left []verifsim.GoroutineState
				for id, g := range censusIDs() {
					if _, ok := before[id]; !ok {
						left = append(left, g)
					}
				}
				if len(left) > 0 {
					res.Fail("nothing-left", "C14/constructors/goroutine-left", "New failed (%v) but left %d goroutine(s) running:\n%s", err, len(left), describe(left))
				}
				if n := h.Subs.Open(); n != 0 {
					res.Fail("subscriptions-closed", "C14/constructors/subscription-left", "New failed (%v) but %d event-bus subscription(s) stay open", err, n)
				}
			})
			if !out.OK() && len(res.Violations) == 0 {
				res.Fail("nothing-left", "C14/constructors/hang-or-panic", "%s %s\n%s", out.Deadlock, out.Panic, out.Stacks)
			}
			res.NonTrivial = late
			res.Class("fault-" + sc.Fault)
			return
		},
	})
}
