//go:build verif

package crawler

// C16 (crawler part) — a crawl queries every peer reachable from its seeds
// exactly once and reports exactly one outcome per queried peer.

import (
	"context"
	"fmt"
	"sort"
	"sync"
	"testing"
	"time"

	"github.com/libp2p/go-libp2p-kad-dht/internal/verifnet"
	"github.com/libp2p/go-libp2p-kad-dht/internal/verifsim"
	pb "github.com/libp2p/go-libp2p-kad-dht/pb"
	"github.com/libp2p/go-libp2p/core/host"
	"github.com/libp2p/go-libp2p/core/peer"
	"github.com/libp2p/go-libp2p/core/protocol"
	ma "github.com/multiformats/go-multiaddr"
	"pgregory.net/rapid"
)

type crPeer struct {
	Addr   bool   `json:"addr"`
	Dial   string `json:"dial,omitempty"` // "" ok | fail
	FailAt int    `json:"fail_at"`        // -1: never; 0..15: the query with that index fails
	Empty  bool   `json:"empty,omitempty"`
	Refs   []int  `json:"refs"`
	LatMs  int    `json:"lat_ms"`
}

type crSc struct {
	Peers       []crPeer `json:"peers"`
	Seeds       []int    `json:"seeds"`     // may contain duplicates
	SeedAddr    []bool   `json:"seed_addr"` // whether the seed entry carries addresses itself
	Parallelism int      `json:"parallelism"`
}

func TestVerif_C16_Crawler(t *testing.T) {
	pp := verifsim.NewPool("peer", 512)
	addrOf := func(i int) ma.Multiaddr { return ma.StringCast(fmt.Sprintf("/ip4/8.7.%d.%d/tcp/4001", i/250, i%250+1)) }
	// every referrer also names the peer under an address of its own (another port): what a crawler has learnt about a peer by
	// the time it dials it can then be read off the addresses it dials with
	addrVia := func(i, via int) ma.Multiaddr {
		return ma.StringCast(fmt.Sprintf("/ip4/8.7.%d.%d/tcp/%d", i/250, i%250+1, 5000+via))
	}
	verifsim.RunCheck(t, verifsim.Check[crSc]{
		Property: "C16", Part: "crawler",
		Rule: "rapid: a directed referral graph over 1-40 simulated peers (with/without addresses; dial failure, failure at the i-th of the 16 per-peer queries, empty answers, latencies), 1-6 seeds with duplicates (as the accelerated " +
			"client produces them) with or without own addresses, parallelism 1-8; the real crawler runs over the simulated sender; oracle = the queried set equals the set reachable from the addressed seeds through successful answers, " +
			"exactly one Connect and exactly one callback (success xor failure) per queried peer, and a peer is dialled with every address under which it was named in answers that were complete before its dial started (each referrer names it under an address of its own); non-trivial = a peer reached only through referrals and at least one failing peer",
		Gen: func(t *rapid.T) crSc {
			n := rapid.IntRange(1, 40).Draw(t, "n")
			sc := crSc{Parallelism: rapid.IntRange(1, 8).Draw(t, "par")}
			for i := 0; i < n; i++ {
				p := crPeer{Addr: rapid.IntRange(0, 5).Draw(t, "addr") != 0, FailAt: -1, LatMs: rapid.IntRange(0, 300).Draw(t, "lat")}
				switch rapid.IntRange(0, 9).Draw(t, "fault") {
				case 0:
					p.Dial = "fail"
				case 1:
					p.FailAt = rapid.IntRange(0, 15).Draw(t, "failAt")
				case 2:
					p.Empty = true
				}
				p.Refs = rapid.SliceOfN(rapid.IntRange(0, n-1), 0, 5).Draw(t, "refs")
				sc.Peers = append(sc.Peers, p)
			}
			sc.Seeds = rapid.SliceOfN(rapid.IntRange(0, n-1), 1, 6).Draw(t, "seeds")
			for range sc.Seeds {
				sc.SeedAddr = append(sc.SeedAddr, rapid.Bool().Draw(t, "seedAddr"))
			}
			return sc
		},
		Run: func(t *testing.T, sc crSc) (res verifsim.Result) {
			id := func(i int) peer.ID { return peer.ID(pp.IDs[i]) }
			idx := map[peer.ID]int{}
			for i := range sc.Peers {
				idx[id(i)] = i
			}
			var mu sync.Mutex
			okCB := map[int]int{}
			failCB := map[int]int{}
			dials := map[int]int{}
			dialAddrs := map[int]map[string]bool{}
			dialStart := map[int]time.Duration{}
			var simLog []verifnet.Exchange
			out := verifsim.Bubble(t, func() {
				h := verifnet.NewHost(peer.ID(pp.IDs[500]), nil)
				defer h.Close()
				sim := verifnet.NewSim()
				sim.Dial = func(p peer.ID, n int) (time.Duration, string) {
					i, ok := idx[p]
					if !ok {
						return 0, "fail"
					}
					mu.Lock()
					dials[i]++
					mu.Unlock()
					cp := sc.Peers[i]
					if cp.Dial == "fail" || !cp.Addr {
						return time.Duration(cp.LatMs) * time.Millisecond, "fail"
					}
					return time.Duration(cp.LatMs) * time.Millisecond, "ok"
				}
				sim.Respond = func(p peer.ID, n int, req *pb.Message) verifnet.Reply {
					i := idx[p]
					cp := sc.Peers[i]
					lat := time.Duration(cp.LatMs) * time.Millisecond
					if cp.FailAt >= 0 && n%16 == cp.FailAt {
						return verifnet.Reply{Fail: true, Latency: lat}
					}
					resp := &pb.Message{Type: req.Type}
					if !cp.Empty {
						for _, r := range cp.Refs {
							mp := &pb.Message_Peer{Id: []byte(id(r))}
							if sc.Peers[r].Addr {
								mp.Addrs = [][]byte{addrOf(r).Bytes(), addrVia(r, i).Bytes()}
							}
							resp.CloserPeers = append(resp.CloserPeers, mp)
						}
					}
					return verifnet.Reply{Latency: lat, Resp: resp}
				}
				h.ConnectFn = func(ctx context.Context, pi peer.AddrInfo) error {
					mu.Lock()
					if i, ok := idx[pi.ID]; ok {
						set := map[string]bool{}
						for _, a := range pi.Addrs {
							set[a.String()] = true
						}
						dialAddrs[i] = set
						dialStart[i] = sim.Now()
					}
					mu.Unlock()
					return sim.Connect(ctx, pi)
				}
				c, err := NewDefaultCrawler(h, WithParallelism(sc.Parallelism),
					WithCustomMessageSender(func(host.Host, []protocol.ID) pb.MessageSenderWithDisconnect { return sim }))
				if err != nil {
					res.Fail("constructs", "C16/crawler/new", "%v", err)
					return
				}
				var seeds []*peer.AddrInfo
				for j, s := range sc.Seeds {
					ai := &peer.AddrInfo{ID: id(s)}
					if sc.SeedAddr[j] && sc.Peers[s].Addr {
						ai.Addrs = []ma.Multiaddr{addrOf(s)}
					} else if sc.Peers[s].Addr && j%2 == 0 {
						h.Peerstore().AddAddrs(id(s), []ma.Multiaddr{addrOf(s)}, time.Hour)
					}
					seeds = append(seeds, ai)
				}
				done := make(chan struct{})
				go func() {
					defer close(done)
					c.Run(context.Background(), seeds,
						func(p peer.ID, rt []*peer.AddrInfo) { mu.Lock(); okCB[idx[p]]++; mu.Unlock() },
						func(p peer.ID, err error) { mu.Lock(); failCB[idx[p]]++; mu.Unlock() })
				}()
				select {
				case <-done:
				case <-time.After(6 * time.Hour):
					res.Fail("terminates", "C16/crawler/hang", "crawl did not finish within 6 h of virtual time")
				}
				simLog = sim.Log()
			})
			if !out.OK() && len(res.Violations) == 0 {
				res.Fail("terminates", "C16/crawler/hang-or-panic", "%s %s\n%s", out.Deadlock, out.Panic, out.Stacks)
				return
			}
			// reference: breadth-first reachability through successful answers
			hasSeedAddr := map[int]bool{}
			for j, s := range sc.Seeds {
				if sc.Peers[s].Addr && (sc.SeedAddr[j] || j%2 == 0) {
					hasSeedAddr[s] = true
				}
			}
			// peerstore additions are cumulative: a seed listed twice is addressed if any of its entries is
			want := map[int]bool{}
			var queue []int
			for _, s := range sc.Seeds {
				if hasSeedAddr[s] && !want[s] {
					want[s] = true
					queue = append(queue, s)
				}
			}
			wantOK := map[int]bool{}
			viaReferral := false
			anyFail := false
			for len(queue) > 0 {
				q := queue[0]
				queue = queue[1:]
				cp := sc.Peers[q]
				ok := cp.Dial != "fail" && cp.Addr && cp.FailAt < 0 && !cp.Empty && len(cp.Refs) > 0
				wantOK[q] = ok
				if !ok {
					anyFail = true
					continue
				}
				for _, r := range cp.Refs {
					if !want[r] {
						want[r] = true
						viaReferral = true
						queue = append(queue, r)
					}
				}
			}
			var keys []int
			for i := range sc.Peers {
				keys = append(keys, i)
			}
			sort.Ints(keys)
			for _, i := range keys {
				total := okCB[i] + failCB[i]
				switch {
				case want[i] && dials[i] != 1:
					sig := "C16/crawler/connect-count"
					if dials[i] > 1 {
						sig = "C16/crawler/queried-twice"
					}
					res.Fail("exactly-once", sig, "peer %d reachable from the seeds was connected to %d times (seeds %v)", i, dials[i], sc.Seeds)
					return
				case want[i] && total != 1:
					res.Fail("one-outcome", "C16/crawler/outcome-count", "peer %d: %d success + %d failure callbacks", i, okCB[i], failCB[i])
					return
				case want[i] && (okCB[i] == 1) != wantOK[i]:
					res.Fail("outcome-kind", "C16/crawler/wrong-outcome", "peer %d: success callback=%v, expected success=%v", i, okCB[i] == 1, wantOK[i])
					return
				case !want[i] && (dials[i] > 0 || total > 0):
					res.Fail("only-reachable", "C16/crawler/unreachable-queried", "peer %d is not reachable from the addressed seeds but was queried (%d connects, %d callbacks)", i, dials[i], total)
					return
				}
			}
			// what was learnt about a peer before it was dialled is what it is dialled with: every referral delivered (the referrer's
			// 16 queries all answered) strictly before the dial started contributes its addresses
			lastEnd := map[int]time.Duration{}
			for _, e := range simLog {
				if e.Kind == "request" {
					if i, ok := idx[e.Peer]; ok && e.End > lastEnd[i] {
						lastEnd[i] = e.End
					}
				}
			}
			twice := false
			for _, i := range keys {
				if okCB[i] != 1 || sc.Peers[i].Empty {
					continue
				}
				for _, r := range sc.Peers[i].Refs {
					if !sc.Peers[r].Addr || dialAddrs[r] == nil || r == i {
						continue
					}
					if lastEnd[i] < dialStart[r] {
						if !dialAddrs[r][addrVia(r, i).String()] {
							res.Fail("dials-with-all-known-addresses", "C16/crawler/referral-addresses-lost", "peer %d was dialled at %v without the address under which peer %d had named it (answers complete at %v); dialled with %d addresses", r, dialStart[r], i, lastEnd[i], len(dialAddrs[r]))
							return
						}
						if len(dialAddrs[r]) >= 3 {
							twice = true
						}
					}
				}
			}
			if twice {
				res.Class("peer-named-by-two-before-its-dial")
			}
			res.NonTrivial = viaReferral && anyFail
			dupSeeds := len(sc.Seeds) != len(hasSeedAddr) && len(sc.Seeds) > 1
			if dupSeeds {
				res.Class("duplicate-seeds")
			}
			return
		},
	})
}
