//go:build verif

package dual

// C03 on the dual client: every routing operation returns within bounded time
// once the peers contacted on both networks have answered, failed or timed out,
// returns promptly after cancellation, closes its channels, never panics, and
// leaves nothing running after Close.

import (
	"context"
	"errors"
	"fmt"
	"strconv"
	"strings"
	"testing"
	"time"

	"github.com/ipfs/go-cid"
	dht "github.com/libp2p/go-libp2p-kad-dht"
	"github.com/libp2p/go-libp2p-kad-dht/internal/verifnet"
	"github.com/libp2p/go-libp2p-kad-dht/internal/verifsim"
	pb "github.com/libp2p/go-libp2p-kad-dht/pb"
	record "github.com/libp2p/go-libp2p-record"
	"github.com/libp2p/go-libp2p/core/host"
	"github.com/libp2p/go-libp2p/core/peer"
	"github.com/libp2p/go-libp2p/core/protocol"
	ma "github.com/multiformats/go-multiaddr"
	mh "github.com/multiformats/go-multihash"
	"pgregory.net/rapid"
)

type duOpSc struct {
	Du         duSc   `json:"dual"`
	Op         string `json:"op"` // getvalue searchvalue findprovasync findpeer putvalue provide gcp
	CancelMs   int    `json:"cancel_ms,omitempty"`
	Abandon    bool   `json:"abandon,omitempty"`      // channel operations: the consumer stops reading the moment it cancels
	SlowReadMs int    `json:"slow_read_ms,omitempty"` // channel operations: the consumer pauses this long after every value it reads (the producer is then usually blocked handing over the next one)
}

func TestVerif_C03_Dual(t *testing.T) {
	base := dualCheck("C03", "dual", []string{"getvalue"})
	verifsim.RunCheck(t, verifsim.Check[duOpSc]{
		Property: "C03", Part: "dual",
		Rule: "rapid: operation in {GetValue, SearchValue, FindProvidersAsync (count 0/1/2/5), FindPeer, PutValue, Provide, Bootstrap} on a dual DHT built with dual.New over two simulated networks (the C15 generator: 0-12 peers each, " +
			"routing tables independently empty or seeded) whose peers answer after 1-2000 ms or 9-12 s, fail or stay silent x cancellation instant (never, uniform 1-15000 ms); under synctest: the call returns within 1 s of virtual time after the last " +
			"peer contacted on either network answered/failed/timed out, and within 1 s of a cancellation; channels are drained to closure (or abandoned by the consumer the moment it cancels); no panic; 10 min after the return plus Close no goroutine of the bubble is alive; " +
			"non-trivial = both networks seeded and (a failing/silent peer or a cancellation that landed inside the operation)",
		Gen: func(t *rapid.T) duOpSc {
			sc := duOpSc{Du: base.Gen(t)}
			sc.Op = rapid.SampledFrom([]string{"getvalue", "searchvalue", "findprovasync", "findpeer", "putvalue", "provide", "gcp"}).Draw(t, "op3")
			for _, side := range [][]duPeer{sc.Du.Wan, sc.Du.Lan} {
				for i := range side {
					switch rapid.SampledFrom([]string{"", "", "", "", "silent", "fail", "slow"}).Draw(t, "health") {
					case "silent":
						side[i].Req = "silent"
					case "fail":
						side[i].Req = "fail"
					case "slow":
						side[i].LatMs = rapid.IntRange(9000, 12000).Draw(t, "slowLat")
					}
				}
			}
			if verifsim.Chance(t, "cancel", 45) {
				sc.CancelMs = rapid.IntRange(1, 15000).Draw(t, "cancelMs")
			}
			if sc.CancelMs == 0 && verifsim.Chance(t, "preCancel", 10) {
				sc.CancelMs = -1 // cancelled before the call
			}
			sc.Abandon = sc.CancelMs > 0 && rapid.Bool().Draw(t, "abandon")
			sc.SlowReadMs = rapid.SampledFrom([]int{0, 0, 40, 700}).Draw(t, "slowRead")
			return sc
		},
		Run: func(t *testing.T, s3 duOpSc) (res verifsim.Result) {
			sc := s3.Du
			pp := dupp()
			var started, returned, cancelled, lastEnd time.Duration
			var hung bool
			var opErr error
			var leaked []string
			out := verifsim.Bubble(t, func() {
				self := peer.ID(pp.IDs[duPool-1])
				h := verifnet.NewHost(self, []ma.Multiaddr{duAddr("pub4", 4000)})
				defer h.Close()
				wan := &duSide{name: "wan", peers: sc.Wan, other: sc.Lan, sim: verifnet.NewSim(), idx: map[peer.ID]int{}}
				lan := &duSide{name: "lan", peers: sc.Lan, other: sc.Wan, sim: verifnet.NewSim(), idx: map[peer.ID]int{}}
				for _, sd := range []*duSide{wan, lan} {
					for i, p := range sd.peers {
						sd.idx[peer.ID(pp.IDs[p.ID])] = i
					}
				}
				key := "/v/k" + strconv.Itoa(sc.Key)
				mhKey := dukp().IDs[sc.Key]
				wan.sim.Respond = wan.respond(&sc, key)
				lan.sim.Respond = lan.respond(&sc, key)
				h.ConnectFn = func(ctx context.Context, pi peer.AddrInfo) error {
					if err := verifnet.WaitContext(ctx, 5*time.Millisecond); err != nil {
						return err
					}
					_, a := wan.idx[pi.ID]
					_, b := lan.idx[pi.ID]
					if !a && !b {
						return errors.New("no route")
					}
					h.Net().SetConnected(pi.ID, true)
					return nil
				}
				common := []dht.Option{dht.DisableAutoRefresh(), dht.BucketSize(sc.K), dht.Validator(record.NamespacedValidator{"v": duValidator{}}), dht.Mode(dht.ModeClient)}
				d, err := New(h, DHTOption(common...),
					WanDHTOption(dht.ProtocolPrefix("/simwan"), dht.WithCustomMessageSender(func(host.Host, []protocol.ID) pb.MessageSenderWithDisconnect { return wan.sim })),
					LanDHTOption(dht.ProtocolPrefix("/simlan"), dht.WithCustomMessageSender(func(host.Host, []protocol.ID) pb.MessageSenderWithDisconnect { return lan.sim })))
				if err != nil {
					res.Fail("constructs", "C03/dual/new-error", "%v", err)
					return
				}
				closedD := false
				defer func() {
					if !closedD {
						d.Close()
					}
				}()
				seed := func(sd *duSide, rtd *dht.IpfsDHT, seeds []int, g int) {
					for n, si := range seeds {
						id := peer.ID(pp.IDs[sd.peers[si].ID])
						h.Net().AddConn(id, duAddr("pub4", g*100+n*7+sd.peers[si].ID))
						rtd.RoutingTable().TryAddPeer(id, true, false)
					}
				}
				seed(wan, d.WAN, sc.WanSeeds, 1)
				seed(lan, d.LAN, sc.LanSeeds, 2)
				time.Sleep(time.Second)
				ctx, cancel := context.WithCancel(context.Background())
				defer cancel()
				now := func() time.Duration { return max(wan.sim.Now(), lan.sim.Now()) }
				var abandon <-chan struct{} // nil: the consumer reads until the channel is closed
				if s3.Abandon {
					abandon = ctx.Done()
				}
				done := make(chan struct{})
				started = now()
				if s3.CancelMs < 0 {
					// the context is already cancelled when the operation is called
					cancelled = started + 1
					cancel()
				}
				go func() {
					defer close(done)
					defer func() {
						if r := recover(); r != nil {
							opErr = fmt.Errorf("PANIC: %v", r)
						}
					}()
					c := cid.NewCidV1(cid.Raw, mh.Multihash(mhKey))
					switch s3.Op {
					case "getvalue":
						_, opErr = d.GetValue(ctx, key)
					case "searchvalue":
						ch, err := d.SearchValue(ctx, key)
						opErr = err
						if err == nil {
						readV:
							for {
								select {
								case _, ok := <-ch:
									if !ok {
										break readV
									}
									if s3.SlowReadMs > 0 {
										select {
										case <-time.After(time.Duration(s3.SlowReadMs) * time.Millisecond):
										case <-abandon:
											break readV
										}
									}
								case <-abandon:
									break readV
								}
							}
						}
					case "findprovasync":
						pch := d.FindProvidersAsync(ctx, c, sc.Count)
					readP:
						for {
							select {
							case _, ok := <-pch:
								if !ok {
									break readP
								}
								if s3.SlowReadMs > 0 {
									select {
									case <-time.After(time.Duration(s3.SlowReadMs) * time.Millisecond):
									case <-abandon:
										break readP
									}
								}
							case <-abandon:
								break readP
							}
						}
					case "findpeer":
						var target peer.ID
						switch {
						case sc.Target%2 == 0 && len(sc.Wan) > 0:
							target = peer.ID(pp.IDs[sc.Wan[(sc.Target/2)%len(sc.Wan)].ID])
						case len(sc.Lan) > 0:
							target = peer.ID(pp.IDs[sc.Lan[(sc.Target/2)%len(sc.Lan)].ID])
						default:
							target = peer.ID(pp.IDs[duPool-7])
						}
						_, opErr = d.FindPeer(ctx, target)
					case "putvalue":
						opErr = d.PutValue(ctx, key, []byte(fmt.Sprintf("5|k%d|put", sc.Key)))
					case "provide":
						opErr = d.Provide(ctx, c, true)
					case "gcp":
						opErr = d.Bootstrap(ctx)
					}
				}()
				if s3.CancelMs > 0 {
					select {
					case <-done:
					case <-time.After(time.Duration(s3.CancelMs) * time.Millisecond):
						cancelled = now()
						cancel()
					}
				}
				select {
				case <-done:
					returned = now()
				case <-time.After(3 * time.Hour):
					hung = true
					returned = now()
					cancel()
					return
				}
				for _, sm := range []*verifnet.Sim{wan.sim, lan.sim} {
					for _, e := range sm.Log() {
						if e.Outcome != "pending" && e.End <= returned && e.End > lastEnd {
							lastEnd = e.End
						}
					}
				}
				time.Sleep(10 * time.Minute)
				verifsim.Quiesce()
				d.Close()
				closedD = true
				h.Close()
				verifsim.Quiesce()
				for _, g := range verifsim.Census(true) {
					if strings.Contains(g.Stack, "verifsim.Bubble") || strings.Contains(g.Stack, "synctest.Test") || strings.Contains(g.Stack, "testing.tRunner") {
						continue
					}
					lines := strings.Split(g.Stack, "\n")
					if len(lines) > 11 {
						lines = lines[:11]
					}
					leaked = append(leaked, strings.Join(lines, "\n"))
				}
			})
			op := s3.Op
			switch {
			case out.Panic != "":
				res.Fail("no-panic", "C03/dual/"+op+"/panic", "%s", out.Panic)
			case len(res.Violations) > 0:
			case opErr != nil && strings.HasPrefix(opErr.Error(), "PANIC"):
				res.Fail("no-panic", "C03/dual/"+op+"/panic", "%v", opErr)
			case hung:
				res.Fail("terminates", "C03/dual/"+op+"/hang", "%s did not return within 3 h of virtual time (started %v, cancelled %v)", op, started, cancelled)
			default:
				if cancelled > 0 {
					if returned-cancelled > time.Second+3*time.Duration(s3.SlowReadMs)*time.Millisecond { // (a pausing consumer may be in a pause, and reads what was already handed over)
						res.Fail("cancellation-prompt", "C03/dual/"+op+"/slow-cancel", "%s returned %v after its context was cancelled", op, returned-cancelled)
					}
				} else if last := max(lastEnd, started); returned-last > time.Second && s3.SlowReadMs == 0 { // (with a pausing consumer the call's duration is the consumer's own)
					res.Fail("returns-when-peers-done", "C03/dual/"+op+"/idle-wait", "%s returned at %v, %v after the last contacted peer had answered, failed or timed out (%v)", op, returned, returned-last, last)
				}
				if len(leaked) > 0 {
					res.Fail("background-ends", "C03/dual/"+op+"/goroutine-left-after-close", "%d goroutine(s) still alive 10 min after the operation returned and after Close:\n%s", len(leaked), strings.Join(leaked[:min(2, len(leaked))], "\n\n"))
				} else if out.Deadlock != "" {
					res.Fail("background-ends", "C03/dual/"+op+"/bubble-cannot-exit", "%s\n%s", out.Deadlock, out.Stacks)
				}
			}
			faulty := false
			for _, p := range append(append([]duPeer{}, sc.Wan...), sc.Lan...) {
				if p.Req != "" {
					faulty = true
				}
			}
			inside := cancelled > 0 && cancelled <= returned
			res.NonTrivial = len(sc.WanSeeds) > 0 && len(sc.LanSeeds) > 0 && (faulty || inside)
			res.Class("op-" + op)
			if inside {
				res.Class("cancelled-inside")
			}
			if len(sc.WanSeeds) > 0 && len(sc.LanSeeds) > 0 {
				res.Class("both-networks")
			}
			return
		},
	})
}
