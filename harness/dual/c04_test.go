//go:build verif

package dual

// C04 on the dual client: SearchValue merges the value streams of the WAN and the LAN half through the validator.
// (GetValue on the dual client prefers the WAN result whatever the LAN found: that rule is C15's and is judged there.)

import (
	"testing"

	"github.com/libp2p/go-libp2p-kad-dht/internal/verifsim"
)

func TestVerif_C04_Dual(t *testing.T) {
	c := dualCheck("C04", "dual", []string{"searchvalue"})
	c.Rule = "rapid: the dual DHT of the C15 generator (dual.New over two simulated networks, 0-12 peers each) restricted to SearchValue without quorum; responders of either side hold valid records of rank 1-3, invalid values, records " +
		"filed under another key whose value would be the best, or nothing; either half may hold a record locally; oracle over the merged stream and the two simulation logs: every yielded value validates for the key, none is a mis-keyed " +
		"record's, the stream is strictly improving, it ends on a value at least as good as the weaker of the two halves' best supplied records (the merge, routinghelpers.Parallel, ends the search as soon as one half has finished after yielding something), never better than anything supplied, and yields nothing when nothing valid was supplied; " +
		"non-trivial = both networks populated or mixed address classes in answers (the C15 rule)"
	verifsim.RunCheck(t, c)
}
