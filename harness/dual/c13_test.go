//go:build verif

package dual

// C13 on the dual DHT: the WAN half follows reachability in the automatic modes, the LAN half is a fixed server (unless the
// WAN half is a fixed client) - on two different protocol ids of one host. A mode switch of one half must not touch what
// the other half serves.

import (
	"fmt"
	"testing"
	"time"

	dht "github.com/libp2p/go-libp2p-kad-dht"
	"github.com/libp2p/go-libp2p-kad-dht/internal/verifnet"
	"github.com/libp2p/go-libp2p-kad-dht/internal/verifsim"
	pb "github.com/libp2p/go-libp2p-kad-dht/pb"
	"github.com/libp2p/go-libp2p/core/event"
	"github.com/libp2p/go-libp2p/core/host"
	"github.com/libp2p/go-libp2p/core/network"
	"github.com/libp2p/go-libp2p/core/peer"
	"github.com/libp2p/go-libp2p/core/protocol"
	ma "github.com/multiformats/go-multiaddr"
	"pgregory.net/rapid"
)

type dualModeSc struct {
	Mode   int    `json:"mode"`   // dht.ModeOpt given to both halves: 0 auto 1 client 2 server 3 auto-server
	Prefix string `json:"prefix"` // how the protocol prefix is given: common (one DHTOption for both halves) | split (one option per half)
	Reach  []int  `json:"reach"`  // reachability events: 0 unknown 1 public 2 private
}

func TestVerif_C13_DualModes(t *testing.T) {
	verifsim.RunCheck(t, verifsim.Check[dualModeSc]{
		Property: "C13", Part: "dual-modes",
		Rule: "rapid: dual.New on a fake host with mode option {auto, client, server, auto-server}, the protocol prefix of a forked network given either once for both halves (DHTOption) or per half, then 0-8 local-reachability " +
			"events; at every quiescent point: the two halves use different protocol ids (the LAN id carries the /lan extension), the WAN id has a stream handler exactly when f(mode option, last event) says server, the LAN id " +
			"has one exactly when the LAN half is a server (always, unless the WAN half is a fixed client); non-trivial = the WAN half switched at least once",
		Gen: func(t *rapid.T) dualModeSc {
			return dualModeSc{
				Mode:   rapid.SampledFrom([]int{int(dht.ModeAuto), int(dht.ModeAuto), int(dht.ModeAutoServer), int(dht.ModeServer), int(dht.ModeClient)}).Draw(t, "mode"),
				Prefix: rapid.SampledFrom([]string{"common", "split"}).Draw(t, "prefix"),
				Reach:  rapid.SliceOfN(rapid.IntRange(0, 2), 0, 8).Draw(t, "reach"),
			}
		},
		Run: func(t *testing.T, sc dualModeSc) (res verifsim.Result) {
			pp := dupp()
			out := verifsim.Bubble(t, func() {
				h := verifnet.NewHost(peer.ID(pp.IDs[duPool-1]), []ma.Multiaddr{ma.StringCast("/ip4/8.1.1.1/tcp/1")})
				defer h.Close()
				sim := verifnet.NewSim()
				common := []dht.Option{dht.DisableAutoRefresh(), dht.BucketSize(4), dht.Mode(dht.ModeOpt(sc.Mode)),
					dht.WithCustomMessageSender(func(host.Host, []protocol.ID) pb.MessageSenderWithDisconnect { return sim })}
				var opts []Option
				wanID, lanID := protocol.ID("/sim/kad/1.0.0"), protocol.ID("/sim/lan/kad/1.0.0")
				if sc.Prefix == "common" {
					opts = []Option{DHTOption(append(common, dht.ProtocolPrefix("/sim"))...)}
				} else {
					opts = []Option{DHTOption(common...), WanDHTOption(dht.ProtocolPrefix("/simw")), LanDHTOption(dht.ProtocolPrefix("/siml"))}
					wanID, lanID = "/simw/kad/1.0.0", "/siml/lan/kad/1.0.0"
				}
				d, err := New(h, opts...)
				if err != nil {
					res.Fail("constructs", "C13/dual/new", "%v", err)
					return
				}
				defer d.Close()
				em, err := h.EventBus().Emitter(new(event.EvtLocalReachabilityChanged))
				if err != nil {
					panic(err)
				}
				defer em.Close()
				wantWAN := func(last int, any bool) bool {
					switch dht.ModeOpt(sc.Mode) {
					case dht.ModeClient:
						return false
					case dht.ModeServer:
						return true
					case dht.ModeAutoServer:
						return !any || last != 2
					default:
						return any && last == 1
					}
				}
				wantLAN := dht.ModeOpt(sc.Mode) != dht.ModeClient
				last, any := 0, false
				prev := wantWAN(0, false)
				check := func(step string) bool {
					time.Sleep(time.Second)
					verifsim.Quiesce()
					if wanID == lanID {
						return true
					}
					gotW, gotL := h.Handler(wanID) != nil, h.Handler(lanID) != nil
					if gotL != wantLAN {
						res.Fail("lan-half-serves", "C13/dual/lan-handler", "%s: the LAN half (a fixed %s) has a handler on %s: %v (registered protocols: %v)", step, map[bool]string{true: "server", false: "client"}[wantLAN], lanID, gotL, h.Protocols())
						return false
					}
					if gotW != wantWAN(last, any) {
						res.Fail("mode-follows-reachability", "C13/dual/wan-handler", "%s: mode option %d, last reachability %d (any=%v): the WAN half has a handler on %s: %v, expected %v (registered protocols: %v)", step, sc.Mode, last, any, wanID, gotW, wantWAN(last, any), h.Protocols())
						return false
					}
					return true
				}
				if !check("after construction") {
					return
				}
				for i, r := range sc.Reach {
					em.Emit(event.EvtLocalReachabilityChanged{Reachability: network.Reachability(r)})
					last, any = r, true
					if w := wantWAN(last, any); w != prev {
						res.NonTrivial = true
						prev = w
					}
					if !check(fmt.Sprintf("event %d (reachability %d)", i, r)) {
						return
					}
				}
			})
			if !out.OK() {
				res.Fail("no-panic", "C13/dual/hang-or-panic", "%s %s\n%s", out.Deadlock, out.Panic, out.Stacks)
			}
			res.Class("prefix-" + sc.Prefix)
			return
		},
	})
}
