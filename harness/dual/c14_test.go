//go:build verif

package dual

// C14 (dual part): Close closes both inner DHTs; a failing LAN construction
// closes the already constructed WAN DHT.

import (
	"errors"
	"strings"
	"testing"
	"time"

	dht "github.com/libp2p/go-libp2p-kad-dht"
	dhtcfg "github.com/libp2p/go-libp2p-kad-dht/internal/config"
	"github.com/libp2p/go-libp2p-kad-dht/internal/verifnet"
	"github.com/libp2p/go-libp2p-kad-dht/internal/verifsim"
	pb "github.com/libp2p/go-libp2p-kad-dht/pb"
	record "github.com/libp2p/go-libp2p-record"
	"github.com/libp2p/go-libp2p/core/host"
	"github.com/libp2p/go-libp2p/core/peer"
	"github.com/libp2p/go-libp2p/core/protocol"
	ma "github.com/multiformats/go-multiaddr"
	"pgregory.net/rapid"
)

type dualCloseSc struct {
	Fault  string `json:"fault"` // "" | lanopt | wanopt | subscribe2 | subscribe1
	Mode   int    `json:"mode"`
	NClose int    `json:"n_close"`
}

func TestVerif_C14_Dual(t *testing.T) {
	verifsim.RunCheck(t, verifsim.Check[dualCloseSc]{
		Property: "C14", Part: "dual",
		Rule: "rapid: dual.New with an optional injected fault (failing WAN option, failing LAN option, failing 1st/2nd event-bus subscription, i.e. WAN or LAN construction) x mode; on success Close is called 1-3 times; oracle: census by id - after Close, " +
			"or after a failed New, no goroutine beyond the pre-call census is alive and no event-bus subscription is open; non-trivial = the LAN construction fails after the WAN DHT was built",
		Gen: func(t *rapid.T) dualCloseSc {
			return dualCloseSc{Fault: rapid.SampledFrom([]string{"", "lanopt", "wanopt", "subscribe1", "subscribe2"}).Draw(t, "fault"), Mode: rapid.IntRange(0, 3).Draw(t, "mode"), NClose: rapid.IntRange(1, 3).Draw(t, "nClose")}
		},
		Run: func(t *testing.T, sc dualCloseSc) (res verifsim.Result) {
			out := verifsim.Bubble(t, func() {
				h := verifnet.NewHost(peer.ID(dupp().IDs[5]), []ma.Multiaddr{ma.StringCast("/ip4/8.1.1.1/tcp/1")})
				defer h.Close()
				h.Subs.SlowClose = time.Millisecond
				verifsim.Quiesce()
				before := map[string]bool{}
				for _, g := range verifsim.Census(true) {
					before[g.ID] = true
				}
				sim := verifnet.NewSim()
				sender := dht.WithCustomMessageSender(func(host.Host, []protocol.ID) pb.MessageSenderWithDisconnect { return sim })
				common := []dht.Option{dht.DisableAutoRefresh(), dht.BucketSize(4), dht.Validator(record.NamespacedValidator{"v": duValidator{}}), dht.Mode(dht.ModeOpt(sc.Mode)), sender}
				wanOpts := []dht.Option{dht.ProtocolPrefix("/simwan")}
				lanOpts := []dht.Option{dht.ProtocolPrefix("/simlan")}
				bad := func(*dhtcfg.Config) error { return errors.New("injected option error") }
				switch sc.Fault {
				case "lanopt":
					lanOpts = append(lanOpts, bad)
				case "wanopt":
					wanOpts = append(wanOpts, bad)
				case "subscribe1":
					h.Subs.FailSubscribe = 1
				case "subscribe2":
					h.Subs.FailSubscribe = 2
				}
				d, err := New(h, DHTOption(common...), WanDHTOption(wanOpts...), LanDHTOption(lanOpts...))
				check := func(when string) {
					time.Sleep(10 * time.Millisecond)
					verifsim.Quiesce()
					var left []string
					for _, g := range verifsim.Census(true) {
						if !before[g.ID] {
							lines := strings.Split(g.Stack, "\n")
							if len(lines) > 8 {
								lines = lines[:8]
							}
							left = append(left, strings.Join(lines, "\n"))
						}
					}
					if len(left) > 0 {
						res.Fail("nothing-left", "C14/dual/goroutine-left", "%s: %d goroutine(s) left:\n%s", when, len(left), strings.Join(left[:min(2, len(left))], "\n\n"))
					}
					if n := h.Subs.Open(); n != 0 {
						res.Fail("subscriptions-closed", "C14/dual/subscription-left", "%s: %d event-bus subscription(s) open", when, n)
					}
				}
				if err != nil {
					check("after a failed dual.New (" + sc.Fault + ")")
					return
				}
				for i := 0; i < sc.NClose; i++ {
					done := make(chan struct{})
					go func() { defer close(done); d.Close() }()
					select {
					case <-done:
					case <-time.After(10 * time.Minute):
						res.Fail("close-returns", "C14/dual/close-hangs", "Close call %d did not return", i)
						return
					}
					if i == 0 {
						verifsim.Quiesce()
						var left int
						for _, g := range verifsim.Census(true) {
							if !before[g.ID] {
								left++
							}
						}
						if left > 0 {
							res.Fail("close-waits", "C14/dual/goroutine-survives-close", "%d goroutine(s) alive right after Close returned", left)
							return
						}
					}
				}
				check("after Close")
			})
			if !out.OK() && len(res.Violations) == 0 {
				res.Fail("nothing-left", "C14/dual/hang-or-panic", "%s %s\n%s", out.Deadlock, out.Panic, out.Stacks)
			}
			res.NonTrivial = sc.Fault == "lanopt" || sc.Fault == "subscribe2"
			res.Class("fault-" + sc.Fault)
			return
		},
	})
}
