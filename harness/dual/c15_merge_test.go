//go:build verif

package dual

// C15, FindPeer - "returns the union of both address sets". With dual.New both halves share one host and hence one
// peerstore, so the two address sets are (nearly) the same set and the merge is never put to work. Here the two halves sit on
// two fake hosts with separate peerstores (the DHT struct is assembled from them, as applications that run the LAN side on
// another interface/host do), the target is connected on either, both or neither side, and each side knows a drawn address
// list: shared and own addresses in drawn orders.

import (
	"context"
	"fmt"
	"sort"
	"testing"
	"time"

	dht "github.com/libp2p/go-libp2p-kad-dht"
	"github.com/libp2p/go-libp2p-kad-dht/internal/verifnet"
	"github.com/libp2p/go-libp2p-kad-dht/internal/verifsim"
	pb "github.com/libp2p/go-libp2p-kad-dht/pb"
	"github.com/libp2p/go-libp2p/core/host"
	"github.com/libp2p/go-libp2p/core/peer"
	"github.com/libp2p/go-libp2p/core/protocol"
	ma "github.com/multiformats/go-multiaddr"
	"pgregory.net/rapid"
)

type fpMergeSc struct {
	Wan     []int `json:"wan"`      // address numbers the WAN side's peerstore holds for the target, in this order
	Lan     []int `json:"lan"`      // ... the LAN side's
	WanConn bool  `json:"wan_conn"` // the target is connected on the WAN side's host (FindPeer answers locally)
	LanConn bool  `json:"lan_conn"`
}

func fpMergeAddr(n int) ma.Multiaddr {
	if n%2 == 0 {
		return ma.StringCast(fmt.Sprintf("/ip4/8.7.%d.1/tcp/4001", n))
	}
	return ma.StringCast(fmt.Sprintf("/ip4/192.168.7.%d/tcp/4001", n))
}

func TestVerif_C15_FindPeerMerge(t *testing.T) {
	verifsim.RunCheck(t, verifsim.Check[fpMergeSc]{
		Property: "C15", Part: "findpeer-merge",
		Rule: "rapid: a dual DHT whose WAN and LAN halves sit on two fake hosts with separate peerstores; the target is connected on the WAN host, the LAN host, both or neither; each peerstore holds 0-8 of 12 addresses for it in a drawn " +
			"order (shared and own ones interleaved); oracle: FindPeer returns exactly the union of what the two halves return for the same target (each half asked again on its own right afterwards; nothing changes in between), " +
			"without duplicates, under the target's id; non-trivial = both sets non-empty, different, and overlapping",
		Gen: func(t *rapid.T) fpMergeSc {
			pick := func(label string) []int {
				n := rapid.IntRange(0, 8).Draw(t, label+"N")
				return rapid.SliceOfNDistinct(rapid.IntRange(0, 11), n, n, func(i int) int { return i }).Draw(t, label)
			}
			return fpMergeSc{Wan: pick("wan"), Lan: pick("lan"), WanConn: rapid.IntRange(0, 3).Draw(t, "wanConn") > 0, LanConn: rapid.IntRange(0, 3).Draw(t, "lanConn") > 0}
		},
		Run: func(t *testing.T, sc fpMergeSc) (res verifsim.Result) {
			pp := dupp()
			target := peer.ID(pp.IDs[77])
			out := verifsim.Bubble(t, func() {
				mk := func(self int, prefix string, addrs []int, conn bool) (*verifnet.Host, *dht.IpfsDHT, error) {
					h := verifnet.NewHost(peer.ID(pp.IDs[self]), []ma.Multiaddr{ma.StringCast("/ip4/8.1.1.1/tcp/1")})
					sim := verifnet.NewSim()
					sim.Respond = func(p peer.ID, n int, req *pb.Message) verifnet.Reply {
						return verifnet.Reply{Latency: time.Millisecond, Resp: &pb.Message{Type: req.Type, Key: req.Key}}
					}
					h.ConnectFn = sim.Connect
					d, err := dht.New(h, dht.WithCustomMessageSender(func(host.Host, []protocol.ID) pb.MessageSenderWithDisconnect { return sim }),
						dht.ProtocolPrefix(protocol.ID(prefix)), dht.DisableAutoRefresh(), dht.Mode(dht.ModeClient), dht.BucketSize(4))
					if err != nil {
						h.Close()
						return nil, nil, err
					}
					for _, a := range addrs {
						h.Peerstore().AddAddrs(target, []ma.Multiaddr{fpMergeAddr(a)}, time.Hour)
					}
					if conn {
						h.Net().SetConnected(target, true)
					}
					return h, d, nil
				}
				hw, w, err := mk(5, "/simwan", sc.Wan, sc.WanConn)
				if err != nil {
					res.Fail("constructs", "C15/findpeer-merge/new", "%v", err)
					return
				}
				defer hw.Close()
				defer w.Close()
				hl, l, err := mk(6, "/simlan", sc.Lan, sc.LanConn)
				if err != nil {
					res.Fail("constructs", "C15/findpeer-merge/new", "%v", err)
					return
				}
				defer hl.Close()
				defer l.Close()
				d := &DHT{WAN: w, LAN: l}
				ctx := context.Background()
				got, gerr := d.FindPeer(ctx, target)
				wi, _ := w.FindPeer(ctx, target)
				li, _ := l.FindPeer(ctx, target)
				want := map[string]bool{}
				for _, a := range wi.Addrs {
					want[a.String()] = true
				}
				for _, a := range li.Addrs {
					want[a.String()] = true
				}
				have := map[string]bool{}
				for _, a := range got.Addrs {
					if have[a.String()] {
						res.Fail("findpeer-union", "C15/findpeer/duplicate", "duplicate address %s in the FindPeer result", a)
					}
					have[a.String()] = true
				}
				var missing, extra []string
				for a := range want {
					if !have[a] {
						missing = append(missing, a)
					}
				}
				for a := range have {
					if !want[a] {
						extra = append(extra, a)
					}
				}
				sort.Strings(missing)
				sort.Strings(extra)
				if len(missing) > 0 {
					res.Fail("findpeer-union", "C15/findpeer/missing", "FindPeer (err %v) lacks %v: the WAN half returns %v, the LAN half %v, the dual DHT %v", gerr, missing, wi.Addrs, li.Addrs, got.Addrs)
				}
				if len(extra) > 0 {
					res.Fail("findpeer-union", "C15/findpeer/extra", "FindPeer returned %v, known to neither half", extra)
				}
				if len(want) > 0 && got.ID != target {
					res.Fail("findpeer-id", "C15/findpeer/id", "FindPeer returned id %q", got.ID)
				}
				overlap, onlyW, onlyL := 0, 0, 0
				lw := map[string]bool{}
				for _, a := range wi.Addrs {
					lw[a.String()] = true
				}
				ll := map[string]bool{}
				for _, a := range li.Addrs {
					ll[a.String()] = true
					if lw[a.String()] {
						overlap++
					} else {
						onlyL++
					}
				}
				for a := range lw {
					if !ll[a] {
						onlyW++
					}
				}
				res.NonTrivial = overlap > 0 && (onlyW > 0 || onlyL > 0)
				if res.NonTrivial {
					res.Class("partial-overlap")
				}
				if len(wi.Addrs) == 0 || len(li.Addrs) == 0 {
					res.Class("one-side-empty")
				}
			})
			if !out.OK() {
				res.Fail("no-panic", "C15/findpeer-merge/hang-or-panic", "%s %s\n%s", out.Deadlock, out.Panic, out.Stacks)
			}
			return
		},
	})
}
