//go:build verif

package dual

// C15, server side: "never ... advertises own addresses that are not public, and the LAN DHT never advertises loopback
// addresses". Besides its provider records (judged by the `dual` part) a server hands out its own addresses in one more
// place: FIND_NODE for its own id is answered with the node itself first. A real libp2p host keeps its current addresses
// in the peerstore under its own id; so does the fake host here.

import (
	"encoding/binary"
	"fmt"
	"testing"
	"time"

	dht "github.com/libp2p/go-libp2p-kad-dht"
	"github.com/libp2p/go-libp2p-kad-dht/internal/verifnet"
	"github.com/libp2p/go-libp2p-kad-dht/internal/verifsim"
	pb "github.com/libp2p/go-libp2p-kad-dht/pb"
	"github.com/libp2p/go-libp2p/core/host"
	"github.com/libp2p/go-libp2p/core/peer"
	"github.com/libp2p/go-libp2p/core/protocol"
	ma "github.com/multiformats/go-multiaddr"
	manet "github.com/multiformats/go-multiaddr/net"
	"google.golang.org/protobuf/proto"
	"pgregory.net/rapid"
)

type selfAdSc struct {
	HostAddr []string `json:"host_addrs"` // address classes of the host
	Other    []string `json:"other"`      // address classes of one further routing-table member (served as a closer peer)
}

func TestVerif_C15_ServerSelf(t *testing.T) {
	verifsim.RunCheck(t, verifsim.Check[selfAdSc]{
		Property: "C15", Part: "server-self",
		Rule: "rapid: a dual DHT in server mode on a fake host whose 1-5 addresses mix the classes public v4/v6, RFC1918, ULA, link-local, loopback (kept in the peerstore under the host's own id, as a libp2p host does); an " +
			"inbound FIND_NODE for the node's own id on the WAN protocol and on the LAN protocol; oracle over the response bytes: the node's own record lists no address that is not public on the WAN side and no loopback address on the " +
			"LAN side; non-trivial = the host has both a public and a non-public address",
		Gen: func(t *rapid.T) selfAdSc {
			return selfAdSc{
				HostAddr: rapid.SliceOfNDistinct(rapid.SampledFrom([]string{"pub4", "pub6", "priv4", "ula6", "ll4", "lo4"}), 1, 5, func(s string) string { return s }).Draw(t, "hostAddrs"),
				Other:    rapid.SliceOfNDistinct(rapid.SampledFrom([]string{"pub4", "priv4", "lo4"}), 0, 2, func(s string) string { return s }).Draw(t, "other"),
			}
		},
		Run: func(t *testing.T, sc selfAdSc) (res verifsim.Result) {
			pp := dupp()
			self := peer.ID(pp.IDs[duPool-1])
			out := verifsim.Bubble(t, func() {
				var haddrs []ma.Multiaddr
				for i, c := range sc.HostAddr {
					haddrs = append(haddrs, duAddr(c, 4000+i))
				}
				h := verifnet.NewHost(self, haddrs)
				defer h.Close()
				h.Peerstore().AddAddrs(self, haddrs, time.Hour)
				sim := verifnet.NewSim()
				d, err := New(h, DHTOption(dht.DisableAutoRefresh(), dht.BucketSize(4), dht.Mode(dht.ModeServer),
					dht.WithCustomMessageSender(func(host.Host, []protocol.ID) pb.MessageSenderWithDisconnect { return sim })),
					WanDHTOption(dht.ProtocolPrefix("/simwan")), LanDHTOption(dht.ProtocolPrefix("/simlan")))
				if err != nil {
					res.Fail("constructs", "C15/server-self/new", "%v", err)
					return
				}
				defer d.Close()
				requester := peer.ID(pp.IDs[3])
				ask := func(pid protocol.ID) (*pb.Message, bool) {
					hd := h.Handler(pid)
					if hd == nil {
						return nil, false
					}
					conn := h.Net().AddConn(requester, ma.StringCast("/ip4/8.9.9.9/tcp/1"))
					cli, srv := verifnet.NewStreamPair(nil, conn, pid)
					done := make(chan struct{})
					go func() { defer close(done); hd(srv) }()
					b, _ := proto.Marshal(&pb.Message{Type: pb.Message_FIND_NODE, Key: []byte(self)})
					var hdr [binary.MaxVarintLen64]byte
					n := binary.PutUvarint(hdr[:], uint64(len(b)))
					cli.Write(append(hdr[:n:n], b...))
					verifsim.Quiesce()
					data, _, _ := cli.Peek()
					cli.CloseWrite()
					verifsim.Quiesce()
					cli.Reset()
					<-done
					l, k := binary.Uvarint(data)
					if k <= 0 || int(l) != len(data)-k {
						return nil, true
					}
					m := new(pb.Message)
					if proto.Unmarshal(data[k:], m) != nil {
						return nil, true
					}
					return m, true
				}
				for _, side := range []struct {
					name string
					pid  protocol.ID
					ok   func(ma.Multiaddr) bool
					what string
				}{
					{"WAN", "/simwan/kad/1.0.0", func(a ma.Multiaddr) bool { return manet.IsPublicAddr(a) }, "not public"},
					{"LAN", "/simlan/lan/kad/1.0.0", func(a ma.Multiaddr) bool { return !manet.IsIPLoopback(a) }, "a loopback address"},
				} {
					m, served := ask(side.pid)
					if !served {
						res.Fail("serves", "C15/server-self/no-handler", "the %s DHT registered no handler for %s (registered: %v)", side.name, side.pid, h.Protocols())
						return
					}
					if m == nil {
						continue // (no well-formed answer: not this part's business)
					}
					for _, cp := range m.GetCloserPeers() {
						if peer.ID(cp.Id) != self {
							continue
						}
						for _, ab := range cp.Addrs {
							a, err := ma.NewMultiaddrBytes(ab)
							if err != nil {
								continue
							}
							if !side.ok(a) {
								res.Fail("own-addresses-scoped", "C15/server-self/"+map[string]string{"WAN": "wan-advertises-non-public", "LAN": "lan-advertises-loopback"}[side.name],
									"the %s DHT answers FIND_NODE for its own id with its own address %s, which is %s (host addresses %v)", side.name, a, side.what, fmt.Sprint(haddrs))
								return
							}
						}
					}
				}
			})
			if !out.OK() {
				res.Fail("no-panic", "C15/server-self/hang-or-panic", "%s %s\n%s", out.Deadlock, out.Panic, out.Stacks)
			}
			pub, non := false, false
			for _, c := range sc.HostAddr {
				if isPublicNonRelay(c) {
					pub = true
				} else {
					non = true
				}
			}
			res.NonTrivial = pub && non
			return
		},
	})
}
