//go:build verif

package dual

// C15 — dual DHT routes writes by WAN liveness and scopes addresses.

import (
	"bytes"
	"context"
	"crypto/sha256"
	"errors"
	"fmt"
	ds "github.com/ipfs/go-datastore"
	dsq "github.com/ipfs/go-datastore/query"
	dssync "github.com/ipfs/go-datastore/sync"
	"google.golang.org/protobuf/proto"
	"os"
	"sort"
	"strconv"
	"strings"
	"testing"
	"time"

	"github.com/ipfs/go-cid"
	dht "github.com/libp2p/go-libp2p-kad-dht"
	"github.com/libp2p/go-libp2p-kad-dht/internal/verifnet"
	"github.com/libp2p/go-libp2p-kad-dht/internal/verifsim"
	pb "github.com/libp2p/go-libp2p-kad-dht/pb"
	record "github.com/libp2p/go-libp2p-record"
	recpb "github.com/libp2p/go-libp2p-record/pb"
	"github.com/libp2p/go-libp2p/core/host"
	"github.com/libp2p/go-libp2p/core/peer"
	"github.com/libp2p/go-libp2p/core/protocol"
	ma "github.com/multiformats/go-multiaddr"
	mh "github.com/multiformats/go-multihash"
	"pgregory.net/rapid"
)

const duPool = 1 << 12

func dupp() *verifsim.Pool { return verifsim.NewPool("peer", duPool) }
func dukp() *verifsim.Pool { return verifsim.NewPool("key", duPool) }

// address classes, known by construction
var duClasses = []string{"pub4", "pub6", "priv4", "ula6", "ll4", "lo4", "relay"}

func duAddr(class string, n int) ma.Multiaddr {
	switch class {
	case "pub4":
		return ma.StringCast(fmt.Sprintf("/ip4/8.%d.%d.%d/tcp/4001", n%200+1, (n/200)%250, n%250+1))
	case "pub6":
		return ma.StringCast(fmt.Sprintf("/ip6/2001:4860:%x::%x/tcp/4001", n%60000+1, n%250+1))
	case "priv4":
		return ma.StringCast(fmt.Sprintf("/ip4/192.168.%d.%d/tcp/4001", (n/250)%250, n%250+1))
	case "ula6":
		return ma.StringCast(fmt.Sprintf("/ip6/fd00::%x/tcp/4001", n%60000+1))
	case "ll4":
		return ma.StringCast(fmt.Sprintf("/ip4/169.254.%d.%d/tcp/4001", (n/250)%250, n%250+1))
	case "lo4":
		return ma.StringCast("/ip4/127.0.0.1/tcp/4001")
	case "relay":
		return ma.StringCast(fmt.Sprintf("/ip4/8.9.%d.%d/tcp/4001/p2p/%s/p2p-circuit", (n/250)%250, n%250+1, "QmNnooDu7bfjPFoTZYxMNLWUQJyrVwtbZg5gBMjTezGAJN"))
	}
	panic(class)
}

func isPublicClass(c string) bool    { return c == "pub4" || c == "pub6" || c == "relay" }
func isPublicNonRelay(c string) bool { return c == "pub4" || c == "pub6" }

type duPeer struct {
	ID    int      `json:"id"`
	Addrs []string `json:"addrs"` // classes
	Knows []int    `json:"knows"` // indices into the same side's peer list
	LatMs int      `json:"lat_ms"`
	Val   int      `json:"val,omitempty"`
	Provs []int    `json:"provs,omitempty"`
	XProv []int    `json:"xprovs,omitempty"` // providers named from the OTHER network's peer list (same provider known to both DHTs)
	Req   string   `json:"req,omitempty"`    // "" ok | fail
}

type duSc struct {
	K        int      `json:"k"`
	Wan      []duPeer `json:"wan"`
	Lan      []duPeer `json:"lan"`
	WanSeeds []int    `json:"wan_seeds"`
	LanSeeds []int    `json:"lan_seeds"`
	Op       string   `json:"op"`                  // putvalue provide getvalue findpeer findprov wanlookup
	WanFault string   `json:"wan_fault,omitempty"` // writes: "" | newer-local (the WAN DHT already holds a better record: PutValue fails there) | no-providers (WAN built with DisableProviders: Provide fails there)
	Key      int      `json:"key"`
	Target   int      `json:"target"` // findpeer: index into wan (even) or lan (odd) peers
	Count    int      `json:"count"`
	HostAddr []string `json:"host_addrs"`
	LocalWan int      `json:"local_wan,omitempty"` // getvalue: rank of a record the WAN DHT holds locally (0: none)
	LocalLan int      `json:"local_lan,omitempty"` // ... the LAN DHT
}

type duValidator struct{}

func duParse(v []byte) (int, string, bool) {
	parts := strings.SplitN(string(v), "|", 3)
	if len(parts) != 3 {
		return 0, "", false
	}
	r, err := strconv.Atoi(parts[0])
	return r, parts[1], err == nil
}

func (duValidator) Validate(key string, value []byte) error {
	_, tag, ok := duParse(value)
	if !ok || "/v/"+tag != key {
		return errors.New("invalid")
	}
	return nil
}

func (duValidator) Select(key string, vals [][]byte) (int, error) {
	best := 0
	for i := range vals {
		ri, _, _ := duParse(vals[i])
		rb, _, _ := duParse(vals[best])
		if ri > rb {
			best = i
		}
	}
	return best, nil
}

type duSide struct {
	name  string
	other []duPeer
	peers []duPeer
	sim   *verifnet.Sim
	idx   map[peer.ID]int
}

func (sd *duSide) respond(sc *duSc, key string) func(p peer.ID, n int, req *pb.Message) verifnet.Reply {
	pp := dupp()
	return func(p peer.ID, n int, req *pb.Message) verifnet.Reply {
		i, ok := sd.idx[p]
		if !ok {
			return verifnet.Reply{Fail: true, Latency: time.Millisecond}
		}
		dp := sd.peers[i]
		lat := time.Duration(dp.LatMs) * time.Millisecond
		if dp.Req == "fail" {
			return verifnet.Reply{Fail: true, Latency: lat}
		}
		if dp.Req == "silent" {
			return verifnet.Reply{Silent: true}
		}
		resp := &pb.Message{Type: req.Type, Key: req.Key}
		mk := func(j int) *pb.Message_Peer {
			q := sd.peers[j%len(sd.peers)]
			mp := &pb.Message_Peer{Id: []byte(pp.IDs[q.ID])}
			for a, c := range q.Addrs {
				mp.Addrs = append(mp.Addrs, duAddr(c, q.ID*3+a).Bytes())
			}
			return mp
		}
		switch req.Type {
		case pb.Message_FIND_NODE, pb.Message_GET_VALUE, pb.Message_GET_PROVIDERS:
			tk := sha256.Sum256(req.Key)
			ks := append([]int{}, dp.Knows...)
			sort.Slice(ks, func(a, b int) bool {
				return verifsim.XorLess(tk, pp.Kad[sd.peers[ks[a]%len(sd.peers)].ID], pp.Kad[sd.peers[ks[b]%len(sd.peers)].ID])
			})
			if len(ks) > sc.K {
				ks = ks[:sc.K]
			}
			for _, j := range ks {
				resp.CloserPeers = append(resp.CloserPeers, mk(j))
			}
		}
		switch req.Type {
		case pb.Message_GET_VALUE:
			tag := strings.TrimPrefix(string(req.Key), "/v/")
			switch {
			case dp.Val > 0:
				resp.Record = &recpb.Record{Key: req.Key, Value: []byte(fmt.Sprintf("%d|%s|%s", dp.Val, tag, sd.name))}
			case dp.Val == -1: // a value the validator rejects for the key
				resp.Record = &recpb.Record{Key: req.Key, Value: []byte(fmt.Sprintf("9|other%s|INVALID", tag))}
			case dp.Val == -2: // a record filed under another key whose value would be the best for the requested key
				resp.Record = &recpb.Record{Key: []byte("/v/elsewhere"), Value: []byte(fmt.Sprintf("9|%s|MISKEYED", tag))}
			}
		case pb.Message_GET_PROVIDERS:
			for _, j := range dp.Provs {
				resp.ProviderPeers = append(resp.ProviderPeers, mk(j))
			}
			for _, j := range dp.XProv {
				if len(sd.other) > 0 {
					q := sd.other[j%len(sd.other)]
					resp.ProviderPeers = append(resp.ProviderPeers, &pb.Message_Peer{Id: []byte(pp.IDs[q.ID]), Addrs: [][]byte{duAddr("pub4", q.ID).Bytes()}})
				}
			}
		case pb.Message_PUT_VALUE:
			resp.Record = req.Record
		}
		return verifnet.Reply{Latency: lat, Resp: resp}
	}
}

func TestVerif_C15_Dual(t *testing.T) {
	verifsim.RunCheck(t, dualCheck("C15", "dual", []string{"putvalue", "provide", "getvalue", "findpeer", "findprov", "wanlookup"}))
}

// C08, dual client: the merged provider stream of the WAN and LAN searches under the C08 rules (only reported providers, no
// repeats, at most count), on the same generator restricted to FindProvidersAsync.
func TestVerif_C08_DualMerge(t *testing.T) {
	c := dualCheck("C08", "dual-merge", []string{"findprov"})
	c.Rule = "rapid: the dual DHT of the C15 generator (dual.New over two simulated networks, 0-12 peers each, providers named by responders of either side, also across sides) restricted to FindProvidersAsync with count 0/1/2/5; " +
		"oracle: every yielded peer was named as provider in an answer one of the two searches received, no peer is yielded twice, at most count peers in total, the channel is closed; " +
		"non-trivial = providers named on both sides and more distinct providers named than count"
	inner := c.Run
	c.Run = func(t *testing.T, sc duSc) verifsim.Result {
		res := inner(t, sc)
		for i := range res.Violations {
			res.Violations[i].Signature = strings.Replace(res.Violations[i].Signature, "C15/", "C08/dual/", 1)
		}
		w, l := map[int]bool{}, map[int]bool{}
		for _, p := range sc.Wan {
			if p.Req != "fail" {
				for _, j := range p.Provs {
					w[sc.Wan[j%len(sc.Wan)].ID] = true
				}
				for _, j := range p.XProv {
					if len(sc.Lan) > 0 {
						w[sc.Lan[j%len(sc.Lan)].ID] = true
					}
				}
			}
		}
		for _, p := range sc.Lan {
			if p.Req != "fail" {
				for _, j := range p.Provs {
					l[sc.Lan[j%len(sc.Lan)].ID] = true
				}
				for _, j := range p.XProv {
					if len(sc.Wan) > 0 {
						l[sc.Wan[j%len(sc.Wan)].ID] = true
					}
				}
			}
		}
		all := map[int]bool{}
		for k := range w {
			all[k] = true
		}
		for k := range l {
			all[k] = true
		}
		res.NonTrivial = len(sc.WanSeeds) > 0 && len(sc.LanSeeds) > 0 && len(w) > 0 && len(l) > 0 && sc.Count > 0 && len(all) > sc.Count
		return res
	}
	verifsim.RunCheck(t, c)
}

func dualCheck(prop, part string, ops []string) verifsim.Check[duSc] {
	return verifsim.Check[duSc]{
		Property: prop, Part: part,
		Rule: "rapid: a dual DHT built with dual.New over one fake host and two simulated networks (WAN, LAN; 0-12 peers each, disjoint) whose peers carry addresses of classes known by construction (public v4/v6, RFC1918, ULA, link-local, " +
			"loopback, relay-via-public, none); WAN/LAN routing tables independently empty or seeded; host address sets mixing the classes; operations PutValue, Provide, GetValue, FindPeer, FindProvidersAsync, and a WAN lookup; oracle: writes go to " +
			"the WAN network iff the WAN table is non-empty, GetValue prefers the WAN result, FindPeer returns the union, provider search yields no repeats and <= count, WAN requests only go to seeds, the target, or peers heard with a public non-relay " +
			"address, the peerstore holds no non-public address for WAN-only peers, WAN ADD_PROVIDER carries only public addresses and LAN ones no loopback; non-trivial = both networks populated or mixed address classes in answers",
		Gen: func(t *rapid.T) duSc {
			sc := duSc{K: rapid.IntRange(1, 4).Draw(t, "k"), Key: rapid.IntRange(0, 60).Draw(t, "key")}
			sc.Op = rapid.SampledFrom(ops).Draw(t, "op")
			side := func(label string, base int) []duPeer {
				n := rapid.IntRange(0, 12).Draw(t, label+"N")
				ps := make([]duPeer, n)
				for i := range ps {
					ps[i] = duPeer{ID: base + rapid.IntRange(0, 99).Draw(t, label+"id")*13%1000 + i*1000%1000, LatMs: rapid.IntRange(1, 2000).Draw(t, label+"lat")}
					ps[i].ID = base + i*37 + rapid.IntRange(0, 30).Draw(t, label+"idj")
					ps[i].Addrs = rapid.SliceOfNDistinct(rapid.SampledFrom(duClasses), 0, 3, func(s string) string { return s }).Draw(t, label+"addrs")
					ps[i].Knows = rapid.SliceOfN(rapid.IntRange(0, n-1), 0, 6).Draw(t, label+"knows")
					ps[i].Val = rapid.SampledFrom([]int{0, 0, 1, 2, 3}).Draw(t, label+"val")
					ps[i].Provs = rapid.SliceOfN(rapid.IntRange(0, n-1), 0, 3).Draw(t, label+"provs")
					ps[i].XProv = rapid.SliceOfN(rapid.IntRange(0, 11), 0, 2).Draw(t, label+"xprovs")
					if rapid.IntRange(0, 7).Draw(t, label+"fail") == 0 {
						ps[i].Req = "fail"
					}
				}
				return ps
			}
			sc.Wan = side("wan", 0)
			sc.Lan = side("lan", 2000)
			if sc.Op == "searchvalue" {
				// some responders hold invalid or mis-keyed records
				for _, ps := range [][]duPeer{sc.Wan, sc.Lan} {
					for i := range ps {
						if verifsim.Chance(t, "badRecord", 20) {
							ps[i].Val = rapid.SampledFrom([]int{-1, -2}).Draw(t, "badVal")
						}
					}
				}
			}
			if len(sc.Wan) > 0 && rapid.IntRange(0, 3).Draw(t, "wanSeeded") != 0 {
				sc.WanSeeds = rapid.SliceOfNDistinct(rapid.IntRange(0, len(sc.Wan)-1), 1, min(3, len(sc.Wan)), func(i int) int { return i }).Draw(t, "wanSeeds")
			}
			if len(sc.Lan) > 0 && rapid.IntRange(0, 3).Draw(t, "lanSeeded") != 0 {
				sc.LanSeeds = rapid.SliceOfNDistinct(rapid.IntRange(0, len(sc.Lan)-1), 1, min(3, len(sc.Lan)), func(i int) int { return i }).Draw(t, "lanSeeds")
			}
			sc.Target = rapid.IntRange(0, 23).Draw(t, "target")
			sc.Count = rapid.SampledFrom([]int{0, 1, 2, 5}).Draw(t, "count")
			if (sc.Op == "putvalue" || sc.Op == "provide") && verifsim.Chance(t, "wanFault", 35) {
				sc.WanFault = map[string]string{"putvalue": "newer-local", "provide": "no-providers"}[sc.Op]
			}
			if (sc.Op == "getvalue" || sc.Op == "searchvalue") && verifsim.Chance(t, "localRecords", 40) {
				sc.LocalWan = rapid.IntRange(0, 3).Draw(t, "localWan")
				sc.LocalLan = rapid.IntRange(0, 3).Draw(t, "localLan")
			}
			sc.HostAddr = rapid.SliceOfNDistinct(rapid.SampledFrom([]string{"pub4", "pub6", "priv4", "ula6", "lo4"}), 0, 4, func(s string) string { return s }).Draw(t, "hostAddrs")
			return sc
		},
		Run: func(t *testing.T, sc duSc) (res verifsim.Result) {
			pp := dupp()
			out := verifsim.Bubble(t, func() {
				self := peer.ID(pp.IDs[duPool-1])
				var haddrs []ma.Multiaddr
				for i, c := range sc.HostAddr {
					haddrs = append(haddrs, duAddr(c, 4000+i))
				}
				h := verifnet.NewHost(self, haddrs)
				defer h.Close()
				wan := &duSide{name: "wan", peers: sc.Wan, other: sc.Lan, sim: verifnet.NewSim(), idx: map[peer.ID]int{}}
				lan := &duSide{name: "lan", peers: sc.Lan, other: sc.Wan, sim: verifnet.NewSim(), idx: map[peer.ID]int{}}
				for _, sd := range []*duSide{wan, lan} {
					for i, p := range sd.peers {
						sd.idx[peer.ID(pp.IDs[p.ID])] = i
					}
				}
				key := "/v/k" + strconv.Itoa(sc.Key)
				mhKey := dukp().IDs[sc.Key]
				wan.sim.Respond = wan.respond(&sc, key)
				lan.sim.Respond = lan.respond(&sc, key)
				h.ConnectFn = func(ctx context.Context, pi peer.AddrInfo) error {
					if err := verifnet.WaitContext(ctx, 5*time.Millisecond); err != nil {
						return err
					}
					_, a := wan.idx[pi.ID]
					_, b := lan.idx[pi.ID]
					if !a && !b {
						return errors.New("no route")
					}
					h.Net().SetConnected(pi.ID, true)
					return nil
				}
				common := []dht.Option{dht.DisableAutoRefresh(), dht.BucketSize(sc.K), dht.Validator(record.NamespacedValidator{"v": duValidator{}}), dht.Mode(dht.ModeClient)}
				lanDS := dssync.MutexWrap(ds.NewMapDatastore())
				wanOpts := []dht.Option{dht.ProtocolPrefix("/simwan"), dht.WithCustomMessageSender(func(host.Host, []protocol.ID) pb.MessageSenderWithDisconnect { return wan.sim })}
				if sc.WanFault == "no-providers" {
					wanOpts = append(wanOpts, dht.DisableProviders())
				}
				d, err := New(h,
					DHTOption(common...),
					WanDHTOption(wanOpts...),
					LanDHTOption(dht.Datastore(lanDS), dht.ProtocolPrefix("/simlan"), dht.WithCustomMessageSender(func(host.Host, []protocol.ID) pb.MessageSenderWithDisconnect { return lan.sim })))
				if err != nil {
					res.Fail("constructs", "C15/new/error", "%v", err)
					return
				}
				defer d.Close()
				seed := func(sd *duSide, rtd *dht.IpfsDHT, seeds []int, g int) {
					for n, si := range seeds {
						id := peer.ID(pp.IDs[sd.peers[si].ID])
						h.Net().AddConn(id, duAddr("pub4", g*100+n*7+sd.peers[si].ID))
						rtd.RoutingTable().TryAddPeer(id, true, false)
					}
				}
				if sc.Op == "getvalue" || sc.Op == "searchvalue" {
					// records held locally (written while the tables are still empty: nothing goes out)
					if sc.LocalWan > 0 {
						_ = d.WAN.PutValue(context.Background(), key, []byte(fmt.Sprintf("%d|k%d|localwan", sc.LocalWan, sc.Key)))
					}
					if sc.LocalLan > 0 {
						_ = d.LAN.PutValue(context.Background(), key, []byte(fmt.Sprintf("%d|k%d|locallan", sc.LocalLan, sc.Key)))
					}
				}
				seed(wan, d.WAN, sc.WanSeeds, 1)
				seed(lan, d.LAN, sc.LanSeeds, 2)
				wanActive := d.WAN.RoutingTable().Size() > 0
				time.Sleep(time.Second)
				ctx, cancel := context.WithTimeout(context.Background(), 20*time.Minute)
				defer cancel()
				c := cid.NewCidV1(cid.Raw, mh.Multihash(mhKey))
				count := func(sim *verifnet.Sim, typ pb.Message_MessageType) int {
					n := 0
					for _, e := range sim.Log() {
						if e.Kind != "dial" && e.Type == typ {
							n++
						}
					}
					return n
				}
				var target peer.ID
				switch sc.Op {
				case "putvalue":
					if sc.WanFault == "newer-local" {
						// the WAN DHT already holds a better record for the key: the dual PutValue below fails on the WAN side
						_ = d.WAN.PutValue(ctx, key, []byte(fmt.Sprintf("9|k%d|newer", sc.Key)))
						time.Sleep(time.Minute)
					}
					wanActive = d.WAN.RoutingTable().Size() > 0 // (the preparatory put may have evicted failing WAN peers)
					w0, l0 := count(wan.sim, pb.Message_PUT_VALUE), count(lan.sim, pb.Message_PUT_VALUE)
					perr := d.PutValue(ctx, key, []byte(fmt.Sprintf("5|k%d|put", sc.Key)))
					time.Sleep(time.Minute)
					w, l := count(wan.sim, pb.Message_PUT_VALUE)-w0, count(lan.sim, pb.Message_PUT_VALUE)-l0
					if (wanActive && l > 0) || (!wanActive && w > 0) {
						res.Fail("write-routing", "C15/putvalue/wrong-network", "WAN table non-empty=%v (WAN-side fault %q, PutValue err=%v) but PUT_VALUE counts WAN=%d LAN=%d", wanActive, sc.WanFault, perr, w, l)
					}
					if wanActive {
						// the LAN DHT's own datastore must not have received the record
						if qr, err := lanDS.Query(ctx, dsq.Query{}); err == nil {
							for e := range qr.Next() {
								rec := new(recpb.Record)
								if proto.Unmarshal(e.Value, rec) == nil && string(rec.GetKey()) == key {
									res.Fail("write-routing", "C15/putvalue/stored-in-lan", "WAN table non-empty (WAN-side fault %q, PutValue err=%v) but the LAN DHT stored the record locally: %q", sc.WanFault, perr, rec.GetValue())
								}
							}
							qr.Close()
						}
					}
				case "provide":
					perr := d.Provide(ctx, c, true)
					time.Sleep(time.Minute)
					w, l := count(wan.sim, pb.Message_ADD_PROVIDER), count(lan.sim, pb.Message_ADD_PROVIDER)
					if (wanActive && l > 0) || (!wanActive && w > 0) {
						res.Fail("write-routing", "C15/provide/wrong-network", "WAN table non-empty=%v (WAN-side fault %q, Provide err=%v) but ADD_PROVIDER counts WAN=%d LAN=%d", wanActive, sc.WanFault, perr, w, l)
					}
					if wanActive && sc.WanFault == "no-providers" {
						if ps, _ := d.LAN.ProviderStore().GetProviders(ctx, mh.Multihash(mhKey)); len(ps) > 0 {
							res.Fail("write-routing", "C15/provide/stored-in-lan", "WAN table non-empty and the WAN Provide failed (%v) but the LAN DHT recorded the local node as provider", perr)
						}
					}
				case "getvalue":
					got, err := d.GetValue(ctx, key)
					best := func(sim *verifnet.Sim) []byte {
						var b []byte
						for _, e := range sim.Log() {
							if e.Kind == "request" && e.Type == pb.Message_GET_VALUE && e.Outcome == "ok" && e.Resp.GetRecord() != nil {
								v := e.Resp.GetRecord().GetValue()
								if (duValidator{}).Validate(key, v) != nil {
									continue
								}
								rv, _, _ := duParse(v)
								rb, _, _ := duParse(b)
								if b == nil || rv > rb {
									b = v
								}
							}
						}
						return b
					}
					wv, lv := best(wan.sim), best(lan.sim)
					rank := func(v []byte) int { r, _, _ := duParse(v); return r }
					// a record held locally takes part in that side's search like any answer
					if sc.LocalWan > 0 && (wv == nil || sc.LocalWan > rank(wv)) {
						wv = []byte(fmt.Sprintf("%d|k%d|localwan", sc.LocalWan, sc.Key))
					}
					if sc.LocalLan > 0 && (lv == nil || sc.LocalLan > rank(lv)) {
						lv = []byte(fmt.Sprintf("%d|k%d|locallan", sc.LocalLan, sc.Key))
					}
					sameRank := func(a, b []byte) bool { // (values of one rank tie under the validator: any of them)
						return (duValidator{}).Validate(key, a) == nil && rank(a) == rank(b)
					}
					if sc.LocalWan > 0 || sc.LocalLan > 0 {
						res.Class("getvalue-with-local-record")
					}
					switch {
					case wv != nil && (sc.LocalWan > 0 || sc.LocalLan > 0):
						if err != nil || !sameRank(got, wv) {
							res.Fail("getvalue-prefers-wan", "C15/getvalue/not-wan", "the WAN search (local record rank %d) found %q but dual returned %q (%v); LAN had %q", sc.LocalWan, wv, got, err, lv)
						}
					case lv != nil && wv == nil && (sc.LocalWan > 0 || sc.LocalLan > 0):
						if err != nil || !sameRank(got, lv) {
							res.Fail("getvalue-falls-back", "C15/getvalue/not-lan", "WAN found nothing, the LAN search (local record rank %d) found %q but dual returned %q (%v)", sc.LocalLan, lv, got, err)
						}
					case wv != nil:
						if err != nil || !bytes.Equal(got, wv) {
							res.Fail("getvalue-prefers-wan", "C15/getvalue/not-wan", "the WAN lookup found %q but dual returned %q (%v); LAN had %q", wv, got, err, lv)
						}
					case lv != nil:
						// the LAN lookup may have been answered only partially when it was not cancelled: any valid LAN value of the best rank delivered is expected
						if err != nil || !bytes.Equal(got, lv) {
							res.Fail("getvalue-falls-back", "C15/getvalue/not-lan", "WAN found nothing, the LAN lookup found %q but dual returned %q (%v)", lv, got, err)
						}
					default:
						if err == nil {
							res.Fail("getvalue-error", "C15/getvalue/invented", "neither network delivered a valid record but dual returned %q", got)
						}
					}
				case "findpeer":
					var sd *duSide
					if sc.Target%2 == 0 && len(sc.Wan) > 0 {
						sd = wan
					} else if len(sc.Lan) > 0 {
						sd = lan
					}
					if sd == nil {
						break
					}
					target = peer.ID(pp.IDs[sd.peers[(sc.Target/2)%len(sd.peers)].ID])
					got, _ := d.FindPeer(ctx, target)
					wi, _ := d.WAN.FindPeer(ctx, target)
					li, _ := d.LAN.FindPeer(ctx, target)
					want := map[string]bool{}
					for _, a := range append(append([]ma.Multiaddr{}, wi.Addrs...), li.Addrs...) {
						want[a.String()] = true
					}
					have := map[string]bool{}
					for _, a := range got.Addrs {
						if have[a.String()] {
							res.Fail("findpeer-union", "C15/findpeer/duplicate", "duplicate address in FindPeer result")
						}
						have[a.String()] = true
					}
					// the peerstore may learn more between the calls: the dual result must be within the later union and cover what each side returned to it
					for a := range have {
						if !want[a] {
							res.Fail("findpeer-union", "C15/findpeer/extra", "address %s returned but known to neither DHT", a)
						}
					}
					if got.ID != target {
						res.Fail("findpeer-id", "C15/findpeer/id", "FindPeer returned id %s", got.ID)
					}
				case "findprov":
					seen := map[peer.ID]bool{}
					n := 0
					hung := false
					for p := range verifsim.Bounded(d.FindProvidersAsync(ctx, c, sc.Count), 3*time.Hour, &hung) {
						if seen[p.ID] {
							res.Fail("findprov-no-repeat", "C15/findprov/repeat", "provider yielded twice")
						}
						seen[p.ID] = true
						n++
					}
					if hung {
						res.Fail("channel-closed", "C15/findprov/channel-not-closed", "the provider channel was not closed within 3 h of virtual time")
					}
					named := map[peer.ID]bool{}
					for _, sm := range []*verifnet.Sim{wan.sim, lan.sim} {
						for _, e := range sm.Log() {
							if e.Kind == "request" && e.Outcome == "ok" && e.Resp != nil {
								for _, pr := range e.Resp.GetProviderPeers() {
									named[peer.ID(pr.Id)] = true
								}
							}
						}
					}
					for id := range seen {
						if !named[id] {
							res.Fail("findprov-only-reported", "C15/findprov/unreported", "provider yielded that no received answer named")
						}
					}
					if sc.Count > 0 && n > sc.Count {
						res.Fail("findprov-count", "C15/findprov/over-count", "%d providers yielded, count %d", n, sc.Count)
					}
					// ... and then stops asking further peers: once count providers were yielded (the channel is closed then) no
					// further GET_PROVIDERS request goes out on either network
					if sc.Count > 0 && n == sc.Count {
						closedAt := wan.sim.Now()
						time.Sleep(time.Minute)
						for _, sm := range []*duSide{wan, lan} {
							for _, e := range sm.sim.Log() {
								if e.Kind == "request" && e.Type == pb.Message_GET_PROVIDERS && e.Start > closedAt {
									res.Fail("findprov-stops", "C15/findprov/asks-after-count", "count %d reached and the channel closed at %v, yet the %s DHT sent GET_PROVIDERS to a further peer at %v", sc.Count, closedAt, sm.name, e.Start)
									break
								}
							}
						}
						res.Class("findprov-count-reached")
					}
				case "searchvalue":
					// C04 on the dual client: the two halves' streams merged through the validator
					var stream [][]byte
					ch, serr := d.SearchValue(ctx, key, dht.Quorum(0))
					if serr == nil {
						hung := false
						for v := range verifsim.Bounded(ch, 3*time.Hour, &hung) {
							stream = append(stream, v)
						}
						if hung {
							res.Fail("channel-closed", "C15/searchvalue/channel-not-closed", "the value channel was not closed within 3 h of virtual time")
						}
					}
					rank := func(v []byte) int { r, _, _ := duParse(v); return r }
					if os.Getenv("VERIF_DEBUG") != "" {
						for _, half := range []*dht.IpfsDHT{d.WAN, d.LAN} {
							hc, herr := half.SearchValue(ctx, key, dht.Quorum(0))
							var hv []string
							if herr == nil {
								for v := range hc {
									hv = append(hv, string(v))
								}
							}
							fmt.Fprintf(os.Stderr, "DEBUG half stream %q err %v; dual stream %q err %v\n", hv, herr, stream, serr)
						}
					}
					for i, v := range stream {
						if (duValidator{}).Validate(key, v) != nil {
							res.Fail("yields-valid", "C04/dual/yield-invalid", "the dual SearchValue yielded %q, which the validator rejects for %s", v, key)
						}
						if strings.Contains(string(v), "MISKEYED") {
							res.Fail("yields-keyed", "C04/dual/yield-miskeyed", "the dual SearchValue yielded the value of a record filed under another key: %q", v)
						}
						if i > 0 && rank(v) <= rank(stream[i-1]) {
							res.Fail("strictly-improving", "C04/dual/stream-not-improving", "the dual SearchValue yielded %q after %q", v, stream[i-1])
						}
					}
					// The two streams are merged by routinghelpers.Parallel (an external module), whose search ends as soon as ONE half
					// has finished after yielding something - the other half is cancelled then. So exactly one thing is certain about
					// what was "supplied before the search ended": everything the half that finished first delivered or held locally.
					// Which half that was is not observable; the final value is therefore held to the weaker of the two halves' bests
					// (a half that supplied nothing valid never ends the search: then the other half's best is the bound).
					halfBest := func(sm *verifnet.Sim, local int) int {
						b := local
						for _, e := range sm.Log() {
							if e.Kind == "request" && e.Type == pb.Message_GET_VALUE && e.Outcome == "ok" && e.Resp.GetRecord() != nil && string(e.Resp.GetRecord().GetKey()) == key {
								if v := e.Resp.GetRecord().GetValue(); (duValidator{}).Validate(key, v) == nil && rank(v) > b {
									b = rank(v)
								}
							}
						}
						return b
					}
					bw, bl := halfBest(wan.sim, sc.LocalWan), halfBest(lan.sim, sc.LocalLan)
					best := min(bw, bl)
					if bw == 0 || bl == 0 {
						best = max(bw, bl)
					}
					switch {
					case best > 0 && len(stream) == 0:
						res.Fail("final-best", "C04/dual/final-missing", "valid records were supplied (WAN half up to rank %d, LAN half up to rank %d) but the dual SearchValue yielded nothing (err %v)", bw, bl, serr)
					case best > 0 && rank(stream[len(stream)-1]) < best:
						res.Fail("final-best", "C04/dual/final-not-best", "the dual SearchValue ended on %q although the WAN half was supplied rank %d and the LAN half rank %d", stream[len(stream)-1], bw, bl)
					case max(bw, bl) == 0 && len(stream) > 0:
						res.Fail("not-found", "C04/dual/invented", "no valid record was supplied but the dual SearchValue yielded %q", stream)
					}
					if len(stream) > 0 && rank(stream[len(stream)-1]) > max(bw, bl) {
						res.Fail("only-supplied", "C04/dual/invented", "the dual SearchValue ended on %q, better than anything either half was supplied (ranks %d / %d)", stream[len(stream)-1], bw, bl)
					}
					if best > 0 {
						res.Class("searchvalue-with-valid-record")
					}
				case "wanlookup":
					_, _ = d.WAN.GetClosestPeers(ctx, mhKey)
					_, _ = d.LAN.GetClosestPeers(ctx, mhKey)
				}
				time.Sleep(2 * time.Minute)
				// --- address scoping over the whole run
				wanSeed := map[peer.ID]bool{}
				for _, si := range sc.WanSeeds {
					wanSeed[peer.ID(pp.IDs[sc.Wan[si].ID])] = true
				}
				heardPublic := map[peer.ID]bool{}
				crossNamed := map[peer.ID]bool{} // WAN peers the LAN network named with a public address (then the shared peerstore knows a public address)
				for _, e := range lan.sim.Log() {
					if e.Kind != "dial" && e.Outcome == "ok" && e.Resp != nil {
						for _, mp := range e.Resp.ProviderPeers {
							if _, ok := wan.idx[peer.ID(mp.Id)]; ok {
								crossNamed[peer.ID(mp.Id)] = true
								heardPublic[peer.ID(mp.Id)] = true
							}
						}
					}
				}
				for _, e := range wan.sim.Log() {
					if e.Kind == "dial" {
						continue
					}
					if !wanSeed[e.Peer] && e.Peer != target && !heardPublic[e.Peer] {
						res.Fail("wan-follows-public-only", "C15/wan/followed-non-public-referral", "WAN request (%v) sent to a peer that is no seed, not the target and was never heard with a public non-relay address (its classes: %v)", e.Type, sc.Wan[wan.idx[e.Peer]].Addrs)
						break
					}
					if e.Outcome == "ok" && e.Resp != nil {
						for _, mp := range append(append([]*pb.Message_Peer{}, e.Resp.CloserPeers...), e.Resp.ProviderPeers...) {
							if i, ok := wan.idx[peer.ID(mp.Id)]; ok {
								for _, cl := range sc.Wan[i].Addrs {
									if isPublicNonRelay(cl) {
										heardPublic[peer.ID(mp.Id)] = true
									}
								}
							}
						}
					}
					if e.Type == pb.Message_ADD_PROVIDER {
						for _, mp := range e.Req.ProviderPeers {
							for _, a := range mp.Addresses() {
								if !classPublic(a) {
									res.Fail("wan-advertises-public-only", "C15/wan/advertised-non-public", "WAN ADD_PROVIDER advertises %s", a)
								}
							}
						}
					}
				}
				for _, e := range lan.sim.Log() {
					if e.Kind != "dial" && e.Type == pb.Message_ADD_PROVIDER {
						for _, mp := range e.Req.ProviderPeers {
							for _, a := range mp.Addresses() {
								if strings.HasPrefix(a.String(), "/ip4/127.") || strings.HasPrefix(a.String(), "/ip6/::1") {
									res.Fail("lan-no-loopback", "C15/lan/advertised-loopback", "LAN ADD_PROVIDER advertises %s", a)
								}
							}
						}
					}
				}
				for _, p := range sc.Wan {
					id := peer.ID(pp.IDs[p.ID])
					if wanSeed[id] || crossNamed[id] {
						continue // seeds have a harness-made connection address; cross-named peers are also known from LAN messages
					}
					for _, a := range h.Peerstore().Addrs(id) {
						if !classPublic(a) {
							res.Fail("wan-stores-public-only", "C15/wan/stored-non-public", "peerstore holds %s for a peer only known from WAN DHT messages", a)
						}
					}
				}
			})
			if !out.OK() {
				res.Fail("terminates", "C15/dual/hang-or-panic", "%s %s\n%s", out.Deadlock, out.Panic, out.Stacks)
			}
			mixed := false
			for _, p := range append(append([]duPeer{}, sc.Wan...), sc.Lan...) {
				pub, non := false, false
				for _, c := range p.Addrs {
					if isPublicNonRelay(c) {
						pub = true
					} else {
						non = true
					}
				}
				if pub && non {
					mixed = true
				}
			}
			res.NonTrivial = (len(sc.WanSeeds) > 0 && len(sc.LanSeeds) > 0) || mixed
			res.Class("op-" + sc.Op)
			if len(sc.WanSeeds) > 0 {
				res.Class("wan-active")
			} else {
				res.Class("wan-empty")
			}
			return
		},
	}
}

func classPublic(a ma.Multiaddr) bool {
	s := a.String()
	return strings.HasPrefix(s, "/ip4/8.") || strings.HasPrefix(s, "/ip6/2001:4860:")
}

// the same generator and oracle driven by Go's coverage-guided fuzzer (thorough tier)
func FuzzVerif_C15_Dual(f *testing.F) {
	verifsim.RunFuzz(f, dualCheck("C15", "dual", []string{"putvalue", "provide", "getvalue", "findpeer", "findprov", "wanlookup"}), "TestVerif_C15_Dual")
}
