//go:build verif

package fullrt

// C03 on the accelerated client: every routing operation returns within bounded
// time once the contacted peers have answered, failed or timed out, returns
// promptly after cancellation, closes its channels, never panics, and leaves
// nothing running after its own timeouts plus Close.

import (
	"context"
	"fmt"
	"strings"
	"testing"
	"time"

	"github.com/ipfs/go-cid"
	kaddht "github.com/libp2p/go-libp2p-kad-dht"
	"github.com/libp2p/go-libp2p-kad-dht/internal/verifnet"
	"github.com/libp2p/go-libp2p-kad-dht/internal/verifsim"
	pb "github.com/libp2p/go-libp2p-kad-dht/pb"
	record "github.com/libp2p/go-libp2p-record"
	"github.com/libp2p/go-libp2p/core/peer"
	ma "github.com/multiformats/go-multiaddr"
	mh "github.com/multiformats/go-multihash"
	"pgregory.net/rapid"
)

type frtOpResp struct {
	LatMs  int    `json:"lat_ms"`
	Req    string `json:"req,omitempty"` // "" ok | fail | silent
	Val    int    `json:"val,omitempty"`
	Provs  []int  `json:"provs,omitempty"`
	Knows  bool   `json:"knows_target,omitempty"` // FIND_NODE: the answer lists the requested peer with an address
	LateMs int    `json:"late_ms,omitempty"`      // an answer that is at most this far away when the request's context ends is delivered all the same
}

type frtOpSc struct {
	K          int           `json:"k"`
	Key        int           `json:"key"`
	Peers      []crawledPeer `json:"peers"`
	Resp       []frtOpResp   `json:"resp"`
	Op         string        `json:"op"` // findpeer getvalue searchvalue findprovasync putvalue provide providemany putmany
	Quorum     int           `json:"quorum,omitempty"`
	Count      int           `json:"count,omitempty"`
	CancelMs   int           `json:"cancel_ms,omitempty"`
	Target     int           `json:"target,omitempty"`       // findpeer: index into peers, or beyond = unknown peer
	Abandon    bool          `json:"abandon,omitempty"`      // channel operations: the consumer stops reading the moment it cancels
	SlowReadMs int           `json:"slow_read_ms,omitempty"` // channel operations: the consumer pauses this long after every value it reads (the producer is then usually blocked handing over the next one)
}

func TestVerif_C03_FullRT(t *testing.T) {
	verifsim.RunCheck(t, verifsim.Check[frtOpSc]{
		Property: "C03", Part: "fullrt",
		Rule: "rapid: operation in {FindPeer, GetValue, SearchValue (quorum 0/1/2/16), FindProvidersAsync (count 0/1/2/5), PutValue, Provide, ProvideMany, PutMany} on an accelerated client over a crawl of 1-30 peers (K 1-8) whose " +
			"responders answer after 1-12000 ms (FIND_NODE answers with or without the requested peer; some deliver an answer that was 1-400 ms away when the request's context ended), fail or stay silent (mixes: healthy, mixed, all failing, all silent) x cancellation instant (never, uniform 1-20000 ms, 0-300 ms before a responder's answer is due); under synctest: the call returns within 1 s of virtual time after the last " +
			"contacted peer answered/failed/timed out or after the client's own per-operation timeout, whichever is first, and within 1 s of a cancellation; channels are drained to closure (or abandoned by the consumer the moment it cancels); no panic; 10 min after the return plus Close no goroutine " +
			"of the bubble is alive; non-trivial = a failing or silent peer among the responders, or a cancellation that landed inside the operation",
		Gen: func(t *rapid.T) frtOpSc {
			sc := frtOpSc{K: rapid.SampledFrom([]int{1, 2, 3, 4, 6, 8}).Draw(t, "k"), Key: rapid.IntRange(0, 50).Draw(t, "key")}
			sc.Peers = genCrawled(t, "p", 1, 30)
			mix := rapid.SampledFrom([]string{"healthy", "mixed", "mixed", "mixed", "all-fail", "all-silent"}).Draw(t, "mix")
			sc.Resp = rapid.SliceOfN(rapid.Custom(func(t *rapid.T) frtOpResp {
				r := frtOpResp{LatMs: rapid.SampledFrom([]int{1, 5, 40, 300, 900, 2500, 6000, 12000}).Draw(t, "lat")}
				switch mix {
				case "mixed":
					r.Req = rapid.SampledFrom([]string{"", "", "", "fail", "silent"}).Draw(t, "req")
				case "all-fail":
					r.Req = "fail"
				case "all-silent":
					r.Req = "silent"
				}
				r.Val = rapid.SampledFrom([]int{0, 1, 2, 3, -1}).Draw(t, "val")
				r.Provs = rapid.SliceOfN(rapid.IntRange(0, 7), 0, 3).Draw(t, "provs")
				r.Knows = rapid.Bool().Draw(t, "knowsTarget")
				if verifsim.Chance(t, "late", 35) {
					r.LateMs = rapid.SampledFrom([]int{1, 30, 400}).Draw(t, "lateMs")
				}
				return r
			}), 1, 8).Draw(t, "resp")
			sc.Op = rapid.SampledFrom([]string{"findpeer", "getvalue", "searchvalue", "findprovasync", "putvalue", "provide", "providemany", "putmany"}).Draw(t, "op")
			sc.Quorum = rapid.SampledFrom([]int{0, 1, 2, 16}).Draw(t, "quorum")
			sc.Count = rapid.SampledFrom([]int{0, 1, 2, 5}).Draw(t, "count")
			if verifsim.Chance(t, "cancel", 40) {
				sc.CancelMs = rapid.IntRange(1, 20000).Draw(t, "cancelMs")
				if rapid.Bool().Draw(t, "cancelNearAnswer") {
					// just before (or at) the instant a responder's answer is due
					r := sc.Resp[rapid.IntRange(0, len(sc.Resp)-1).Draw(t, "cancelResp")]
					sc.CancelMs = max(1, r.LatMs-rapid.SampledFrom([]int{0, 1, 20, 300}).Draw(t, "cancelBefore"))
				}
			}
			sc.Target = rapid.IntRange(0, 35).Draw(t, "target")
			if sc.CancelMs == 0 && verifsim.Chance(t, "preCancel", 10) {
				sc.CancelMs = -1 // cancelled before the call
			}
			sc.Abandon = sc.CancelMs > 0 && rapid.Bool().Draw(t, "abandon")
			sc.SlowReadMs = rapid.SampledFrom([]int{0, 0, 40, 700}).Draw(t, "slowRead")
			return sc
		},
		Run: func(t *testing.T, sc frtOpSc) (res verifsim.Result) {
			pp := c16pp()
			idx := map[peer.ID]int{}
			for i, cp := range sc.Peers {
				idx[peer.ID(pp.IDs[cp.ID])] = i
			}
			vkey := fmt.Sprintf("/v/k%d", sc.Key)
			mhKey := c16kp().IDs[sc.Key]
			var started, returned, cancelled, lastEnd time.Duration
			var hung bool
			var opErr error
			var leaked []string
			var perOp time.Duration
			out := verifsim.Bubble(t, func() {
				h := verifnet.NewHost(peer.ID(pp.IDs[c16Pool-1]), []ma.Multiaddr{ma.StringCast("/ip4/8.200.0.1/tcp/1")})
				defer h.Close()
				ids := install(h, sc.Peers)
				sim := verifnet.NewSim()
				sim.Respond = func(p peer.ID, n int, req *pb.Message) verifnet.Reply {
					i, ok := idx[p]
					if !ok {
						return verifnet.Reply{Fail: true, Latency: time.Millisecond}
					}
					r := sc.Resp[i%len(sc.Resp)]
					lat := time.Duration(r.LatMs) * time.Millisecond
					switch r.Req {
					case "fail":
						return verifnet.Reply{Fail: true, Latency: lat}
					case "silent":
						return verifnet.Reply{Silent: true}
					}
					resp := &pb.Message{Type: req.Type, Key: req.Key}
					switch req.Type {
					case pb.Message_FIND_NODE:
						if r.Knows {
							resp.CloserPeers = []*pb.Message_Peer{{Id: req.Key, Addrs: [][]byte{ma.StringCast(fmt.Sprintf("/ip4/8.88.%d.1/tcp/4001", i%250)).Bytes()}}}
						}
					case pb.Message_GET_VALUE:
						resp.Record = frtValueOf(frtValResponder{Val: r.Val}, string(req.Key))
					case pb.Message_PUT_VALUE:
						resp.Record = req.Record
					case pb.Message_GET_PROVIDERS:
						for _, pn := range r.Provs {
							resp.ProviderPeers = append(resp.ProviderPeers, &pb.Message_Peer{Id: []byte(frtProvID(pn)), Addrs: [][]byte{ma.StringCast(fmt.Sprintf("/ip4/8.77.%d.1/tcp/4001", pn)).Bytes()}})
						}
					}
					return verifnet.Reply{Latency: lat, Resp: resp, LateGrace: time.Duration(r.LateMs) * time.Millisecond}
				}
				d, err := newFullRT(h, sc.K, 0, &fakeCrawler{peers: ids}, sim, kaddht.Validator(record.NamespacedValidator{"v": frtValidator{}}))
				if err != nil {
					res.Fail("constructs", "C03/fullrt/new-error", "%v", err)
					return
				}
				perOp = d.timeoutPerOp
				closedD := false
				defer func() {
					if !closedD {
						d.Close()
					}
				}()
				verifsim.Quiesce()
				time.Sleep(time.Second)
				ctx, cancel := context.WithCancel(context.Background())
				defer cancel()
				var abandon <-chan struct{} // nil: the consumer reads until the channel is closed
				if sc.Abandon {
					abandon = ctx.Done()
				}
				done := make(chan struct{})
				started = sim.Now()
				if sc.CancelMs < 0 {
					// the context is already cancelled when the operation is called
					cancelled = started + 1
					cancel()
				}
				go func() {
					defer close(done)
					defer func() {
						if r := recover(); r != nil {
							opErr = fmt.Errorf("PANIC: %v", r)
						}
					}()
					c := cid.NewCidV1(cid.Raw, mh.Multihash(mhKey))
					switch sc.Op {
					case "findpeer":
						var target peer.ID
						if sc.Target < len(sc.Peers) {
							target = peer.ID(pp.IDs[sc.Peers[sc.Target].ID])
						} else {
							target = frtProvID(sc.Target % 8)
						}
						_, opErr = d.FindPeer(ctx, target)
					case "getvalue":
						_, opErr = d.GetValue(ctx, vkey, kaddht.Quorum(sc.Quorum))
					case "searchvalue":
						ch, err := d.SearchValue(ctx, vkey, kaddht.Quorum(sc.Quorum))
						opErr = err
						if err == nil {
						readV:
							for {
								select {
								case _, ok := <-ch:
									if !ok {
										break readV
									}
									if sc.SlowReadMs > 0 {
										select {
										case <-time.After(time.Duration(sc.SlowReadMs) * time.Millisecond):
										case <-abandon:
											break readV
										}
									}
								case <-abandon:
									break readV
								}
							}
						}
					case "findprovasync":
						pch := d.FindProvidersAsync(ctx, c, sc.Count)
					readP:
						for {
							select {
							case _, ok := <-pch:
								if !ok {
									break readP
								}
								if sc.SlowReadMs > 0 {
									select {
									case <-time.After(time.Duration(sc.SlowReadMs) * time.Millisecond):
									case <-abandon:
										break readP
									}
								}
							case <-abandon:
								break readP
							}
						}
					case "putvalue":
						opErr = d.PutValue(ctx, vkey, []byte(fmt.Sprintf("3|k%d|p", sc.Key)))
					case "provide":
						opErr = d.Provide(ctx, c, true)
					case "providemany":
						opErr = d.ProvideMany(ctx, []mh.Multihash{mh.Multihash(mhKey), mh.Multihash(c16kp().IDs[(sc.Key+1)%50])})
					case "putmany":
						opErr = d.PutMany(ctx, []string{vkey}, [][]byte{[]byte(fmt.Sprintf("3|k%d|p", sc.Key))})
					}
				}()
				if sc.CancelMs > 0 {
					select {
					case <-done:
					case <-time.After(time.Duration(sc.CancelMs) * time.Millisecond):
						cancelled = sim.Now()
						cancel()
					}
				}
				select {
				case <-done:
					returned = sim.Now()
				case <-time.After(3 * time.Hour):
					hung = true
					returned = sim.Now()
					cancel()
					return
				}
				for _, e := range sim.Log() {
					if e.Outcome != "pending" && e.End <= returned && e.End > lastEnd {
						lastEnd = e.End
					}
				}
				time.Sleep(10 * time.Minute)
				verifsim.Quiesce()
				d.Close()
				closedD = true
				h.Close()
				verifsim.Quiesce()
				for _, g := range verifsim.Census(true) {
					if strings.Contains(g.Stack, "verifsim.Bubble") || strings.Contains(g.Stack, "synctest.Test") || strings.Contains(g.Stack, "testing.tRunner") {
						continue
					}
					lines := strings.Split(g.Stack, "\n")
					if len(lines) > 11 {
						lines = lines[:11]
					}
					leaked = append(leaked, strings.Join(lines, "\n"))
				}
			})
			op := sc.Op
			switch {
			case out.Panic != "":
				res.Fail("no-panic", "C03/fullrt/"+op+"/panic", "%s", out.Panic)
			case len(res.Violations) > 0:
			case opErr != nil && strings.HasPrefix(opErr.Error(), "PANIC"):
				res.Fail("no-panic", "C03/fullrt/"+op+"/panic", "%v", opErr)
			case hung:
				res.Fail("terminates", "C03/fullrt/"+op+"/hang", "%s did not return within 3 h of virtual time (started %v, cancelled %v)", op, started, cancelled)
			default:
				if cancelled > 0 {
					if returned-cancelled > time.Second+3*time.Duration(sc.SlowReadMs)*time.Millisecond { // (a pausing consumer may be in a pause, and reads what was already handed over)
						res.Fail("cancellation-prompt", "C03/fullrt/"+op+"/slow-cancel", "%s returned %v after its context was cancelled", op, returned-cancelled)
					}
				} else if sc.SlowReadMs == 0 { // (with a pausing consumer the call's duration is the consumer's own)
					// bounded: the last contacted peer's answer/failure/timeout, or the client's own per-operation timeout(s), whichever is first
					last := max(lastEnd, started)
					limit := last + time.Second
					if own := started + 3*perOp + time.Second; own < limit {
						limit = own
					}
					if returned > limit && returned-last > time.Second {
						res.Fail("returns-when-peers-done", "C03/fullrt/"+op+"/idle-wait", "%s returned at %v, %v after the last contacted peer had answered, failed or timed out (%v; per-operation timeout %v)", op, returned, returned-last, last, perOp)
					}
				}
				if len(leaked) > 0 {
					res.Fail("background-ends", "C03/fullrt/"+op+"/goroutine-left-after-close", "%d goroutine(s) still alive 10 min after the operation returned and after Close:\n%s", len(leaked), strings.Join(leaked[:min(2, len(leaked))], "\n\n"))
				} else if out.Deadlock != "" {
					res.Fail("background-ends", "C03/fullrt/"+op+"/bubble-cannot-exit", "%s\n%s", out.Deadlock, out.Stacks)
				}
			}
			faulty := false
			for _, r := range sc.Resp {
				if r.Req != "" {
					faulty = true
				}
			}
			inside := cancelled > 0 && cancelled <= returned
			res.NonTrivial = faulty || inside
			res.Class("op-" + op)
			if inside {
				res.Class("cancelled-inside")
			}
			if faulty {
				res.Class("faulty-peers")
			}
			return
		},
	})
}
