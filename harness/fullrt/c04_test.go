//go:build verif

package fullrt

// C04 on the accelerated client: SearchValue / GetValue over the K nearest
// crawled peers, each a scripted responder with an assigned record.

import (
	"bytes"
	"context"
	"errors"
	"fmt"
	"strconv"
	"strings"
	"testing"
	"time"

	kaddht "github.com/libp2p/go-libp2p-kad-dht"
	"github.com/libp2p/go-libp2p-kad-dht/internal/verifnet"
	"github.com/libp2p/go-libp2p-kad-dht/internal/verifsim"
	pb "github.com/libp2p/go-libp2p-kad-dht/pb"
	record "github.com/libp2p/go-libp2p-record"
	recpb "github.com/libp2p/go-libp2p-record/pb"
	"github.com/libp2p/go-libp2p/core/peer"
	"github.com/libp2p/go-libp2p/core/routing"
	ma "github.com/multiformats/go-multiaddr"
	"pgregory.net/rapid"
)

// values: "<rank>|<tag>|<junk>", valid for key "/v/<tag>"; Select ranks by <rank> only and keeps the first of a tie.
type frtValidator struct{}

func frtParse(v []byte) (int, string, bool) {
	parts := strings.SplitN(string(v), "|", 3)
	if len(parts) != 3 {
		return 0, "", false
	}
	r, err := strconv.Atoi(parts[0])
	if err != nil {
		return 0, "", false
	}
	return r, parts[1], true
}

func (frtValidator) Validate(key string, value []byte) error {
	_, tag, ok := frtParse(value)
	if !ok {
		return errors.New("malformed value")
	}
	if "/v/"+tag != key {
		return errors.New("value not for this key")
	}
	if i := strings.Index(string(value), "exp="); i >= 0 {
		exp, err := strconv.ParseInt(string(value)[i+4:], 10, 64)
		if err == nil && time.Now().Unix() >= exp {
			return errors.New("value expired")
		}
	}
	return nil
}

func frtBetter(a, b []byte) bool {
	ra, _, _ := frtParse(a)
	rb, _, _ := frtParse(b)
	return ra > rb
}

func (frtValidator) Select(key string, vals [][]byte) (int, error) {
	if len(vals) == 0 {
		return 0, errors.New("no values")
	}
	best := 0
	for i := 1; i < len(vals); i++ {
		if frtBetter(vals[i], vals[best]) {
			best = i
		}
	}
	return best, nil
}

type frtValResponder struct {
	LatMs int  `json:"lat_ms"`
	Fail  bool `json:"fail,omitempty"`
	Val   int  `json:"val"`               // 0 none; 1..3 valid record of that rank; -1 invalid; -2 filed under another key; -3 empty value; -4 malformed
	Var   int  `json:"val_var,omitempty"` // other bytes of the same rank
}

type frtValSc struct {
	K          int               `json:"k"`
	Key        int               `json:"key"`
	Peers      []crawledPeer     `json:"peers"`
	Resp       []frtValResponder `json:"resp"`
	Quorum     int               `json:"quorum"`
	Local      int               `json:"local"` // 0 none; 1..4 valid local record of that rank; -5 local record that has expired by the validator's rule
	UseGet     bool              `json:"use_get"`
	CancelMs   int               `json:"cancel_ms,omitempty"`
	Offline    bool              `json:"offline,omitempty"`      // the routing.Offline option is passed
	SlowReadMs int               `json:"slow_read_ms,omitempty"` // SearchValue: the consumer pauses this long after every value it reads
}

func frtValueOf(r frtValResponder, key string) *recpb.Record {
	tag := strings.TrimPrefix(key, "/v/")
	switch {
	case r.Val >= 1:
		junk := ""
		if r.Var > 0 {
			junk = fmt.Sprintf("variant%d", r.Var)
		}
		return &recpb.Record{Key: []byte(key), Value: []byte(fmt.Sprintf("%d|%s|%s", r.Val, tag, junk))}
	case r.Val == -1:
		return &recpb.Record{Key: []byte(key), Value: []byte("5|othertag|")}
	case r.Val == -2:
		return &recpb.Record{Key: []byte("/v/someotherkey"), Value: []byte(fmt.Sprintf("9|%s|MISKEYED", tag))}
	case r.Val == -3:
		return &recpb.Record{Key: []byte(key)}
	case r.Val == -4:
		return &recpb.Record{Key: []byte(key), Value: []byte("garbage")}
	}
	return nil
}

func TestVerif_C04_FullRT(t *testing.T) {
	verifsim.RunCheck(t, verifsim.Check[frtValSc]{
		Property: "C04", Part: "fullrt",
		Rule: "rapid: an accelerated client over a crawl of 1-30 peers, K 1-8; every crawled peer is a scripted responder (latency 1-3000 ms, failing, serving a valid record of rank 1-3 in up to three byte variants, an invalid " +
			"value, a record filed under another key, an empty or malformed value, or nothing); local storage empty / valid rank / a record that has since expired by the validator's rule; quorum 0/1/2/16, with or without the Offline option; SearchValue (the consumer reads at once or pauses 1-3000 ms after every value; one case in five is a burst of valid records of different rank within 200 ms read by a pausing consumer) or GetValue; optional " +
			"cancellation; oracle = every yielded value validates now, the stream is strictly improving under Select, the final value ranks at least as good as every valid value of local storage and of every answer processed before the " +
			"stream ended (delivered before that instant, or the only thing that happened at it), nothing valid supplied => not-found; non-trivial = values of different rank among the K nearest, or an expired local record",
		Gen: func(t *rapid.T) frtValSc {
			sc := frtValSc{K: rapid.SampledFrom([]int{1, 2, 3, 4, 6, 8}).Draw(t, "k"), Key: rapid.IntRange(0, 50).Draw(t, "key")}
			sc.Peers = genCrawled(t, "p", 1, 30)
			sc.Resp = rapid.SliceOfN(rapid.Custom(func(t *rapid.T) frtValResponder {
				r := frtValResponder{LatMs: rapid.IntRange(1, 3000).Draw(t, "lat"), Fail: verifsim.Chance(t, "fail", 10)}
				r.Val = rapid.SampledFrom([]int{0, 1, 1, 2, 2, 3, 3, -1, -2, -3, -4}).Draw(t, "val")
				if r.Val > 0 {
					r.Var = rapid.SampledFrom([]int{0, 0, 1, 2}).Draw(t, "var")
				}
				return r
			}), 1, 10).Draw(t, "resp")
			sc.Quorum = rapid.SampledFrom([]int{0, 1, 2, 16}).Draw(t, "quorum")
			sc.Local = rapid.SampledFrom([]int{0, 0, 1, 2, 3, 4, -5}).Draw(t, "local")
			sc.UseGet = rapid.Bool().Draw(t, "useGet")
			if verifsim.Chance(t, "cancel", 12) {
				sc.CancelMs = rapid.IntRange(1, 5000).Draw(t, "cancelMs")
			}
			sc.Offline = verifsim.Chance(t, "offline", 15)
			if !sc.UseGet && verifsim.Chance(t, "slowRead", 40) {
				sc.SlowReadMs = rapid.SampledFrom([]int{1, 40, 700, 3000}).Draw(t, "slowReadMs")
			}
			if verifsim.Chance(t, "burst", 20) {
				// a burst of valid records of different rank within the first 200 ms, read by a consumer that takes its time, no quorum
				sc.UseGet, sc.Quorum, sc.CancelMs = false, 0, 0
				sc.K = rapid.SampledFrom([]int{6, 8}).Draw(t, "burstK")
				sc.SlowReadMs = rapid.SampledFrom([]int{700, 3000}).Draw(t, "burstSlowReadMs")
				sc.Peers = genCrawled(t, "bp", 10, 30)
				sc.Resp = rapid.SliceOfN(rapid.Custom(func(t *rapid.T) frtValResponder {
					return frtValResponder{LatMs: rapid.SampledFrom([]int{1, 2, 3, 10, 30, 50, 100, 200}).Draw(t, "blat"), Val: rapid.SampledFrom([]int{1, 2, 3}).Draw(t, "bval"), Var: rapid.SampledFrom([]int{0, 0, 1}).Draw(t, "bvar")}
				}), 5, 10).Draw(t, "burstResp")
			}
			return sc
		},
		Run: func(t *testing.T, sc frtValSc) (res verifsim.Result) {
			pp := c16pp()
			type emitted struct {
				at  time.Duration
				val []byte
			}
			var vals []emitted
			var getRes []byte
			var getErr error
			var closedAt time.Duration
			var log []verifnet.Exchange
			idx := map[peer.ID]int{}
			for i, cp := range sc.Peers {
				idx[peer.ID(pp.IDs[cp.ID])] = i
			}
			key := fmt.Sprintf("/v/k%d", sc.Key)
			tag := strings.TrimPrefix(key, "/v/")
			out := verifsim.Bubble(t, func() {
				h := verifnet.NewHost(peer.ID(pp.IDs[c16Pool-1]), []ma.Multiaddr{ma.StringCast("/ip4/8.200.0.1/tcp/1")})
				defer h.Close()
				ids := install(h, sc.Peers)
				sim := verifnet.NewSim()
				sim.Respond = func(p peer.ID, n int, req *pb.Message) verifnet.Reply {
					i, ok := idx[p]
					if !ok {
						return verifnet.Reply{Fail: true, Latency: time.Millisecond}
					}
					r := sc.Resp[i%len(sc.Resp)]
					lat := time.Duration(r.LatMs) * time.Millisecond
					if r.Fail {
						return verifnet.Reply{Fail: true, Latency: lat}
					}
					resp := &pb.Message{Type: req.Type, Key: req.Key}
					switch req.Type {
					case pb.Message_GET_VALUE:
						resp.Record = frtValueOf(r, string(req.Key))
					case pb.Message_PUT_VALUE:
						resp.Record = req.Record
					}
					return verifnet.Reply{Latency: lat, Resp: resp}
				}
				d, err := newFullRT(h, sc.K, 0, &fakeCrawler{peers: ids}, sim, kaddht.Validator(record.NamespacedValidator{"v": frtValidator{}}))
				if err != nil {
					res.Fail("constructs", "C04/fullrt/new-error", "%v", err)
					return
				}
				defer d.Close()
				verifsim.Quiesce()
				ctx, cancel := context.WithCancel(context.Background())
				defer cancel()
				switch {
				case sc.Local >= 1:
					if err := d.putLocal(ctx, key, record.MakePutRecord(key, []byte(fmt.Sprintf("%d|%s|local", sc.Local, tag)))); err != nil {
						res.Fail("constructs", "C04/fullrt/put-local", "%v", err)
						return
					}
				case sc.Local == -5:
					v := []byte(fmt.Sprintf("9|%s|exp=%d", tag, time.Now().Unix()+30))
					if err := d.putLocal(ctx, key, record.MakePutRecord(key, v)); err != nil {
						res.Fail("constructs", "C04/fullrt/put-local", "%v", err)
						return
					}
				}
				time.Sleep(time.Minute)
				if sc.CancelMs > 0 {
					go func() { time.Sleep(time.Duration(sc.CancelMs) * time.Millisecond); cancel() }()
				}
				opts := []routing.Option{kaddht.Quorum(sc.Quorum)}
				if sc.Offline {
					opts = append(opts, routing.Offline)
				}
				if sc.UseGet {
					getRes, getErr = d.GetValue(ctx, key, opts...)
				} else {
					ch, err := d.SearchValue(ctx, key, opts...)
					if err != nil {
						getErr = err
					} else {
						// (a channel that is never closed does not deadlock the bubble - the client's tickers keep virtual time going)
						giveUp := time.After(3 * time.Hour)
					read:
						for {
							select {
							case v, ok := <-ch:
								if !ok {
									break read
								}
								vals = append(vals, emitted{sim.Now(), v})
								time.Sleep(time.Duration(sc.SlowReadMs) * time.Millisecond)
							case <-giveUp:
								res.Fail("channel-closed", "C04/fullrt/channel-not-closed", "the value channel was not closed within 3 h of virtual time")
								return
							}
						}
					}
				}
				closedAt = sim.Now()
				cancel()
				time.Sleep(2 * time.Minute)
				log = sim.Log()
			})
			if !out.OK() {
				res.Fail("terminates", "C04/fullrt/hang-or-panic", "%s %s\n%s", out.Deadlock, out.Panic, out.Stacks)
				return
			}
			if len(res.Violations) > 0 {
				return
			}
			val := frtValidator{}
			if sc.UseGet && getRes != nil {
				vals = []emitted{{closedAt, getRes}}
			}
			var supplied [][]byte
			if sc.Local >= 1 {
				supplied = append(supplied, []byte(fmt.Sprintf("%d|%s|local", sc.Local, tag)))
			}
			// (a pausing consumer sees the channel close later than the search ended: see the standard client's part)
			if sc.SlowReadMs > 0 {
				var lastExchange time.Duration
				for _, e := range log {
					if e.Kind == "request" && e.Type == pb.Message_GET_VALUE && e.End > lastExchange {
						lastExchange = e.End
					}
				}
				if lastExchange > 0 && lastExchange < closedAt {
					closedAt = lastExchange
				}
			}
			skipFinal := sc.SlowReadMs > 0 && sc.Quorum > 0 && !sc.Offline
			atEnd := 0
			for _, e := range log {
				if e.End == closedAt {
					atEnd++
				}
			}
			ranks := map[int]bool{}
			for _, e := range log {
				if e.Kind != "request" || e.Type != pb.Message_GET_VALUE || e.Outcome != "ok" || e.Resp == nil || e.Resp.Record == nil {
					continue
				}
				rec := e.Resp.Record
				if !(bytes.Equal(rec.Key, []byte(key)) && rec.Value != nil && val.Validate(key, rec.Value) == nil) {
					continue
				}
				r, _, _ := frtParse(rec.Value)
				ranks[r] = true
				if e.End < closedAt || (e.End == closedAt && atEnd == 1 && sc.CancelMs == 0) {
					supplied = append(supplied, rec.Value)
				}
			}
			var prev []byte
			for i, ev := range vals {
				if err := val.Validate(key, ev.val); err != nil {
					res.Fail("yields-valid", "C04/fullrt/yield-invalid", "value %q yielded but the validator rejects it for %s: %v", ev.val, key, err)
				}
				if strings.Contains(string(ev.val), "MISKEYED") {
					res.Fail("yields-keyed", "C04/fullrt/yield-miskeyed", "yielded the value of a record filed under another key: %q", ev.val)
				}
				if i > 0 && (bytes.Equal(prev, ev.val) || !frtBetter(ev.val, prev)) {
					res.Fail("strictly-improving", "C04/fullrt/stream-not-improving", "stream %q then %q", prev, ev.val)
				}
				prev = ev.val
			}
			cancelled := sc.CancelMs > 0
			if len(vals) > 0 {
				last := vals[len(vals)-1].val
				for _, sv := range supplied {
					if frtBetter(sv, last) && !cancelled && !skipFinal {
						res.Fail("final-best", "C04/fullrt/final-not-best", "final value %q although %q was supplied before the search ended (quorum %d)", last, sv, sc.Quorum)
						break
					}
				}
			} else {
				if len(supplied) > 0 && !cancelled {
					res.Fail("final-best", "C04/fullrt/final-missing", "no value yielded although valid values were supplied: %q", supplied)
				}
				if sc.UseGet && !cancelled && !errors.Is(getErr, routing.ErrNotFound) {
					res.Fail("not-found", "C04/fullrt/notfound-wrong-error", "GetValue without any valid value returned err=%v", getErr)
				}
			}
			res.NonTrivial = len(ranks) >= 2 || sc.Local == -5
			if len(ranks) >= 2 {
				res.Class("several-ranks")
			}
			if sc.Local == -5 {
				res.Class("expired-local")
			}
			if len(vals) > 1 {
				res.Class("multi-emission")
			}
			if sc.Quorum > 0 {
				res.Class("quorum>0")
			}
			return
		},
	})
}
