//go:build verif

package fullrt

// C06 on the accelerated client's bulk operations (ProvideMany / PutMany): keys are sorted, cut into groups, and per group
// every peer gets one work message with the keys it is among the nearest for; a pool of workers sends them. What is decided
// here is the content and the addressing of what goes out: every message goes to one of the K nearest crawled peers of its
// key, carries exactly that key's record (provider record naming the local node with the host's addresses), and no peer is
// sent the same key twice. (How many of the K nearest a key must reach is a heuristic of the bulk sender - it stops early
// once enough of them succeeded - and is not judged; a key that reaches nobody although the operation reports success is.)

import (
	"bytes"
	"context"
	"fmt"
	"os"
	"testing"
	"time"

	kaddht "github.com/libp2p/go-libp2p-kad-dht"
	"github.com/libp2p/go-libp2p-kad-dht/internal/verifnet"
	"github.com/libp2p/go-libp2p-kad-dht/internal/verifsim"
	pb "github.com/libp2p/go-libp2p-kad-dht/pb"
	record "github.com/libp2p/go-libp2p-record"
	"github.com/libp2p/go-libp2p/core/host"
	"github.com/libp2p/go-libp2p/core/peer"
	"github.com/libp2p/go-libp2p/core/protocol"
	ma "github.com/multiformats/go-multiaddr"
	mh "github.com/multiformats/go-multihash"
	"pgregory.net/rapid"
)

type frtBulkSc struct {
	K       int            `json:"k"`
	Peers   []crawledPeer  `json:"peers"`
	Resp    []frtWriteResp `json:"resp"`
	Op      string         `json:"op"` // providemany putmany
	Keys    []int          `json:"keys"`
	Workers int            `json:"workers"`
}

func TestVerif_C06_FullRTBulk(t *testing.T) {
	verifsim.RunCheck(t, verifsim.Check[frtBulkSc]{
		Property: "C06", Part: "fullrt-bulk",
		Rule: "rapid: ProvideMany / PutMany of 1-30 distinct keys on an accelerated client over a crawl of 3-60 peers, K 3-8, 1-4 bulk workers; recipients answer after 0-400 ms (mostly fast, so that workers lag behind the dispatcher " +
			"by a drawn amount), fail, or hang; oracle over the simulation log: every ADD_PROVIDER / PUT_VALUE goes to one of the K nearest crawled peers of its key (brute force), carries that key's record (the provider record names exactly " +
			"the local peer id with the host's addresses), no peer is sent the same key twice, and when the operation reports success every key was sent to at least one peer; non-trivial = more key groups than one (table larger than 2K) " +
			"with a peer that is among the nearest for keys of different groups",
		Gen: func(t *rapid.T) frtBulkSc {
			sc := frtBulkSc{K: rapid.SampledFrom([]int{3, 4, 6, 8}).Draw(t, "k"), Op: rapid.SampledFrom([]string{"providemany", "putmany"}).Draw(t, "op"), Workers: rapid.IntRange(1, 4).Draw(t, "workers")}
			sc.Peers = genCrawled(t, "p", 3, 60)
			sc.Resp = rapid.SliceOfN(rapid.Custom(func(t *rapid.T) frtWriteResp {
				r := frtWriteResp{LatMs: rapid.SampledFrom([]int{0, 1, 5, 20, 20, 50, 400}).Draw(t, "lat")}
				if verifsim.Chance(t, "faulty", 12) {
					r.Put = rapid.SampledFrom([]string{"fail", "hang"}).Draw(t, "put")
				}
				return r
			}), 1, 8).Draw(t, "resp")
			n := rapid.IntRange(1, 30).Draw(t, "nKeys")
			sc.Keys = rapid.SliceOfNDistinct(rapid.IntRange(0, 199), n, n, func(i int) int { return i }).Draw(t, "keys")
			return sc
		},
		Run: func(t *testing.T, sc frtBulkSc) (res verifsim.Result) {
			pp := c16pp()
			idx := map[peer.ID]int{}
			for i, cp := range sc.Peers {
				idx[peer.ID(pp.IDs[cp.ID])] = i
			}
			hostAddrs := []ma.Multiaddr{ma.StringCast("/ip4/8.200.0.1/tcp/1"), ma.StringCast("/ip4/8.200.0.2/udp/2/quic-v1")}
			self := peer.ID(pp.IDs[c16Pool-1])
			// keys: provider keys are pool multihashes, value keys "/v/k<n>"
			keyStr := func(n int) string {
				if sc.Op == "putmany" {
					return fmt.Sprintf("/v/k%d", n)
				}
				return c16kp().IDs[n%c16Pool]
			}
			valOf := func(n int) []byte { return []byte(fmt.Sprintf("2|k%d|bulk", n)) }
			var log []verifnet.Exchange
			var opErr error
			out := verifsim.Bubble(t, func() {
				h := verifnet.NewHost(self, hostAddrs)
				defer h.Close()
				ids := install(h, sc.Peers)
				sim := verifnet.NewSim()
				sim.Respond = func(p peer.ID, n int, req *pb.Message) verifnet.Reply {
					i, ok := idx[p]
					if !ok {
						return verifnet.Reply{Fail: true, Latency: time.Millisecond}
					}
					r := sc.Resp[i%len(sc.Resp)]
					lat := time.Duration(r.LatMs) * time.Millisecond
					switch r.Put {
					case "fail":
						return verifnet.Reply{Fail: true, Latency: lat}
					case "hang":
						return verifnet.Reply{Silent: true, Latency: 45 * time.Second}
					}
					resp := &pb.Message{Type: req.Type, Key: req.Key}
					if req.Type == pb.Message_PUT_VALUE {
						resp.Record = req.Record
					}
					return verifnet.Reply{Latency: lat, Resp: resp}
				}
				sim.Dial = func(p peer.ID, n int) (time.Duration, string) {
					if _, ok := idx[p]; !ok {
						return time.Millisecond, "fail"
					}
					return 0, "ok"
				}
				h.ConnectFn = sim.Connect
				d, err := NewFullRT(h, "/sim", WithCrawler(&fakeCrawler{peers: ids}), WithBulkSendParallelism(sc.Workers), WithIPDiversityFilterLimit(0),
					DHTOption(kaddht.BucketSize(sc.K), kaddht.BootstrapPeersFunc(func() []peer.AddrInfo { return nil }),
						kaddht.WithCustomMessageSender(func(host.Host, []protocol.ID) pb.MessageSenderWithDisconnect { return sim }),
						kaddht.Validator(record.NamespacedValidator{"v": frtValidator{}})))
				if err != nil {
					res.Fail("constructs", "C06/fullrt-bulk/new-error", "%v", err)
					return
				}
				defer d.Close()
				verifsim.Quiesce()
				ctx, cancel := context.WithTimeout(context.Background(), 30*time.Minute)
				defer cancel()
				time.Sleep(time.Second)
				if sc.Op == "providemany" {
					var ks []mh.Multihash
					for _, n := range sc.Keys {
						ks = append(ks, mh.Multihash(keyStr(n)))
					}
					opErr = d.ProvideMany(ctx, ks)
				} else {
					var ks []string
					var vs [][]byte
					for _, n := range sc.Keys {
						ks = append(ks, keyStr(n))
						vs = append(vs, valOf(n))
					}
					opErr = d.PutMany(ctx, ks, vs)
				}
				time.Sleep(2 * time.Minute)
				log = sim.Log()
			})
			if !out.OK() {
				res.Fail("terminates", "C06/fullrt-bulk/hang-or-panic", "%s %s\n%s", out.Deadlock, out.Panic, out.Stacks)
				return
			}
			if len(res.Violations) > 0 {
				return
			}
			want := pb.Message_ADD_PROVIDER
			if sc.Op == "putmany" {
				want = pb.Message_PUT_VALUE
			}
			byKey := map[string]int{}
			for _, n := range sc.Keys {
				byKey[keyStr(n)] = n
			}
			nearest := map[string]map[peer.ID]bool{}
			peerKeys := map[peer.ID]map[string]bool{}
			for k := range byKey {
				w, _ := expectedClosest(sc.Peers, k, sc.K, 0)
				nearest[k] = map[peer.ID]bool{}
				for _, p := range w {
					nearest[k][p] = true
					if peerKeys[p] == nil {
						peerKeys[p] = map[string]bool{}
					}
					peerKeys[p][k] = true
				}
			}
			sent := map[string]map[peer.ID]int{}
			for _, e := range log {
				if e.Kind == "dial" || e.Type != want || e.Req == nil {
					continue
				}
				k := string(e.Req.GetKey())
				n, ok := byKey[k]
				if !ok {
					res.Fail("correct-content", "C06/fullrt-bulk/unknown-key", "a %s for a key that is not part of the operation was sent to crawled peer %d", want, idx[e.Peer])
					return
				}
				if !nearest[k][e.Peer] {
					res.Fail("to-closest", "C06/fullrt-bulk/not-among-nearest", "key %d was sent to crawled peer %d, which is not among its %d nearest crawled peers", n, idx[e.Peer], sc.K)
					return
				}
				if sent[k] == nil {
					sent[k] = map[peer.ID]int{}
				}
				sent[k][e.Peer]++
				if sent[k][e.Peer] > 1 {
					res.Fail("once-each", "C06/fullrt-bulk/sent-twice", "key %d was sent %d times to crawled peer %d", n, sent[k][e.Peer], idx[e.Peer])
					return
				}
				if sc.Op == "putmany" {
					rec := e.Req.GetRecord()
					if rec == nil || string(rec.GetKey()) != k || !bytes.Equal(rec.GetValue(), valOf(n)) {
						res.Fail("correct-content", "C06/fullrt-bulk/record", "PUT_VALUE for key %d carries %v", n, rec)
						return
					}
				} else {
					pps := e.Req.GetProviderPeers()
					if len(pps) != 1 || peer.ID(pps[0].Id) != self || len(pps[0].Addrs) != len(hostAddrs) {
						res.Fail("correct-content", "C06/fullrt-bulk/provider-record", "ADD_PROVIDER for key %d carries %d provider records (first: id is self=%v, %d addresses; the host has %d)", n, len(pps), len(pps) > 0 && peer.ID(pps[0].Id) == self, func() int {
							if len(pps) > 0 {
								return len(pps[0].Addrs)
							}
							return 0
						}(), len(hostAddrs))
						return
					}
					for i, a := range pps[0].Addrs {
						if !bytes.Equal(a, hostAddrs[i].Bytes()) {
							res.Fail("correct-content", "C06/fullrt-bulk/provider-addrs", "ADD_PROVIDER for key %d: address %d differs from the host's", n, i)
							return
						}
					}
				}
			}
			if opErr == nil {
				for k, n := range byKey {
					if len(sent[k]) == 0 {
						res.Fail("reaches", "C06/fullrt-bulk/key-never-sent", "%s reported success but key %d was sent to nobody", sc.Op, n)
						break
					}
				}
			}
			// non-trivial: a peer that is among the nearest for >= 2 keys, in a table with more than 2K peers (several key groups)
			multi := false
			for _, ks := range peerKeys {
				if len(ks) >= 2 {
					multi = true
				}
			}
			res.NonTrivial = multi && len(sc.Peers) > 2*sc.K && len(sc.Keys) >= 2
			if opErr != nil {
				res.Class("operation-error")
				if os.Getenv("VERIF_DEBUG") != "" {
					fmt.Fprintf(os.Stderr, "DEBUG opErr=%v sends=%d\n", opErr, len(sent))
				}
			}
			return
		},
	})
}
