//go:build verif

package fullrt

// C06, last clause, on the accelerated client: "after a completed value search the peers among the closest that did not
// return the best value are sent it while peers that did are not".

import (
	"bytes"
	"context"
	"fmt"
	"os"
	"sort"
	"testing"
	"time"

	kaddht "github.com/libp2p/go-libp2p-kad-dht"
	"github.com/libp2p/go-libp2p-kad-dht/internal/verifnet"
	"github.com/libp2p/go-libp2p-kad-dht/internal/verifsim"
	pb "github.com/libp2p/go-libp2p-kad-dht/pb"
	record "github.com/libp2p/go-libp2p-record"
	recpb "github.com/libp2p/go-libp2p-record/pb"
	"github.com/libp2p/go-libp2p/core/peer"
	ma "github.com/multiformats/go-multiaddr"
	"pgregory.net/rapid"
)

type frtFixResp struct {
	LatMs int    `json:"lat_ms"`        // GET_VALUE / PUT_VALUE latency
	Val   int    `json:"val"`           // GET_VALUE: 0 no record; 1-3 valid record of that rank; -1 invalid value
	Get   string `json:"get,omitempty"` // GET_VALUE: "" ok | fail
	Put   string `json:"put,omitempty"` // PUT_VALUE: "" ok | fail | hang
}

type frtFixSc struct {
	K      int           `json:"k"`
	Key    int           `json:"key"`
	Peers  []crawledPeer `json:"peers"`
	Resp   []frtFixResp  `json:"resp"`
	UseGet bool          `json:"use_get"`
}

func TestVerif_C06_FullRTSearch(t *testing.T) {
	verifsim.RunCheck(t, verifsim.Check[frtFixSc]{
		Property: "C06", Part: "fullrt-search",
		Rule: "rapid: SearchValue (drained) / GetValue without quorum on an accelerated client over a crawl of 1-30 peers, K 1-8; each of the K nearest answers GET_VALUE after 1-300 ms with no record, a valid record of rank 1-3 " +
			"(one byte form per rank), an invalid value, or fails, and treats PUT_VALUE as ok / fail / hang; oracle over the simulation log once everything has settled: every one of the K nearest crawled peers (brute force) whose answer " +
			"did not carry the final value is sent one PUT_VALUE carrying the final value, which is delivered when that peer accepts puts (not merely started under a context that is already over), and the peers whose answer carried it are " +
			"sent none; non-trivial = at least one peer to correct and one that holds the best value",
		Gen: func(t *rapid.T) frtFixSc {
			sc := frtFixSc{K: rapid.SampledFrom([]int{1, 2, 3, 4, 6, 8}).Draw(t, "k"), Key: rapid.IntRange(0, 50).Draw(t, "key"), UseGet: rapid.Bool().Draw(t, "useGet")}
			sc.Peers = genCrawled(t, "p", 1, 30)
			sc.Resp = rapid.SliceOfN(rapid.Custom(func(t *rapid.T) frtFixResp {
				r := frtFixResp{LatMs: rapid.SampledFrom([]int{1, 2, 10, 50, 300}).Draw(t, "lat"), Val: rapid.SampledFrom([]int{0, 1, 2, 2, 3, 3, -1}).Draw(t, "val")}
				if verifsim.Chance(t, "getFails", 10) {
					r.Get = "fail"
				}
				r.Put = rapid.SampledFrom([]string{"", "", "", "fail", "hang"}).Draw(t, "put")
				return r
			}), 1, 8).Draw(t, "resp")
			return sc
		},
		Run: func(t *testing.T, sc frtFixSc) (res verifsim.Result) {
			pp := c16pp()
			idx := map[peer.ID]int{}
			for i, cp := range sc.Peers {
				idx[peer.ID(pp.IDs[cp.ID])] = i
			}
			self := peer.ID(pp.IDs[c16Pool-1])
			vkey := fmt.Sprintf("/v/k%d", sc.Key)
			valOf := func(rank int) []byte { return []byte(fmt.Sprintf("%d|k%d|held", rank, sc.Key)) }
			var log []verifnet.Exchange
			var final []byte
			var searchEnd time.Duration
			out := verifsim.Bubble(t, func() {
				h := verifnet.NewHost(self, []ma.Multiaddr{ma.StringCast("/ip4/8.200.0.1/tcp/1")})
				defer h.Close()
				ids := install(h, sc.Peers)
				sim := verifnet.NewSim()
				sim.Respond = func(p peer.ID, n int, req *pb.Message) verifnet.Reply {
					i, ok := idx[p]
					if !ok {
						return verifnet.Reply{Fail: true, Latency: time.Millisecond}
					}
					r := sc.Resp[i%len(sc.Resp)]
					lat := time.Duration(r.LatMs) * time.Millisecond
					resp := &pb.Message{Type: req.Type, Key: req.Key}
					switch req.Type {
					case pb.Message_GET_VALUE:
						if r.Get == "fail" {
							return verifnet.Reply{Fail: true, Latency: lat}
						}
						switch {
						case r.Val > 0:
							resp.Record = &recpb.Record{Key: req.Key, Value: valOf(r.Val)}
						case r.Val < 0:
							resp.Record = &recpb.Record{Key: req.Key, Value: []byte("garbage")}
						}
					case pb.Message_PUT_VALUE:
						switch r.Put {
						case "fail":
							return verifnet.Reply{Fail: true, Latency: lat}
						case "hang":
							return verifnet.Reply{Silent: true, Latency: 45 * time.Second}
						}
						resp.Record = req.Record
					}
					return verifnet.Reply{Latency: lat, Resp: resp}
				}
				d, err := newFullRT(h, sc.K, 0, &fakeCrawler{peers: ids}, sim, kaddht.Validator(record.NamespacedValidator{"v": frtValidator{}}))
				if err != nil {
					res.Fail("constructs", "C06/fullrt-search/new-error", "%v", err)
					return
				}
				defer d.Close()
				verifsim.Quiesce()
				ctx, cancel := context.WithTimeout(context.Background(), 10*time.Minute)
				defer cancel()
				time.Sleep(time.Second)
				if sc.UseGet {
					final, _ = d.GetValue(ctx, vkey, kaddht.Quorum(0))
				} else if ch, err := d.SearchValue(ctx, vkey, kaddht.Quorum(0)); err == nil {
					for v := range ch {
						final = v
					}
				}
				searchEnd = sim.Now()
				time.Sleep(2 * time.Minute) // the corrective puts are sent in the background
				log = sim.Log()
			})
			if !out.OK() {
				res.Fail("terminates", "C06/fullrt-search/hang-or-panic", "%s %s\n%s", out.Deadlock, out.Panic, out.Stacks)
				return
			}
			if len(res.Violations) > 0 || final == nil {
				return
			}
			tk := kadOf(vkey)
			ids := make([]peer.ID, 0, len(sc.Peers))
			for id := range idx {
				ids = append(ids, id)
			}
			sort.Slice(ids, func(a, b int) bool { return verifsim.XorLess(tk, kadOf(string(ids[a])), kadOf(string(ids[b]))) })
			if len(ids) > sc.K {
				ids = ids[:sc.K]
			}
			// who delivered the final value during the search; an answer at the very instant the search's requests were cut is ambiguous
			returnedBest, ambiguous := map[peer.ID]bool{}, map[peer.ID]bool{}
			var lastGet time.Duration
			for _, e := range log {
				if e.Kind == "request" && e.Type == pb.Message_GET_VALUE && e.End > lastGet {
					lastGet = e.End
				}
			}
			atEnd := 0
			for _, e := range log {
				if e.Kind == "request" && e.Type == pb.Message_GET_VALUE && e.End == lastGet {
					atEnd++
				}
			}
			for _, e := range log {
				if e.Kind == "request" && e.Type == pb.Message_GET_VALUE && e.Outcome == "ok" && e.Resp.GetRecord() != nil && bytes.Equal(e.Resp.GetRecord().GetValue(), final) {
					if e.End == lastGet && atEnd > 1 {
						ambiguous[e.Peer] = true
					} else {
						returnedBest[e.Peer] = true
					}
				}
			}
			puts := map[peer.ID][]verifnet.Exchange{}
			for _, e := range log {
				if e.Kind != "dial" && e.Type == pb.Message_PUT_VALUE {
					puts[e.Peer] = append(puts[e.Peer], e)
				}
			}
			if os.Getenv("VERIF_DEBUG") != "" {
				for _, e := range log {
					fmt.Fprintf(os.Stderr, "DEBUG %s %v ->%d %v..%v %s\n", e.Kind, e.Type, idx[e.Peer], e.Start, e.End, e.Outcome)
				}
			}
			toCorrect, holders := 0, 0
			for _, id := range ids {
				if ambiguous[id] || id == self {
					continue // (a crawl may contain the node itself: it corrects its own store, not judged here)
				}
				r := sc.Resp[idx[id]%len(sc.Resp)]
				if returnedBest[id] {
					holders++
					if len(puts[id]) > 0 {
						res.Fail("holders-not-sent", "C06/fullrt-search/put-to-holder", "crawled peer %d returned the final value %q and was sent a PUT_VALUE all the same", idx[id], final)
					}
					continue
				}
				toCorrect++
				switch {
				case len(puts[id]) == 0:
					res.Fail("corrective-puts", "C06/fullrt-search/not-corrected", "crawled peer %d is among the %d nearest and did not return the final value %q, but was sent no PUT_VALUE (search ended at %v)", idx[id], len(ids), final, searchEnd)
				case len(puts[id]) > 1:
					res.Fail("corrective-puts", "C06/fullrt-search/corrected-twice", "crawled peer %d was sent %d PUT_VALUE", idx[id], len(puts[id]))
				default:
					e := puts[id][0]
					if !bytes.Equal(e.Req.GetRecord().GetValue(), final) || string(e.Req.GetRecord().GetKey()) != vkey {
						res.Fail("corrective-puts", "C06/fullrt-search/other-record", "the corrective PUT_VALUE to crawled peer %d carries %q under %q, the final value is %q", idx[id], e.Req.GetRecord().GetValue(), e.Req.GetRecord().GetKey(), final)
					} else if r.Put == "" && e.Outcome != "ok" {
						res.Fail("corrective-puts", "C06/fullrt-search/put-not-delivered", "the corrective PUT_VALUE to crawled peer %d (which accepts puts after %d ms) ended %q after %v: it was sent under a context that was already over", idx[id], r.LatMs, e.Outcome, e.End-e.Start)
					}
				}
				if len(res.Violations) > 0 {
					return
				}
			}
			for id := range puts {
				in := false
				for _, x := range ids {
					if x == id {
						in = true
					}
				}
				if !in {
					res.Fail("corrective-puts", "C06/fullrt-search/put-to-other", "PUT_VALUE sent to crawled peer %d, which is not among the %d nearest", idx[id], sc.K)
				}
			}
			res.NonTrivial = toCorrect > 0 && holders > 0
			return
		},
	})
}
