//go:build verif

package fullrt

// C06 on the accelerated client: PutValue stores locally first and sends the
// same record to every one of the K nearest crawled peers; Provide records the
// local node as provider and sends each of them one ADD_PROVIDER naming exactly
// the local peer with its advertised addresses; failing or slow recipients do
// not keep the others from being sent to.

import (
	"bytes"
	"context"
	"crypto/sha256"
	"fmt"
	"sort"
	"testing"
	"time"

	"github.com/ipfs/go-cid"
	kaddht "github.com/libp2p/go-libp2p-kad-dht"
	"github.com/libp2p/go-libp2p-kad-dht/internal/verifnet"
	"github.com/libp2p/go-libp2p-kad-dht/internal/verifsim"
	pb "github.com/libp2p/go-libp2p-kad-dht/pb"
	record "github.com/libp2p/go-libp2p-record"
	"github.com/libp2p/go-libp2p/core/peer"
	ma "github.com/multiformats/go-multiaddr"
	mh "github.com/multiformats/go-multihash"
	"pgregory.net/rapid"
)

func kadOf(s string) [32]byte { return sha256.Sum256([]byte(s)) }

type frtWriteResp struct {
	LatMs int    `json:"lat_ms"`
	Put   string `json:"put,omitempty"` // "" ok | fail | hang
}

type frtWriteSc struct {
	K     int            `json:"k"`
	Key   int            `json:"key"`
	Peers []crawledPeer  `json:"peers"`
	Resp  []frtWriteResp `json:"resp"`
	Op    string         `json:"op"`    // putvalue | provide | provide-local-only
	Local int            `json:"local"` // putvalue: rank of a record already stored locally (0 none)
	Rank  int            `json:"rank"`  // putvalue: rank of the value put
}

func TestVerif_C06_FullRT(t *testing.T) {
	verifsim.RunCheck(t, verifsim.Check[frtWriteSc]{
		Property: "C06", Part: "fullrt",
		Rule: "rapid: an accelerated client over a crawl of 1-40 peers, K 1-8; recipients answer after 1-3000 ms, fail, or hang; PutValue (with an optional older/newer/equal record already stored locally) / Provide with and without " +
			"announce; oracle over the simulation log and the local stores: the record is stored locally, a PUT_VALUE carrying that same key and value (an ADD_PROVIDER naming exactly the local peer id with the host's non-empty addresses) was " +
			"started to every one of the K nearest crawled peers (brute force) and to nobody else, exactly once each, whatever the other recipients did; a put of an older value fails and sends nothing; non-trivial = a failing or hanging recipient among the K nearest",
		Gen: func(t *rapid.T) frtWriteSc {
			sc := frtWriteSc{K: rapid.SampledFrom([]int{1, 2, 3, 4, 6, 8}).Draw(t, "k"), Key: rapid.IntRange(0, 50).Draw(t, "key")}
			sc.Peers = genCrawled(t, "p", 1, 40)
			sc.Resp = rapid.SliceOfN(rapid.Custom(func(t *rapid.T) frtWriteResp {
				return frtWriteResp{LatMs: rapid.IntRange(1, 3000).Draw(t, "lat"), Put: rapid.SampledFrom([]string{"", "", "", "fail", "hang"}).Draw(t, "put")}
			}), 1, 10).Draw(t, "resp")
			sc.Op = rapid.SampledFrom([]string{"putvalue", "putvalue", "provide", "provide", "provide-local-only"}).Draw(t, "op")
			sc.Local = rapid.SampledFrom([]int{0, 0, 1, 2, 3}).Draw(t, "local")
			sc.Rank = rapid.IntRange(1, 3).Draw(t, "rank")
			return sc
		},
		Run: func(t *testing.T, sc frtWriteSc) (res verifsim.Result) {
			pp := c16pp()
			idx := map[peer.ID]int{}
			for i, cp := range sc.Peers {
				idx[peer.ID(pp.IDs[cp.ID])] = i
			}
			hostAddrs := []ma.Multiaddr{ma.StringCast("/ip4/8.200.0.1/tcp/1"), ma.StringCast("/ip4/8.200.0.2/udp/2/quic-v1")}
			self := peer.ID(pp.IDs[c16Pool-1])
			vkey := fmt.Sprintf("/v/k%d", sc.Key)
			mhKey := c16kp().IDs[sc.Key]
			var log []verifnet.Exchange
			var opErr error
			var localVal []byte
			var localProv bool
			out := verifsim.Bubble(t, func() {
				h := verifnet.NewHost(self, hostAddrs)
				defer h.Close()
				ids := install(h, sc.Peers)
				sim := verifnet.NewSim()
				sim.Respond = func(p peer.ID, n int, req *pb.Message) verifnet.Reply {
					i, ok := idx[p]
					if !ok {
						return verifnet.Reply{Fail: true, Latency: time.Millisecond}
					}
					r := sc.Resp[i%len(sc.Resp)]
					lat := time.Duration(r.LatMs) * time.Millisecond
					switch r.Put {
					case "fail":
						return verifnet.Reply{Fail: true, Latency: lat}
					case "hang":
						return verifnet.Reply{Silent: true, Latency: 45 * time.Second}
					}
					resp := &pb.Message{Type: req.Type, Key: req.Key}
					if req.Type == pb.Message_PUT_VALUE {
						resp.Record = req.Record
					}
					return verifnet.Reply{Latency: lat, Resp: resp}
				}
				d, err := newFullRT(h, sc.K, 0, &fakeCrawler{peers: ids}, sim, kaddht.Validator(record.NamespacedValidator{"v": frtValidator{}}))
				if err != nil {
					res.Fail("constructs", "C06/fullrt/new-error", "%v", err)
					return
				}
				defer d.Close()
				verifsim.Quiesce()
				ctx, cancel := context.WithTimeout(context.Background(), 10*time.Minute)
				defer cancel()
				if sc.Op == "putvalue" && sc.Local > 0 {
					if err := d.putLocal(ctx, vkey, record.MakePutRecord(vkey, []byte(fmt.Sprintf("%d|k%d|old", sc.Local, sc.Key)))); err != nil {
						res.Fail("constructs", "C06/fullrt/put-local", "%v", err)
						return
					}
				}
				time.Sleep(time.Second)
				switch sc.Op {
				case "putvalue":
					opErr = d.PutValue(ctx, vkey, []byte(fmt.Sprintf("%d|k%d|new", sc.Rank, sc.Key)))
				case "provide":
					opErr = d.Provide(ctx, cid.NewCidV1(cid.Raw, mh.Multihash(mhKey)), true)
				default:
					opErr = d.Provide(ctx, cid.NewCidV1(cid.Raw, mh.Multihash(mhKey)), false)
				}
				time.Sleep(2 * time.Minute)
				if rec, err := d.getLocal(ctx, vkey); err == nil && rec != nil {
					localVal = rec.GetValue()
				}
				if ps, err := d.ProviderManager.GetProviders(ctx, []byte(mhKey)); err == nil {
					for _, p := range ps {
						if p.ID == self {
							localProv = true
						}
					}
				}
				log = sim.Log()
			})
			if !out.OK() {
				res.Fail("terminates", "C06/fullrt/hang-or-panic", "%s %s\n%s", out.Deadlock, out.Panic, out.Stacks)
				return
			}
			if len(res.Violations) > 0 {
				return
			}
			// the K nearest crawled peers, by brute force
			target := vkey
			if sc.Op != "putvalue" {
				target = mhKey
			}
			tk := kadOf(target)
			ids := make([]peer.ID, 0, len(sc.Peers))
			for id := range idx {
				ids = append(ids, id)
			}
			sort.Slice(ids, func(a, b int) bool { return verifsim.XorLess(tk, kadOf(string(ids[a])), kadOf(string(ids[b]))) })
			if len(ids) > sc.K {
				ids = ids[:sc.K]
			}
			want := map[peer.ID]bool{}
			faulty := false
			for _, id := range ids {
				want[id] = true
				if sc.Resp[idx[id]%len(sc.Resp)].Put != "" {
					faulty = true
				}
			}
			newVal := []byte(fmt.Sprintf("%d|k%d|new", sc.Rank, sc.Key))
			typ := pb.Message_PUT_VALUE
			if sc.Op != "putvalue" {
				typ = pb.Message_ADD_PROVIDER
			}
			got := map[peer.ID]int{}
			for _, e := range log {
				if e.Kind == "dial" || e.Type != typ {
					continue
				}
				got[e.Peer]++
				if !want[e.Peer] {
					res.Fail("only-closest", "C06/fullrt/sent-to-other", "%v sent to a peer that is not among the %d nearest crawled peers", typ, sc.K)
				}
				if typ == pb.Message_PUT_VALUE {
					if string(e.Req.GetRecord().GetKey()) != vkey || !bytes.Equal(e.Req.GetRecord().GetValue(), newVal) {
						res.Fail("same-record", "C06/fullrt/other-record", "PUT_VALUE carries key %q value %q, put was %q", e.Req.GetRecord().GetKey(), e.Req.GetRecord().GetValue(), newVal)
					}
				} else {
					pps := e.Req.GetProviderPeers()
					if len(pps) != 1 || peer.ID(pps[0].Id) != self {
						res.Fail("names-self", "C06/fullrt/provider-id", "ADD_PROVIDER names %d providers / another id", len(pps))
					} else {
						var as []string
						for _, a := range pps[0].Addresses() {
							as = append(as, a.String())
						}
						sort.Strings(as)
						var hs []string
						for _, a := range hostAddrs {
							hs = append(hs, a.String())
						}
						sort.Strings(hs)
						if fmt.Sprint(as) != fmt.Sprint(hs) {
							res.Fail("advertised-addresses", "C06/fullrt/provider-addrs", "ADD_PROVIDER carries %v, the host advertises %v", as, hs)
						}
					}
				}
			}
			olderRefused := sc.Op == "putvalue" && sc.Local > sc.Rank
			switch {
			case sc.Op == "provide-local-only":
				if len(got) > 0 {
					res.Fail("no-announce", "C06/fullrt/announced", "Provide without announce sent %d ADD_PROVIDER", len(got))
				}
				if !localProv {
					res.Fail("local-first", "C06/fullrt/not-local-provider", "Provide did not record the local node as provider")
				}
			case olderRefused:
				if opErr == nil || len(got) > 0 {
					res.Fail("no-downgrade", "C06/fullrt/older-put-sent", "put of rank %d over a local rank %d: err=%v, %d PUT_VALUE sent", sc.Rank, sc.Local, opErr, len(got))
				}
			default:
				for id := range want {
					if got[id] != 1 {
						res.Fail("every-closest-once", "C06/fullrt/recipient-missed", "%v started %d times to one of the %d nearest crawled peers (err=%v)", typ, got[id], len(want), opErr)
						break
					}
				}
				if sc.Op == "putvalue" && !bytes.Equal(localVal, newVal) {
					res.Fail("local-first", "C06/fullrt/not-stored-locally", "after PutValue the local store holds %q", localVal)
				}
				if sc.Op == "provide" && !localProv {
					res.Fail("local-first", "C06/fullrt/not-local-provider", "Provide did not record the local node as provider")
				}
			}
			res.NonTrivial = faulty && !olderRefused && sc.Op != "provide-local-only"
			res.Class("op-" + sc.Op)
			if olderRefused {
				res.Class("older-put-refused")
			}
			return
		},
	})
}
