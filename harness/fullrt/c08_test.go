//go:build verif

package fullrt

// C08 on the accelerated client: FindProvidersAsync over the K nearest crawled
// peers, each a scripted responder with assigned provider records.

import (
	"context"
	"fmt"
	"testing"
	"time"

	"github.com/ipfs/go-cid"
	"github.com/libp2p/go-libp2p-kad-dht/internal/verifnet"
	"github.com/libp2p/go-libp2p-kad-dht/internal/verifsim"
	pb "github.com/libp2p/go-libp2p-kad-dht/pb"
	"github.com/libp2p/go-libp2p/core/peer"
	ma "github.com/multiformats/go-multiaddr"
	mh "github.com/multiformats/go-multihash"
	"pgregory.net/rapid"
)

type frtResponder struct {
	LatMs  int   `json:"lat_ms"`
	Fail   bool  `json:"fail,omitempty"`
	Provs  []int `json:"provs,omitempty"`   // provider numbers (0-11) named by this responder
	NoAddr []int `json:"no_addr,omitempty"` // of those, the ones it lists without addresses
}

type frtProvSc struct {
	K          int            `json:"k"`
	Key        int            `json:"key"`
	Peers      []crawledPeer  `json:"peers"`
	Resp       []frtResponder `json:"resp"` // behaviour of the i-th crawled peer (cyclic)
	Count      int            `json:"count"`
	Local      []int          `json:"local,omitempty"` // provider numbers stored locally
	LocalAdr   bool           `json:"local_addr,omitempty"`
	CancelMs   int            `json:"cancel_ms,omitempty"`
	SlowReadMs int            `json:"slow_read_ms,omitempty"`       // the consumer pauses this long after every provider it reads
	SelfProv   bool           `json:"self_is_provider_1,omitempty"` // provider number 1 is the searching node itself (named by responders; its own store need not know)
}

// providers come from a pool of their own (the crawled peers use the whole peer pool)
func frtProvID(n int) peer.ID { return peer.ID(verifsim.NewPool("prov", 16).IDs[n]) }

func TestVerif_C08_FullRT(t *testing.T) {
	verifsim.RunCheck(t, verifsim.Check[frtProvSc]{
		Property: "C08", Part: "fullrt",
		Rule: "rapid: an accelerated client over a crawl of 1-40 peers installed through a fake crawler, K 1-8; every crawled peer is a scripted responder (latency 1-3000 ms, failing, naming 0-5 of 12 providers, some of them " +
			"without addresses, the same provider named by several responders with and without addresses), 0-3 local provider records, count in {0,1,2,3,5,50}, optional cancellation (also before the call); oracle over the channel and the simulation log: " +
			"yielded ids are local or named in an answer delivered before the channel closed, at most count distinct, a peer is repeated at most once and only when it was first yielded without addresses and now has some, " +
			"count 0 yields every named provider, channel closed; non-trivial = a provider named by >= 2 responders, or more distinct providers available than count",
		Gen: func(t *rapid.T) frtProvSc {
			sc := frtProvSc{K: rapid.IntRange(1, 8).Draw(t, "k"), Key: rapid.IntRange(0, c16Pool-1).Draw(t, "key")}
			sc.Peers = genCrawled(t, "p", 1, 40)
			// a small hot set of providers so that several responders name the same one
			hot := rapid.IntRange(1, 12).Draw(t, "hotProviders")
			sc.Resp = rapid.SliceOfN(rapid.Custom(func(t *rapid.T) frtResponder {
				r := frtResponder{LatMs: rapid.IntRange(1, 3000).Draw(t, "lat"), Fail: verifsim.Chance(t, "fail", 12)}
				r.Provs = rapid.SliceOfNDistinct(rapid.IntRange(0, hot-1), 0, min(5, hot), func(i int) int { return i }).Draw(t, "provs")
				for _, p := range r.Provs {
					if rapid.IntRange(0, 2).Draw(t, "noaddr") == 0 {
						r.NoAddr = append(r.NoAddr, p)
					}
				}
				return r
			}), 1, 10).Draw(t, "resp")
			sc.Count = rapid.SampledFrom([]int{0, 1, 2, 3, 5, 50}).Draw(t, "count")
			sc.Local = rapid.SliceOfNDistinct(rapid.IntRange(0, 11), 0, 3, func(i int) int { return i }).Draw(t, "local")
			sc.LocalAdr = rapid.Bool().Draw(t, "localAddr")
			if verifsim.Chance(t, "preCancel", 6) {
				sc.CancelMs = -1 // the context is already cancelled when the search is called
			} else if verifsim.Chance(t, "cancel", 15) {
				sc.CancelMs = rapid.IntRange(1, 4000).Draw(t, "cancelMs")
			}
			sc.SelfProv = verifsim.Chance(t, "selfProv", 25)
			if verifsim.Chance(t, "slowRead", 35) {
				sc.SlowReadMs = rapid.SampledFrom([]int{1, 40, 700, 3000}).Draw(t, "slowReadMs")
			}
			return sc
		},
		Run: func(t *testing.T, sc frtProvSc) (res verifsim.Result) {
			pp := c16pp()
			type emit struct {
				at    time.Duration
				id    peer.ID
				addrs int
			}
			var emits []emit
			var closedAt time.Duration
			var log []verifnet.Exchange
			localIDs := map[peer.ID]bool{}
			idx := map[peer.ID]int{}
			for i, cp := range sc.Peers {
				idx[peer.ID(pp.IDs[cp.ID])] = i
			}
			out := verifsim.Bubble(t, func() {
				h := verifnet.NewHost(peer.ID(pp.IDs[c16Pool-1]), []ma.Multiaddr{ma.StringCast("/ip4/8.200.0.1/tcp/1")})
				provID := func(pn int) peer.ID {
					if sc.SelfProv && pn == 1 {
						return h.ID()
					}
					return frtProvID(pn)
				}
				defer h.Close()
				ids := install(h, sc.Peers)
				sim := verifnet.NewSim()
				sim.Respond = func(p peer.ID, n int, req *pb.Message) verifnet.Reply {
					i, ok := idx[p]
					if !ok {
						return verifnet.Reply{Fail: true, Latency: time.Millisecond}
					}
					r := sc.Resp[i%len(sc.Resp)]
					lat := time.Duration(r.LatMs) * time.Millisecond
					if r.Fail {
						return verifnet.Reply{Fail: true, Latency: lat}
					}
					resp := &pb.Message{Type: req.Type, Key: req.Key}
					if req.Type == pb.Message_GET_PROVIDERS {
						for _, pn := range r.Provs {
							mp := &pb.Message_Peer{Id: []byte(provID(pn))}
							bare := false
							for _, x := range r.NoAddr {
								if x == pn {
									bare = true
								}
							}
							if !bare {
								mp.Addrs = [][]byte{ma.StringCast(fmt.Sprintf("/ip4/8.77.%d.%d/tcp/4001", pn, 1+i%200)).Bytes()}
							}
							resp.ProviderPeers = append(resp.ProviderPeers, mp)
						}
					}
					return verifnet.Reply{Latency: lat, Resp: resp}
				}
				d, err := newFullRT(h, sc.K, 0, &fakeCrawler{peers: ids}, sim)
				if err != nil {
					res.Fail("constructs", "C08/fullrt/new-error", "%v", err)
					return
				}
				defer d.Close()
				verifsim.Quiesce()
				key := c16kp().IDs[sc.Key]
				ctx, cancel := context.WithCancel(context.Background())
				defer cancel()
				for _, pn := range sc.Local {
					ai := peer.AddrInfo{ID: provID(pn)}
					if sc.LocalAdr {
						ai.Addrs = []ma.Multiaddr{ma.StringCast(fmt.Sprintf("/ip4/8.78.%d.1/tcp/4001", pn))}
					}
					if err := d.ProviderManager.AddProvider(ctx, []byte(key), ai); err != nil {
						res.Fail("constructs", "C08/fullrt/add-local", "%v", err)
						return
					}
					localIDs[ai.ID] = true
				}
				time.Sleep(time.Second)
				if sc.CancelMs > 0 {
					go func() { time.Sleep(time.Duration(sc.CancelMs) * time.Millisecond); cancel() }()
				}
				if sc.CancelMs < 0 {
					cancel()
				}
				// (a channel that is never closed does not deadlock the bubble - the client's tickers keep virtual time going: bounded here)
				provCh := d.FindProvidersAsync(ctx, cid.NewCidV1(cid.Raw, mh.Multihash(key)), sc.Count)
				giveUp := time.After(3 * time.Hour)
			read:
				for {
					select {
					case p, ok := <-provCh:
						if !ok {
							break read
						}
						emits = append(emits, emit{sim.Now(), p.ID, len(p.Addrs)})
						time.Sleep(time.Duration(sc.SlowReadMs) * time.Millisecond)
					case <-giveUp:
						res.Fail("channel-closed", "C08/fullrt/channel-not-closed", "the result channel was not closed within 3 h of virtual time (cancel_ms %d)", sc.CancelMs)
						return
					}
				}
				closedAt = sim.Now()
				if sc.SlowReadMs > 0 {
					// a pausing consumer sees the channel close later than the search ended: the search ends with its last exchange
					var lastExchange time.Duration
					for _, e := range sim.Log() {
						if e.Kind == "request" && e.Type == pb.Message_GET_PROVIDERS && e.End > lastExchange {
							lastExchange = e.End
						}
					}
					if lastExchange > 0 && lastExchange < closedAt {
						closedAt = lastExchange
					}
				}
				cancel()
				time.Sleep(time.Minute)
				log = sim.Log()
			})
			if !out.OK() {
				res.Fail("channel-closed", "C08/fullrt/hang-or-panic", "%s %s\n%s", out.Deadlock, out.Panic, out.Stacks)
				return
			}
			if len(res.Violations) > 0 {
				return
			}
			// The accelerated client stops waiting once enough of the K peers have answered and then cancels the rest; the channel
			// closes at that same virtual instant. An answer delivered at exactly that instant may be cut while its providers are
			// being handed over (the hand-over selects on the cancelled context): it counts for "only reported" but not for
			// "count 0 yields every named provider" — whether it was "processed" is a coin toss, not a fact.
			named := map[peer.ID]int{}      // named in an answer delivered by the time the channel closed -> by how many responders
			namedSure := map[peer.ID]bool{} // ... delivered strictly before it closed
			for _, e := range log {
				if e.Kind == "request" && e.Type == pb.Message_GET_PROVIDERS && e.Outcome == "ok" && e.End <= closedAt {
					for _, mp := range e.Resp.GetProviderPeers() {
						named[peer.ID(mp.Id)]++
						if e.End < closedAt {
							namedSure[peer.ID(mp.Id)] = true
						}
					}
				}
			}
			first := map[peer.ID]emit{}
			times := map[peer.ID]int{}
			for _, em := range emits {
				if !localIDs[em.id] && named[em.id] == 0 {
					res.Fail("only-reported", "C08/fullrt/unreported", "yielded a peer that is neither a local provider nor named in a delivered answer")
				}
				times[em.id]++
				if f, ok := first[em.id]; ok {
					if times[em.id] > 2 || f.addrs != 0 || em.addrs == 0 {
						res.Fail("repeat-only-for-addrs", "C08/fullrt/repeat", "a provider was yielded %d times (first with %d addresses, now with %d)", times[em.id], f.addrs, em.addrs)
					}
				} else {
					first[em.id] = em
				}
			}
			if sc.Count > 0 && len(first) > sc.Count {
				res.Fail("at-most-count", "C08/fullrt/over-count", "%d distinct providers yielded, count=%d", len(first), sc.Count)
			}
			if sc.Count == 0 && sc.CancelMs == 0 {
				for p := range namedSure {
					if _, ok := first[p]; !ok {
						var lg []string
						for _, e := range log {
							lg = append(lg, fmt.Sprintf("%s->%d %v..%v %s provs=%d", e.Kind, idx[e.Peer], e.Start, e.End, e.Outcome, len(e.Resp.GetProviderPeers())))
						}
						var es []string
						for _, em := range emits {
							es = append(es, fmt.Sprintf("%x@%v", []byte(em.id)[len(em.id)-3:], em.at))
						}
						res.Fail("count0-all", "C08/fullrt/missing", "count 0: provider %x named in a delivered answer was not yielded; emits %v closed at %v; log %v", []byte(p)[len(p)-3:], es, closedAt, lg)
						break
					}
				}
				for p := range localIDs {
					if _, ok := first[p]; !ok {
						res.Fail("count0-all", "C08/fullrt/missing-local", "count 0: a local provider was not yielded")
						break
					}
				}
			}
			multi := false
			for _, n := range named {
				if n >= 2 {
					multi = true
				}
			}
			avail := len(localIDs)
			for p := range named {
				if !localIDs[p] {
					avail++
				}
			}
			res.NonTrivial = multi || (sc.Count > 0 && avail > sc.Count)
			if multi {
				res.Class("provider-named-by-several")
			}
			if sc.Count == 0 {
				res.Class("count-0")
			} else if len(first) == sc.Count {
				res.Class("count-reached")
			}
			if sc.CancelMs < 0 {
				res.Class("context-cancelled-beforehand")
			}
			if sc.CancelMs > 0 {
				res.Class("cancelled")
			}
			return
		},
	})
}
