//go:build verif

package fullrt

// C14 (accelerated client part): Close stops the crawler loop and the
// subscriber, may be repeated, and a failed constructor leaves nothing behind.

import (
	"context"
	"errors"
	"strings"
	"testing"
	"time"

	kaddht "github.com/libp2p/go-libp2p-kad-dht"
	"github.com/libp2p/go-libp2p-kad-dht/crawler"
	"github.com/libp2p/go-libp2p-kad-dht/internal/verifnet"
	"github.com/libp2p/go-libp2p-kad-dht/internal/verifsim"
	"github.com/libp2p/go-libp2p-kad-dht/records"
	"github.com/libp2p/go-libp2p/core/peer"
	ma "github.com/multiformats/go-multiaddr"
	"pgregory.net/rapid"
)

type frtCloseSc struct {
	Fault    string `json:"fault"`    // "" | subscribe | provopt | dhtopt
	CrawlMs  int    `json:"crawl_ms"` // how long a crawl takes (virtual)
	CloseMs  int    `json:"close_ms"`
	NClose   int    `json:"n_close"`
	NoProv   bool   `json:"no_providers"`
	OpDuring bool   `json:"op_during"`
	Triggers int    `json:"triggers,omitempty"` // TriggerRefresh calls (contexts that never end) waiting when the first Close call is made
}

// slowCrawler takes CrawlMs of virtual time per crawl and honours its context.
type slowCrawler struct{ d time.Duration }

func (c *slowCrawler) Run(ctx context.Context, start []*peer.AddrInfo, ok crawler.HandleQueryResult, fail crawler.HandleQueryFail) {
	_ = verifnet.WaitContext(ctx, c.d)
}

func bubbleIDs() map[string]verifsim.GoroutineState {
	out := map[string]verifsim.GoroutineState{}
	for _, g := range verifsim.Census(true) {
		out[g.ID] = g
	}
	return out
}

func TestVerif_C14_FullRT(t *testing.T) {
	verifsim.RunCheck(t, verifsim.Check[frtCloseSc]{
		Property: "C14", Part: "fullrt",
		Rule: "rapid: NewFullRT with an optional injected constructor fault (failing event-bus subscription, failing provider-manager option, failing DHT option) and a crawler that takes 0-5000 ms of virtual time per crawl; Close at a drawn " +
			"instant (before, during or after the first crawl), called 1-3 times, optionally with a GetClosestPeers call in flight and 1-8 TriggerRefresh calls waiting for the crawler loop; oracle: the waiting calls return once Close has, census by id - nothing the constructor started survives Close, repeated Close returns, the subscription is closed, " +
			"a failed constructor leaves no goroutine and no subscription; non-trivial = Close during a crawl or a constructor fault",
		Gen: func(t *rapid.T) frtCloseSc {
			return frtCloseSc{
				Fault:    rapid.SampledFrom([]string{"", "", "", "subscribe", "provopt", "dhtopt"}).Draw(t, "fault"),
				CrawlMs:  rapid.SampledFrom([]int{0, 10, 1000, 5000}).Draw(t, "crawlMs"),
				CloseMs:  rapid.SampledFrom([]int{0, 5, 500, 3000, 7000}).Draw(t, "closeMs"),
				NClose:   rapid.IntRange(1, 3).Draw(t, "nClose"),
				NoProv:   rapid.IntRange(0, 3).Draw(t, "noProv") == 0,
				OpDuring: rapid.Bool().Draw(t, "opDuring"),
				Triggers: rapid.SampledFrom([]int{0, 0, 1, 2, 8}).Draw(t, "triggers"),
			}
		},
		Run: func(t *testing.T, sc frtCloseSc) (res verifsim.Result) {
			out := verifsim.Bubble(t, func() {
				h := verifnet.NewHost(peer.ID(c16pp().IDs[9]), []ma.Multiaddr{ma.StringCast("/ip4/8.200.0.1/tcp/1")})
				defer h.Close()
				h.Subs.SlowClose = time.Millisecond
				verifsim.Quiesce()
				before := bubbleIDs()
				dopts := []kaddht.Option{kaddht.BucketSize(4), kaddht.Validator(c16Validator{}), kaddht.BootstrapPeersFunc(func() []peer.AddrInfo { return nil })}
				if sc.NoProv {
					dopts = append(dopts, kaddht.DisableProviders())
				}
				opts := []Option{WithCrawler(&slowCrawler{time.Duration(sc.CrawlMs) * time.Millisecond})}
				switch sc.Fault {
				case "subscribe":
					h.Subs.FailSubscribe = 1
				case "provopt":
					opts = append(opts, WithProviderManagerOptions(func(*records.ProviderManager) error { return errors.New("injected") }))
				case "dhtopt":
					dopts = append(dopts, kaddht.Option(nil))
					dopts = dopts[:len(dopts)-1]
					dopts = append(dopts, kaddht.ProviderManagerOpts(func(*records.ProviderManager) error { return errors.New("injected") }))
				}
				opts = append(opts, DHTOption(dopts...))
				d, err := NewFullRT(h, "/sim", opts...)
				leftovers := func(when string) bool {
					verifsim.Quiesce()
					var left []string
					for id, g := range bubbleIDs() {
						if _, ok := before[id]; !ok {
							lines := strings.Split(g.Stack, "\n")
							if len(lines) > 8 {
								lines = lines[:8]
							}
							left = append(left, strings.Join(lines, "\n"))
						}
					}
					if len(left) > 0 {
						res.Fail("nothing-left", "C14/fullrt/goroutine-left-"+when, "%s: %d goroutine(s) left:\n%s", when, len(left), strings.Join(left[:min(2, len(left))], "\n\n"))
						return true
					}
					if n := h.Subs.Open(); n != 0 {
						res.Fail("subscriptions-closed", "C14/fullrt/subscription-left-"+when, "%s: %d event-bus subscription(s) still open", when, n)
						return true
					}
					return false
				}
				if err != nil {
					time.Sleep(time.Second)
					leftovers("after a failed constructor")
					return
				}
				if sc.OpDuring {
					go func() { d.GetClosestPeers(context.Background(), "key") }()
				}
				time.Sleep(time.Duration(sc.CloseMs) * time.Millisecond)
				var trig []chan struct{}
				for i := 0; i < sc.Triggers; i++ {
					c := make(chan struct{})
					trig = append(trig, c)
					go func() { defer close(c); _ = d.TriggerRefresh(context.Background()) }()
				}
				if len(trig) > 0 {
					verifsim.Quiesce() // (taken by an idle crawler loop, or waiting for a busy one)
				}
				for i := 0; i < sc.NClose; i++ {
					done := make(chan struct{})
					go func() { defer close(done); d.Close() }()
					select {
					case <-done:
					case <-time.After(10 * time.Minute):
						res.Fail("close-returns", "C14/fullrt/close-hangs", "Close call %d did not return within 10 min of virtual time", i)
						return
					}
					if i == 0 {
						verifsim.Quiesce()
						for j, c := range trig {
							select {
							case <-c:
							default:
								res.Fail("operations-in-flight-return", "C14/fullrt/operation-hangs-after-close", "TriggerRefresh call %d of %d, waiting when Close was called, has not returned after Close did", j+1, len(trig))
								return
							}
						}
					}
					if i == 0 && leftovers("after Close returned") {
						return
					}
				}
			})
			if !out.OK() && len(res.Violations) == 0 {
				res.Fail("nothing-left", "C14/fullrt/hang-or-panic", "%s %s\n%s", out.Deadlock, out.Panic, out.Stacks)
			}
			res.NonTrivial = sc.Fault != "" || (sc.CloseMs > 0 && sc.CloseMs < sc.CrawlMs)
			res.Class("fault-" + sc.Fault)
			if sc.Fault == "" && sc.Triggers > 0 && sc.CloseMs > 0 && sc.CloseMs < sc.CrawlMs {
				res.Class("refresh-requests-waiting-at-close")
			}
			return
		},
	})
}
