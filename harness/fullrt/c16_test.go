//go:build verif

package fullrt

// C16 — accelerated client returns the true nearest crawled peers, safely.

import (
	"context"
	"crypto/sha256"
	"fmt"
	"sort"
	"strings"
	"sync"
	"testing"
	"time"

	"github.com/ipfs/go-cid"
	kaddht "github.com/libp2p/go-libp2p-kad-dht"
	"github.com/libp2p/go-libp2p-kad-dht/crawler"
	"github.com/libp2p/go-libp2p-kad-dht/internal/verifnet"
	"github.com/libp2p/go-libp2p-kad-dht/internal/verifsim"
	pb "github.com/libp2p/go-libp2p-kad-dht/pb"
	"github.com/libp2p/go-libp2p/core/host"
	"github.com/libp2p/go-libp2p/core/peer"
	"github.com/libp2p/go-libp2p/core/protocol"
	ma "github.com/multiformats/go-multiaddr"
	mh "github.com/multiformats/go-multihash"
	"pgregory.net/rapid"
)

const c16Pool = 1 << 12

func c16pp() *verifsim.Pool { return verifsim.NewPool("peer", c16Pool) }
func c16kp() *verifsim.Pool { return verifsim.NewPool("key", c16Pool) }

type crawledPeer struct {
	ID     int   `json:"id"`
	Groups []int `json:"groups"` // IP groups (/16) of its 1-2 addresses
}

type closestSc struct {
	K     int           `json:"k"`
	Limit int           `json:"limit"`
	Peers []crawledPeer `json:"peers"`
	Key   int           `json:"key"`
}

func addrIn(group, n int) ma.Multiaddr {
	if n%2 == 0 {
		return ma.StringCast(fmt.Sprintf("/ip4/8.%d.%d.%d/tcp/4001", group%250, (n/250)%250, n%250+1))
	}
	return ma.StringCast(fmt.Sprintf("/ip4/8.%d.%d.%d/udp/4001/quic-v1", group%250, (n/250)%250, n%250+1))
}

// fakeCrawler reports a fixed peer set; optionally it blocks until released.
type fakeCrawler struct {
	mu      sync.Mutex
	peers   []peer.ID
	runs    int
	started chan struct{} // receives one token per Run start
}

func (c *fakeCrawler) set(ps []peer.ID) { c.mu.Lock(); c.peers = ps; c.mu.Unlock() }

func (c *fakeCrawler) Run(ctx context.Context, start []*peer.AddrInfo, ok crawler.HandleQueryResult, fail crawler.HandleQueryFail) {
	c.mu.Lock()
	ps := append([]peer.ID(nil), c.peers...)
	c.runs++
	c.mu.Unlock()
	for _, p := range ps {
		ok(p, nil)
	}
	if c.started != nil {
		select {
		case c.started <- struct{}{}:
		default:
		}
	}
}

func install(h *verifnet.Host, peers []crawledPeer) []peer.ID {
	pp := c16pp()
	var ids []peer.ID
	for _, cp := range peers {
		id := peer.ID(pp.IDs[cp.ID])
		var addrs []ma.Multiaddr
		for j, g := range cp.Groups {
			addrs = append(addrs, addrIn(g, cp.ID*2+j))
		}
		h.Peerstore().AddAddrs(id, addrs, time.Hour)
		h.Net().AddConn(id, addrs[0])
		ids = append(ids, id)
	}
	return ids
}

func newFullRT(h *verifnet.Host, k, limit int, c crawler.Crawler, sim *verifnet.Sim, extra ...kaddht.Option) (*FullRT, error) {
	opts := []kaddht.Option{kaddht.BucketSize(k), kaddht.BootstrapPeersFunc(func() []peer.AddrInfo { return nil })}
	if sim != nil {
		opts = append(opts, kaddht.WithCustomMessageSender(func(host.Host, []protocol.ID) pb.MessageSenderWithDisconnect { return sim }))
	}
	opts = append(opts, extra...)
	return NewFullRT(h, "/sim", WithCrawler(c), WithIPDiversityFilterLimit(limit), DHTOption(opts...))
}

// expectedClosest is the brute-force reference: walk the crawled peers by
// ascending distance; a peer is skipped when one of its IP groups already
// holds `limit` returned peers.
func expectedClosest(peers []crawledPeer, key string, k, limit int) (want []peer.ID, exact bool) {
	pp := c16pp()
	tk := sha256.Sum256([]byte(key))
	ps := append([]crawledPeer(nil), peers...)
	sort.Slice(ps, func(i, j int) bool { return verifsim.XorLess(tk, pp.Kad[ps[i].ID], pp.Kad[ps[j].ID]) })
	groupTotal := map[int]int{}
	for _, p := range ps {
		seen := map[int]bool{}
		for _, g := range p.Groups {
			if !seen[g] {
				groupTotal[g]++
				seen[g] = true
			}
		}
	}
	exact = true
	for _, n := range groupTotal {
		if limit > 0 && n > limit {
			exact = false
		}
	}
	for _, p := range ps {
		if len(want) < k {
			want = append(want, peer.ID(pp.IDs[p.ID]))
		}
	}
	return want, exact
}

func judgeClosest(res *verifsim.Result, sc *closestSc, peers []crawledPeer, key string, got []peer.ID, ctxs string) {
	pp := c16pp()
	tk := sha256.Sum256([]byte(key))
	byID := map[peer.ID]crawledPeer{}
	for _, p := range peers {
		byID[peer.ID(pp.IDs[p.ID])] = p
	}
	if len(got) > sc.K {
		res.Fail("at-most-k", "C16/closest/too-many", "%s: %d peers returned, K=%d", ctxs, len(got), sc.K)
	}
	groupCount := map[int]int{}
	seen := map[peer.ID]bool{}
	for i, p := range got {
		cp, ok := byID[p]
		if !ok {
			res.Fail("crawled", "C16/closest/not-crawled", "%s: returned peer is not part of the crawl", ctxs)
			return
		}
		if seen[p] {
			res.Fail("distinct", "C16/closest/duplicate", "%s: peer returned twice", ctxs)
		}
		seen[p] = true
		if i > 0 && !verifsim.XorLess(tk, sha256.Sum256([]byte(got[i-1])), sha256.Sum256([]byte(p))) {
			res.Fail("ascending", "C16/closest/order", "%s: result not in ascending distance", ctxs)
		}
		gs := map[int]bool{}
		for _, g := range cp.Groups {
			gs[g] = true
		}
		for g := range gs {
			groupCount[g]++
		}
	}
	if sc.Limit > 0 {
		for g, n := range groupCount {
			if n > sc.Limit {
				res.Fail("diversity", "C16/closest/ip-group-limit", "%s: %d returned peers share IP group 8.%d, configured limit %d", ctxs, n, g, sc.Limit)
			}
		}
	}
	want, exact := expectedClosest(peers, key, sc.K, sc.Limit)
	if exact {
		ok := len(got) == len(want)
		for i := range got {
			if ok && got[i] != want[i] {
				ok = false
			}
		}
		if !ok {
			sig := "C16/closest/not-exact-k"
			// the crawled peer that fills an IP group with two addresses in it (hypothesis: counted, then skipped as over the limit)
			for _, p := range peers {
				if len(p.Groups) == 2 && p.Groups[0] == p.Groups[1] && sc.Limit > 0 {
					sig = "C16/closest/not-exact-k"
				}
			}
			res.Fail("exact-k-nearest", sig, "%s: no IP group exceeds the limit %d, yet the result (%d peers) is not the %d nearest crawled peers (of %d)", ctxs, sc.Limit, len(got), len(want), len(peers))
		}
	}
}

func genCrawled(t *rapid.T, label string, minN, maxN int) []crawledPeer {
	n := rapid.IntRange(minN, maxN).Draw(t, label+"N")
	ids := rapid.SliceOfNDistinct(rapid.IntRange(0, c16Pool-1), n, n, func(i int) int { return i }).Draw(t, label+"Ids")
	nGroups := rapid.IntRange(1, 6).Draw(t, label+"Groups")
	out := make([]crawledPeer, n)
	for i, id := range ids {
		g := []int{rapid.IntRange(0, nGroups-1).Draw(t, label+"g1")}
		switch rapid.IntRange(0, 3).Draw(t, label+"two") {
		case 0:
			g = append(g, g[0]) // two addresses on one IP block (tcp + quic)
		case 1:
			g = append(g, rapid.IntRange(0, nGroups-1).Draw(t, label+"g2"))
		}
		out[i] = crawledPeer{ID: id, Groups: g}
	}
	return out
}

func TestVerif_C16_Closest(t *testing.T) {
	verifsim.RunCheck(t, verifsim.Check[closestSc]{
		Property: "C16", Part: "closest",
		Rule: "rapid: a crawl of 0-120 peers with 1-2 public addresses each drawn from 1-6 IP groups (incl. two addresses on one IP), installed through a fake crawler, K 1-8, diversity limit 0-3 set through " +
			"WithIPDiversityFilterLimit, key drawn; oracle = brute force over the crawled set: ascending distance, members of the crawl, per-group count <= limit, and exactly the K nearest when no group holds more crawled " +
			"peers than the limit (or the limit is 0); non-trivial = more than K crawled peers and a positive limit",
		Gen: func(t *rapid.T) closestSc {
			return closestSc{K: rapid.IntRange(1, 8).Draw(t, "k"), Limit: rapid.IntRange(0, 3).Draw(t, "limit"), Peers: genCrawled(t, "p", 0, 120), Key: rapid.IntRange(0, c16Pool-1).Draw(t, "key")}
		},
		Run: func(t *testing.T, sc closestSc) (res verifsim.Result) {
			out := verifsim.Bubble(t, func() {
				h := verifnet.NewHost(peer.ID(c16pp().IDs[c16Pool-1]), []ma.Multiaddr{ma.StringCast("/ip4/8.200.0.1/tcp/1")})
				defer h.Close()
				ids := install(h, sc.Peers)
				fc := &fakeCrawler{peers: ids}
				d, err := newFullRT(h, sc.K, sc.Limit, fc, verifnet.NewSim())
				if err != nil {
					res.Fail("constructs", "C16/new/error", "%v", err)
					return
				}
				defer d.Close()
				verifsim.Quiesce()
				if len(d.Stat()) != len(sc.Peers) {
					res.Fail("crawl-installed", "C16/crawl/not-installed", "Stat lists %d peers, crawl reported %d", len(d.Stat()), len(sc.Peers))
					return
				}
				key := c16kp().IDs[sc.Key]
				got, err := d.GetClosestPeers(context.Background(), key)
				if err != nil {
					res.Fail("no-error", "C16/closest/error", "%v", err)
					return
				}
				judgeClosest(&res, &sc, sc.Peers, key, got, "single crawl")
			})
			if !out.OK() {
				res.Fail("terminates", "C16/closest/hang-or-panic", "%s %s\n%s", out.Deadlock, out.Panic, out.Stacks)
			}
			res.NonTrivial = len(sc.Peers) > sc.K && sc.Limit > 0
			_, exact := expectedClosest(sc.Peers, "", sc.K, sc.Limit)
			if exact {
				res.Class("exact-class")
			}
			if sc.Limit > 0 {
				res.Class("limit>0")
			}
			return
		},
	})
}

// ---------- part: swap race (reader while the crawl swap is parked at a hook point) ----------

type swapSc struct {
	K     int           `json:"k"`
	Old   []crawledPeer `json:"old"`
	New   []crawledPeer `json:"new"`
	Key   int           `json:"key"`
	Point int           `json:"point"` // 0: after the address map, 1: after the key map
}

var swapMu sync.Mutex

func TestVerif_C16_Swap(t *testing.T) {
	verifsim.RunCheck(t, verifsim.Check[swapSc]{
		Property: "C16", Part: "swap",
		Rule: "rapid: two successive crawls (0-40 peers each, overlapping) ; the second crawl's swap is paused at one of the two hook points between its installation steps and a reader calls GetClosestPeers " +
			"(goroutine-state probe: the reader either returns or blocks on the table's read lock until the swap is released); oracle = the reader's result equals the exact result for the old crawl or for the new crawl " +
			"(one single completed crawl), never a mixture; non-trivial = the two crawls differ among the K nearest to the key",
		Gen: func(t *rapid.T) swapSc {
			sc := swapSc{K: rapid.IntRange(1, 6).Draw(t, "k"), Key: rapid.IntRange(0, c16Pool-1).Draw(t, "key"), Point: rapid.IntRange(0, 1).Draw(t, "point")}
			sc.Old = genCrawled(t, "old", 0, 40)
			sc.New = genCrawled(t, "new", 0, 40)
			// overlap: copy some old peers into the new crawl
			have := map[int]bool{}
			for _, p := range sc.New {
				have[p.ID] = true
			}
			for _, p := range sc.Old {
				if !have[p.ID] && rapid.Bool().Draw(t, "keep") {
					sc.New = append(sc.New, p)
				}
			}
			return sc
		},
		Run: func(t *testing.T, sc swapSc) (res verifsim.Result) {
			swapMu.Lock()
			defer swapMu.Unlock()
			h := verifnet.NewHost(peer.ID(c16pp().IDs[c16Pool-1]), []ma.Multiaddr{ma.StringCast("/ip4/8.200.0.1/tcp/1")})
			defer h.Close()
			oldIDs := install(h, sc.Old)
			newIDs := install(h, sc.New)
			fc := &fakeCrawler{peers: oldIDs, started: make(chan struct{}, 4)}
			d, err := newFullRT(h, sc.K, 0, fc, nil)
			if err != nil {
				res.Fail("constructs", "C16/new/error", "%v", err)
				return
			}
			defer d.Close()
			waitFor := func(cond func() bool) bool {
				deadline := time.Now().Add(20 * time.Second)
				for !cond() {
					if time.Now().After(deadline) {
						return false
					}
					time.Sleep(200 * time.Microsecond)
				}
				return true
			}
			// wait until the first crawl's swap has fully completed (lastCrawlTime is set in its last step)
			if !waitFor(func() bool {
				d.rtLk.RLock()
				defer d.rtLk.RUnlock()
				return !d.lastCrawlTime.IsZero() && d.rt.Size() == len(sc.Old)
			}) {
				fmt.Printf("VERIF-HARNESS: C16 swap: first crawl not installed within 20 s (stat %d, want %d) - case skipped\n", len(d.Stat()), len(sc.Old))
				res.Class("harness-timeout")
				return
			}
			points := []string{"swap:addrs-installed", "swap:keymap-installed"}
			parked := make(chan struct{})
			release := make(chan struct{})
			fn := func(point string) {
				if point == points[sc.Point] {
					select {
					case parked <- struct{}{}:
						<-release
					default:
					}
				}
			}
			verifYieldFn.Store(&fn)
			defer verifYieldFn.Store(nil)
			fc.set(newIDs)
			go func() { _ = d.TriggerRefresh(context.Background()) }()
			select {
			case <-parked:
			case <-time.After(20 * time.Second):
				fmt.Printf("VERIF-HARNESS: C16 swap: second crawl did not reach the hook point within 20 s - case skipped\n")
				res.Class("harness-timeout")
				return
			}
			key := c16kp().IDs[sc.Key]
			type rr struct {
				got []peer.ID
				err error
			}
			done := make(chan rr, 1)
			gidCh := make(chan int64, 1)
			go func() {
				gidCh <- verifsim.CurGID()
				g, err := d.GetClosestPeers(context.Background(), key)
				done <- rr{g, err}
			}()
			gid := <-gidCh
			var result *rr
			blocked := 0
			for result == nil && blocked < 3 {
				select {
				case r := <-done:
					result = &r
				default:
					st := verifsim.GoroutineWaitState(gid)
					if strings.Contains(st, "RWMutex") || strings.Contains(st, "semacquire") || strings.Contains(st, "Mutex") {
						blocked++
					} else {
						blocked = 0
					}
					time.Sleep(300 * time.Microsecond)
				}
			}
			close(release)
			if result == nil {
				r := <-done
				result = &r
				res.Class("reader-blocked-until-swap-done")
			} else {
				res.Class("reader-ran-mid-swap")
			}
			csc := closestSc{K: sc.K, Limit: 0}
			var rOld, rNew verifsim.Result
			judgeClosest(&rOld, &csc, sc.Old, key, result.got, "old")
			judgeClosest(&rNew, &csc, sc.New, key, result.got, "new")
			if len(rOld.Violations) > 0 && len(rNew.Violations) > 0 {
				res.Fail("single-crawl", "C16/swap/mixed-crawls", "reader during the swap (paused at %s) got %d peers that are the exact result of neither the old crawl (%s) nor the new crawl (%s)",
					points[sc.Point], len(result.got), rOld.Violations[0].Detail, rNew.Violations[0].Detail)
			}
			wo, _ := expectedClosest(sc.Old, key, sc.K, 0)
			wn, _ := expectedClosest(sc.New, key, sc.K, 0)
			res.NonTrivial = fmt.Sprint(wo) != fmt.Sprint(wn)
			return
		},
	})
}

// ---------- part: empty table / missing options ----------

type emptySc struct {
	Op      string `json:"op"`
	NoBoot  bool   `json:"no_bootstrap_option"`
	NoCrawl bool   `json:"no_crawler_option"`
	NKeys   int    `json:"n_keys"`
	// missing / degenerate sizing options, with a table that is not empty (0-6 crawled peers)
	NoBucket bool `json:"no_bucket_size_option,omitempty"`
	Limit0   bool `json:"ip_limit_zero,omitempty"`
	Crawled  int  `json:"crawled,omitempty"`
}

func TestVerif_C16_Empty(t *testing.T) {
	verifsim.RunCheck(t, verifsim.Check[emptySc]{
		Property: "C16", Part: "empty",
		Rule: "rapid: every single and bulk operation (GetClosestPeers, FindPeer, GetValue, SearchValue, PutValue, Provide, FindProvidersAsync, ProvideMany, PutMany) on an accelerated client whose table is empty or holds 1-6 crawled peers, " +
			"constructed with or without the bootstrap-peers / crawler / bucket-size options and with the IP-diversity limit set to 0 or left at its default; oracle: the constructor and the operation return (an error or an empty result) within 10 min of virtual time and never panic; non-trivial = a bulk operation or a missing option",
		Gen: func(t *rapid.T) emptySc {
			return emptySc{
				Op:       rapid.SampledFrom([]string{"closest", "findpeer", "getvalue", "searchvalue", "putvalue", "provide", "findprov", "providemany", "putmany"}).Draw(t, "op"),
				NoBoot:   rapid.IntRange(0, 3).Draw(t, "noBoot") == 0,
				NoCrawl:  rapid.IntRange(0, 3).Draw(t, "noCrawl") == 0,
				NKeys:    rapid.IntRange(0, 3).Draw(t, "nKeys"),
				NoBucket: verifsim.Chance(t, "noBucket", 30),
				Limit0:   verifsim.Chance(t, "limit0", 40),
				Crawled:  rapid.SampledFrom([]int{0, 0, 1, 3, 6}).Draw(t, "crawled"),
			}
		},
		Run: func(t *testing.T, sc emptySc) (res verifsim.Result) {
			out := verifsim.Bubble(t, func() {
				h := verifnet.NewHost(peer.ID(c16pp().IDs[c16Pool-1]), []ma.Multiaddr{ma.StringCast("/ip4/8.200.0.1/tcp/1")})
				defer h.Close()
				sim := verifnet.NewSim()
				opts := []kaddht.Option{kaddht.Validator(c16Validator{}),
					kaddht.WithCustomMessageSender(func(host.Host, []protocol.ID) pb.MessageSenderWithDisconnect { return sim })}
				if !sc.NoBucket {
					opts = append(opts, kaddht.BucketSize(4))
				}
				if !sc.NoBoot {
					opts = append(opts, kaddht.BootstrapPeersFunc(func() []peer.AddrInfo { return nil }))
				}
				fopts := []Option{DHTOption(opts...)}
				if sc.Limit0 {
					fopts = append(fopts, WithIPDiversityFilterLimit(0))
				}
				if !sc.NoCrawl {
					var cps []crawledPeer
					for i := 0; i < sc.Crawled; i++ {
						cps = append(cps, crawledPeer{ID: 20 + i, Groups: []int{i % 3}})
					}
					fopts = append(fopts, WithCrawler(&fakeCrawler{peers: install(h, cps)}))
				}
				var d *FullRT
				var err error
				func() {
					defer func() {
						if r := recover(); r != nil {
							res.Fail("constructor-no-panic", "C16/new/panic", "NewFullRT panicked (bootstrap option given: %v, crawler option given: %v): %v", !sc.NoBoot, !sc.NoCrawl, r)
						}
					}()
					d, err = NewFullRT(h, "/sim", fopts...)
				}()
				if d == nil {
					_ = err
					return
				}
				defer d.Close()
				verifsim.Quiesce()
				ctx := context.Background()
				done := make(chan string, 1)
				go func() {
					defer func() {
						if r := recover(); r != nil {
							done <- fmt.Sprintf("PANIC: %v", r)
						}
					}()
					key := c16kp().IDs[5]
					c := cid.NewCidV1(cid.Raw, mh.Multihash(key))
					var keys []mh.Multihash
					var skeys []string
					var vals [][]byte
					for i := 0; i < sc.NKeys; i++ {
						keys = append(keys, mh.Multihash(c16kp().IDs[10+i]))
						skeys = append(skeys, fmt.Sprintf("/v/k%d", i))
						vals = append(vals, []byte("v"))
					}
					switch sc.Op {
					case "closest":
						_, _ = d.GetClosestPeers(ctx, key)
					case "findpeer":
						_, _ = d.FindPeer(ctx, peer.ID(c16pp().IDs[7]))
					case "getvalue":
						_, _ = d.GetValue(ctx, "/v/k1")
					case "searchvalue":
						ch, err := d.SearchValue(ctx, "/v/k1")
						if err == nil {
							for range ch {
							}
						}
					case "putvalue":
						_ = d.PutValue(ctx, "/v/k1", []byte("v"))
					case "provide":
						_ = d.Provide(ctx, c, true)
					case "findprov":
						for range d.FindProvidersAsync(ctx, c, 1) {
						}
					case "providemany":
						_ = d.ProvideMany(ctx, keys)
					case "putmany":
						_ = d.PutMany(ctx, skeys, vals)
					}
					done <- ""
				}()
				select {
				case msg := <-done:
					if msg != "" {
						res.Fail("no-panic", "C16/empty/"+sc.Op+"/panic", "%s on an empty table: %s", sc.Op, msg)
					}
				case <-time.After(10 * time.Minute):
					res.Fail("returns", "C16/empty/"+sc.Op+"/hang", "%s on an empty table did not return within 10 min of virtual time", sc.Op)
				}
			})
			if out.Panic != "" {
				res.Fail("no-panic", "C16/empty/"+sc.Op+"/panic", "%s", out.Panic)
			} else if out.Deadlock != "" && len(res.Violations) == 0 {
				res.Fail("returns", "C16/empty/"+sc.Op+"/hang", "%s\n%s", out.Deadlock, out.Stacks)
			}
			res.NonTrivial = sc.NoBoot || sc.NoCrawl || strings.HasSuffix(sc.Op, "many")
			res.Class("op-" + sc.Op)
			return
		},
	})
}

type c16Validator struct{}

func (c16Validator) Validate(key string, value []byte) error       { return nil }
func (c16Validator) Select(key string, vals [][]byte) (int, error) { return 0, nil }
