//go:build verif

package net

// C11 — every RPC reply is matched to its own request.
// The real messageSenderImpl over fake streams served by scripted honest
// responders (echo of the request's unique id after a drawn delay, reset,
// close, garbage, silence), concurrent clients, cancellations, disconnects.
// Also hosts layer 2 of C10 (arbitrary bytes from the remote).

import (
	"context"
	"encoding/binary"
	"errors"
	"fmt"
	"io"
	"strings"
	"sync"
	"testing"
	"time"

	"github.com/libp2p/go-libp2p-kad-dht/internal/verifnet"
	"github.com/libp2p/go-libp2p-kad-dht/internal/verifsim"
	pb "github.com/libp2p/go-libp2p-kad-dht/pb"
	"github.com/libp2p/go-libp2p/core/network"
	"github.com/libp2p/go-libp2p/core/peer"
	"github.com/libp2p/go-libp2p/core/protocol"
	"github.com/libp2p/go-msgio"
	ma "github.com/multiformats/go-multiaddr"
	"google.golang.org/protobuf/proto"
	"pgregory.net/rapid"
)

type attempt struct {
	Action  string `json:"action"` // echo | reset | close | silent | garbage | oversize | partial
	DelayMs int    `json:"delay_ms"`
}

type cliOp struct {
	Peer     int       `json:"peer"`
	Msg      bool      `json:"msg"` // SendMessage instead of SendRequest
	StartMs  int       `json:"start_ms"`
	CancelMs int       `json:"cancel_ms,omitempty"`
	Attempts []attempt `json:"attempts"` // behaviour of the remote for the 1st, 2nd, ... time it receives this request id
}

type msSc struct {
	Clients     [][]cliOp `json:"clients"`
	Disconnects [][2]int  `json:"disconnects"`           // (peer, at ms)
	FailStreams []int     `json:"fail_streams"`          // global indices of NewStream calls that fail
	DeafStreams []int     `json:"deaf_streams,omitempty"` // global indices of streams whose remote end accepts the stream and then never reads (with SyncWrites: the client's write blocks)
	DialMs      []int     `json:"dial_ms,omitempty"`     // latency of the i-th NewStream call (cyclic)
	PickupMs    []int     `json:"pickup_ms,omitempty"`   // how long the remote waits before reading its n-th message on a stream (cyclic over stream*4+n)
	SyncWrites  bool      `json:"sync_writes,omitempty"` // client writes block until the remote has read them (exhausted send window)
	YieldMs     []int     `json:"yield_ms,omitempty"`    // virtual pause at the n-th yield point reached in the sender bookkeeping (cyclic; build-tag hook)
}

type cliEvent struct {
	At      time.Duration
	Stream  int
	Peer    int
	What    string        // open | reset | close
	OpStart time.Duration // open: when the call that opened the stream started
	Op      string
}

type opCtxKey struct{}

type opInfo struct {
	ID    string
	Start time.Duration
}

type srvEvent struct {
	At     time.Duration
	Stream int
	Peer   int
	What   string // recv:<id> | reply:<id> | reset | close | garbage
}

type opResult struct {
	ID      string
	Op      cliOp
	Start   time.Duration
	End     time.Duration
	Err     error
	RespKey string
	Resp    bool
}

func frameOf(m *pb.Message) []byte {
	b, _ := proto.Marshal(m)
	var hdr [binary.MaxVarintLen64]byte
	n := binary.PutUvarint(hdr[:], uint64(len(b)))
	return append(hdr[:n:n], b...)
}

func runMS(t *testing.T, sc *msSc) (res verifsim.Result) {
	pool := verifsim.NewPool("peer", 64)
	var results []opResult
	var events []srvEvent
	var streams []*verifnet.Stream // client ends, by stream index
	var cliEvents []cliEvent
	var dcAt [][2]time.Duration // (peer, instant) of each OnDisconnect call
	streamPeer := map[int]int{}
	lateThenOK := 0
	concurrentSamePeer := 0
	storm := false // more streams opened than any schedule of the scripted calls and their single retries can account for
	out := verifsim.Bubble(t, func() {
		start := time.Now()
		now := func() time.Duration { return time.Since(start) }
		var mu sync.Mutex
		h := verifnet.NewHost(peer.ID(pool.IDs[0]), nil)
		defer h.Close()
		script := map[string]cliOp{}
		seenCount := map[string]int{}
		for ci, ops := range sc.Clients {
			for oi, op := range ops {
				script[fmt.Sprintf("c%d-r%d", ci, oi)] = op
			}
		}
		var srvWG sync.WaitGroup
		var srvEnds []*verifnet.Stream
		nStreams := 0
		tornDown := false
		failStream := map[int]bool{}
		for _, i := range sc.FailStreams {
			failStream[i] = true
		}
		deafStream := map[int]bool{}
		for _, i := range sc.DeafStreams {
			deafStream[i] = true
		}
		logEv := func(e srvEvent) { mu.Lock(); e.At = now(); events = append(events, e); mu.Unlock() }
		h.NewStreamFn = func(ctx context.Context, p peer.ID, pids ...protocol.ID) (network.Stream, error) {
			mu.Lock()
			idx := nStreams
			nStreams++
			streams = append(streams, nil)
			td := tornDown
			if idx >= 2000 {
				storm = true
			}
			mu.Unlock()
			if td {
				return nil, errors.New("verif: torn down")
			}
			if idx >= 2000 {
				// (a sender that reopens streams without bound never blocks: it would keep the bubble busy at one virtual instant)
				return nil, errors.New("verif: stream storm")
			}
			if len(sc.DialMs) > 0 {
				if err := verifnet.WaitContext(ctx, time.Duration(sc.DialMs[idx%len(sc.DialMs)])*time.Millisecond); err != nil {
					return nil, err
				}
			}
			if failStream[idx] {
				return nil, errors.New("verif: cannot open stream")
			}
			pi := 0
			for i := 1; i < 8; i++ {
				if peer.ID(pool.IDs[i]) == p {
					pi = i
				}
			}
			cli, srv := verifnet.NewStreamPair(nil, nil, pids[0])
			cli.SyncWrites = sc.SyncWrites
			cli.OnEvent = func(e string) {
				if e == "reset" || e == "close" {
					mu.Lock()
					cliEvents = append(cliEvents, cliEvent{At: now(), Stream: idx, Peer: pi, What: e})
					mu.Unlock()
				}
			}
			mu.Lock()
			streams[idx] = cli
			streamPeer[idx] = pi
			srvEnds = append(srvEnds, srv)
			oi, _ := ctx.Value(opCtxKey{}).(opInfo)
			cliEvents = append(cliEvents, cliEvent{At: now(), Stream: idx, Peer: pi, What: "open", OpStart: oi.Start, Op: oi.ID})
			mu.Unlock()
			srvWG.Add(1)
			go func() {
				defer srvWG.Done()
				if deafStream[idx] {
					// accepts the stream and never reads from it
					for !srv.Dead() && !srv.WasReset() {
						time.Sleep(time.Second)
					}
					return
				}
				r := msgio.NewVarintReaderSize(srv, network.MessageSizeMax)
				for nread := 0; ; nread++ {
					if len(sc.PickupMs) > 0 {
						time.Sleep(time.Duration(sc.PickupMs[(idx*4+nread)%len(sc.PickupMs)]) * time.Millisecond)
					}
					b, err := r.ReadMsg()
					if err != nil {
						return
					}
					req := new(pb.Message)
					if proto.Unmarshal(b, req) != nil {
						r.ReleaseMsg(b)
						return
					}
					r.ReleaseMsg(b)
					id := string(req.Key)
					logEv(srvEvent{Stream: idx, Peer: pi, What: "recv:" + id})
					mu.Lock()
					n := seenCount[id]
					seenCount[id]++
					op := script[id]
					mu.Unlock()
					if op.Msg {
						continue // fire-and-forget: honest responder sends nothing
					}
					at := attempt{Action: "echo"}
					if n < len(op.Attempts) {
						at = op.Attempts[n]
					} else if len(op.Attempts) > 0 {
						at = op.Attempts[len(op.Attempts)-1]
					}
					time.Sleep(time.Duration(at.DelayMs) * time.Millisecond)
					switch at.Action {
					case "echo":
						if _, err := srv.Write(frameOf(&pb.Message{Type: req.Type, Key: req.Key})); err != nil {
							return
						}
						logEv(srvEvent{Stream: idx, Peer: pi, What: "reply:" + id})
					case "reset":
						srv.Reset()
						logEv(srvEvent{Stream: idx, Peer: pi, What: "reset"})
						return
					case "close":
						srv.Close()
						logEv(srvEvent{Stream: idx, Peer: pi, What: "close"})
						return
					case "garbage":
						srv.Write([]byte{0x05, 0xff, 0xff, 0xff, 0xff, 0xff})
						logEv(srvEvent{Stream: idx, Peer: pi, What: "garbage"})
					case "oversize":
						var hdr [binary.MaxVarintLen64]byte
						k := binary.PutUvarint(hdr[:], uint64(network.MessageSizeMax+10))
						srv.Write(hdr[:k])
						logEv(srvEvent{Stream: idx, Peer: pi, What: "garbage"})
					case "partial":
						f := frameOf(&pb.Message{Type: req.Type, Key: req.Key})
						srv.Write(f[:len(f)-1])
						logEv(srvEvent{Stream: idx, Peer: pi, What: "garbage"})
					case "silent":
					case "othertype":
						// well-formed messages of another type than the request, one every 3 s for over a minute: whatever the client
						// makes of the first one (it carries the request's id), it must not keep the call waiting behind them
						for k := 0; k < 25; k++ {
							if _, err := srv.Write(frameOf(&pb.Message{Type: pb.Message_MessageType((int(req.Type) + 1 + k%3) % 6), Key: req.Key})); err != nil {
								return
							}
							if k == 0 {
								logEv(srvEvent{Stream: idx, Peer: pi, What: "reply:" + id})
							}
							time.Sleep(3 * time.Second)
						}
						return
					}
				}
			}()
			return cli, nil
		}
		if len(sc.YieldMs) > 0 {
			nYield := 0
			f := func(string) {
				mu.Lock()
				d := sc.YieldMs[nYield%len(sc.YieldMs)]
				nYield++
				mu.Unlock()
				if d > 0 {
					time.Sleep(time.Duration(d) * time.Millisecond)
				}
			}
			verifYieldFn.Store(&f)
			defer verifYieldFn.Store(nil)
		}
		ms := NewMessageSenderImpl(h, []protocol.ID{"/sim/kad/1.0.0"})
		var cliWG sync.WaitGroup
		for ci, ops := range sc.Clients {
			for oi, op := range ops {
				ci, oi, op := ci, oi, op
				cliWG.Add(1)
				go func() {
					defer cliWG.Done()
					time.Sleep(time.Duration(op.StartMs) * time.Millisecond)
					id := fmt.Sprintf("c%d-r%d", ci, oi)
					ctx, cancel := context.WithCancel(context.Background())
					defer cancel()
					if op.CancelMs > 0 {
						go func() {
							select {
							case <-time.After(time.Duration(op.CancelMs) * time.Millisecond):
								cancel()
							case <-ctx.Done():
							}
						}()
					}
					p := peer.ID(pool.IDs[1+op.Peer%3])
					r := opResult{ID: id, Op: op, Start: now()}
					ctx = context.WithValue(ctx, opCtxKey{}, opInfo{ID: id, Start: r.Start})
					req := &pb.Message{Type: pb.Message_FIND_NODE, Key: []byte(id)}
					if op.Msg {
						r.Err = ms.SendMessage(ctx, p, req)
					} else {
						var resp *pb.Message
						resp, r.Err = ms.SendRequest(ctx, p, req)
						if resp != nil {
							r.Resp = true
							r.RespKey = string(resp.Key)
						}
					}
					r.End = now()
					mu.Lock()
					results = append(results, r)
					mu.Unlock()
				}()
			}
		}
		for _, dc := range sc.Disconnects {
			dc := dc
			cliWG.Add(1)
			go func() {
				defer cliWG.Done()
				time.Sleep(time.Duration(dc[1]) * time.Millisecond)
				mu.Lock()
				dcAt = append(dcAt, [2]time.Duration{time.Duration(1 + dc[0]%3), now()})
				mu.Unlock()
				ms.OnDisconnect(context.Background(), peer.ID(pool.IDs[1+dc[0]%3]))
			}()
		}
		done := make(chan struct{})
		go func() { cliWG.Wait(); close(done) }()
		hung := false
		select {
		case <-done:
		case <-time.After(2 * time.Hour):
			hung = true
			res.Fail("terminates", "C11/sender/hang", "message sender calls did not return within 2 h of virtual time")
		}
		// tear down: no new streams, reset every stream so responders, late readers (and hung calls) end
		mu.Lock()
		cliEvents = append(cliEvents, cliEvent{At: now(), Stream: -1, What: "teardown"})
		tornDown = true
		all := append([]*verifnet.Stream(nil), streams...)
		mu.Unlock()
		for _, s := range all {
			if s != nil {
				s.Reset()
			}
		}
		time.Sleep(time.Minute)
		if hung {
			select {
			case <-done:
			case <-time.After(time.Hour):
			}
		}
		srvDone := make(chan struct{})
		go func() { srvWG.Wait(); close(srvDone) }()
		select {
		case <-srvDone:
		case <-time.After(time.Hour):
			res.Fail("terminates", "C11/harness/responder-left", "a scripted responder did not end after every stream was reset")
		}
		verifsim.Quiesce()
	})
	if !out.OK() {
		res.Fail("terminates", "C11/sender/hang-or-panic", "%s %s\n%s", out.Deadlock, out.Panic, out.Stacks)
		return
	}
	if storm {
		res.Fail("bounded-attempts", "C11/sender/stream-storm", "2000 streams were opened in one case: the scripted calls (one attempt and one retry each) account for a few dozen at most")
		return
	}
	// ---- oracle
	replyAt := map[string][]time.Duration{}
	recvOn := map[string][]int{}
	for _, e := range events {
		if strings.HasPrefix(e.What, "reply:") {
			replyAt[e.What[6:]] = append(replyAt[e.What[6:]], e.At)
		}
		if strings.HasPrefix(e.What, "recv:") {
			recvOn[e.What[5:]] = append(recvOn[e.What[5:]], e.Stream)
		}
	}
	// a call is bounded by: two pauses at yield points + per attempt (dial + remote picks the request up + 10 s read timeout), one retry
	maxOf := func(xs []int) (m int) {
		for _, x := range xs {
			m = max(m, x)
		}
		return
	}
	bound := time.Second + time.Duration(2*maxOf(sc.YieldMs)+2*(maxOf(sc.DialMs)+maxOf(sc.PickupMs)+10000))*time.Millisecond
	if len(sc.DeafStreams) > 0 && sc.SyncWrites {
		bound += 2 * writeTimeoutBound // a write nobody reads is given up after the sender's write timeout, once per attempt
	}
	for _, r := range results {
		if r.Op.Msg {
			continue
		}
		if r.Err == nil {
			if !r.Resp || r.RespKey != r.ID {
				res.Fail("own-reply", "C11/sender/wrong-reply", "request %s returned the reply to %q", r.ID, r.RespKey)
				return res
			}
			inTime := false
			for _, at := range replyAt[r.ID] {
				if at >= r.Start && at <= r.End {
					inTime = true
				}
			}
			if !inTime {
				res.Fail("own-reply", "C11/sender/reply-from-nowhere", "request %s succeeded but the remote wrote no reply to it during the call (%v..%v, replies at %v)", r.ID, r.Start, r.End, replyAt[r.ID])
				return res
			}
		} else {
			if r.Resp {
				res.Fail("error-or-reply", "C11/sender/reply-and-error", "request %s returned both a reply and %v", r.ID, r.Err)
			}
			// bounded: per attempt at most 3 s dial + 3 s until the remote picks the request up + 10 s read timeout; one retry
			if r.End-r.Start > bound && r.Op.CancelMs == 0 {
				// time spent waiting for the per-peer lock behind other requests is allowed: each of those is bounded too
				ahead := 0
				for _, o := range results {
					if o.Op.Peer%3 == r.Op.Peer%3 && o.ID != r.ID {
						ahead++
					}
				}
				if r.End-r.Start > time.Duration(ahead+1)*bound {
					res.Fail("bounded", "C11/sender/slow-failure", "request %s failed only after %v", r.ID, r.End-r.Start)
				}
			}
		}
	}
	// per stream: serialized exchanges, nothing written after a reset, reset after a failed exchange
	type pend struct {
		id string
		at time.Duration
	}
	pending := map[int]*pend{}
	for _, e := range events {
		switch {
		case strings.HasPrefix(e.What, "recv:"):
			id := e.What[5:]
			if p := pending[e.Stream]; p != nil && !script(sc, p.id).Msg {
				// the previous request on this stream is still unanswered: only legal if the client already gave up on it (then it must not reuse the stream)
				res.Fail("serialized", "C11/stream/overlapping-exchanges", "stream %d: request %s arrived at %v while %s (since %v) was still unanswered", e.Stream, id, e.At, p.id, p.at)
				return res
			}
			if script(sc, id).Msg {
				pending[e.Stream] = nil
			} else {
				pending[e.Stream] = &pend{id, e.At}
			}
		case strings.HasPrefix(e.What, "reply:"):
			pending[e.Stream] = nil
		}
	}
	for i, s := range streams {
		if s == nil {
			continue
		}
		resetSeen := false
		for _, ev := range s.Events {
			if ev == "reset" {
				resetSeen = true
			} else if resetSeen && strings.HasPrefix(ev, "write:") {
				res.Fail("no-reuse-after-reset", "C11/stream/write-after-reset", "stream %d written to after it was reset", i)
				return res
			}
		}
	}
	// at most one stream per peer: a stream to a peer is opened only once the previous one was reset or closed by the sender.
	// A disconnect notification replaces the peer's sender; calls that started before it may finish (and retry) on the old
	// sender while calls that started after it use the new one, so two streams opened by calls that started on different
	// sides of a disconnect notification may coexist.
	{
		live := map[int]*cliEvent{} // peer -> open event of its live stream
		acrossDisconnect := false
	scan:
		for i := range cliEvents {
			e := &cliEvents[i]
			switch e.What {
			case "teardown":
				break scan
			case "open":
				if prev := live[e.Peer]; prev != nil {
					excused := false
					lo, hi := prev.OpStart, e.OpStart
					if lo > hi {
						lo, hi = hi, lo
					}
					for _, d := range dcAt {
						if int(d[0]) == e.Peer && d[1] >= lo && d[1] <= hi {
							excused = true
						}
					}
					if excused && !acrossDisconnect {
						// Two streams to one peer at once, the calls having started on different sides of a disconnect notification:
						// the notification takes the peer's sender out of the map at once but invalidates it only when its lock is
						// free, so a call made in between gets a new sender - and a second stream - while the exchange in flight goes
						// on on the old one. The statement allows at most one stream "for any mix of ... disconnect notifications":
						// reported, under a signature of its own (listed as a known finding).
						acrossDisconnect = true
						res.Fail("one-stream", "C11/stream/two-live-streams-across-disconnect", "stream %d to peer %d opened at %v by %s (started %v) while stream %d (opened %v by %s, started %v) was neither reset nor closed; a disconnect of the peer was notified between the starts of the two calls", e.Stream, e.Peer, e.At, e.Op, e.OpStart, prev.Stream, prev.At, prev.Op, prev.OpStart)
					}
					if !excused {
						var hist []string
						for _, x := range cliEvents {
							if x.Peer == e.Peer {
								hist = append(hist, fmt.Sprintf("%v s%d %s", x.At, x.Stream, x.What))
							}
						}
						for _, x := range events {
							if x.Peer == e.Peer {
								hist = append(hist, fmt.Sprintf("%v s%d srv-%s", x.At, x.Stream, x.What))
							}
						}
						for _, x := range results {
							if 1+x.Op.Peer%3 == e.Peer {
								hist = append(hist, fmt.Sprintf("%v..%v %s msg=%v err=%v", x.Start, x.End, x.ID, x.Op.Msg, x.Err))
							}
						}
						res.Fail("one-stream", "C11/stream/two-live-streams", "stream %d to peer %d opened at %v by %s (started %v) while stream %d (opened %v by %s, started %v) was neither reset nor closed and no disconnect was notified between the starts of the two calls; history %v", e.Stream, e.Peer, e.At, e.Op, e.OpStart, prev.Stream, prev.At, prev.Op, prev.OpStart, hist)
						return res
					}
				}
				live[e.Peer] = e
			case "reset", "close":
				if prev := live[e.Peer]; prev != nil && prev.Stream == e.Stream {
					delete(live, e.Peer)
				}
			}
		}
	}
	// a failed (timed-out / cancelled mid-flight) request must not leave its stream in use by a later request
	for _, r := range results {
		if r.Op.Msg {
			continue
		}
		failedOn := recvOn[r.ID]
		if r.Err == nil && len(failedOn) > 0 {
			failedOn = failedOn[:len(failedOn)-1] // the last attempt succeeded; earlier ones failed
		}
		for _, si := range failedOn {
			// in event order: no other request may be received on that stream after the failed one
			after := false
			for _, e := range events {
				if e.Stream != si || !strings.HasPrefix(e.What, "recv:") {
					continue
				}
				if e.What[5:] == r.ID {
					after = true
					continue
				}
				if after {
					var evs []string
					for _, x := range events {
						if x.Stream == si {
							evs = append(evs, fmt.Sprintf("%v %s", x.At, x.What))
						}
					}
					res.Fail("reset-after-failure", "C11/stream/reused-after-failure", "stream %d carried request %s after request %s had failed on it (err %v); stream events %v; client events %v", si, e.What[5:], r.ID, r.Err, evs, streams[si].Events)
					return res
				}
			}
		}
	}
	// classification
	for _, r := range results {
		for _, o := range results {
			if r.ID != o.ID && r.Op.Peer%3 == o.Op.Peer%3 && r.Start < o.End && o.Start < r.End {
				concurrentSamePeer++
			}
		}
		if r.Err != nil {
			for _, o := range results {
				if o.Err == nil && !o.Op.Msg && o.Op.Peer%3 == r.Op.Peer%3 && o.End > r.End {
					lateThenOK++
				}
			}
		}
	}
	res.NonTrivial = concurrentSamePeer > 0 && lateThenOK > 0
	if concurrentSamePeer > 0 {
		res.Class("concurrent-same-peer")
	}
	if lateThenOK > 0 {
		res.Class("failure-then-success")
	}
	if len(sc.Disconnects) > 0 {
		res.Class("disconnects")
	}
	return res
}

func script(sc *msSc, id string) cliOp {
	var ci, oi int
	fmt.Sscanf(id, "c%d-r%d", &ci, &oi)
	if ci < len(sc.Clients) && oi < len(sc.Clients[ci]) {
		return sc.Clients[ci][oi]
	}
	return cliOp{}
}

func TestVerif_C11_MessageSender(t *testing.T) { verifsim.RunCheck(t, c11MessageSenderCheck()) }

// the same generator and oracle driven by Go's coverage-guided fuzzer (thorough tier)
func FuzzVerif_C11_MessageSender(f *testing.F) {
	verifsim.RunFuzz(f, c11MessageSenderCheck(), "TestVerif_C11_MessageSender")
}

func c11MessageSenderCheck() verifsim.Check[msSc] {
	return verifsim.Check[msSc]{
		Property: "C11", Part: "message-sender",
		Rule: "rapid: 1-6 client goroutines x 1-4 SendRequest/SendMessage calls to 3 peers at drawn virtual instants, optional cancellation instants, OnDisconnect notifications, failing NewStream calls; each peer is an honest " +
			"scripted responder that echoes the request's unique id after a drawn delay (0-25 s, i.e. also after the 10 s read timeout: a late reply), resets, closes, writes garbage / an oversize length prefix / a partial frame, or stays silent, " +
			"separately for the first and the retried attempt; optionally slow dials (0-3 s), remotes that pick requests up late - or never - with client writes blocking until then (exhausted send window), and drawn virtual pauses at the build-tag yield points " +
			"of the sender bookkeeping (between registering a sender and locking it, before removing a failed one, before a disconnect invalidates), so that the harness owns those interleavings; " +
			"oracle = every successful request returns the echo of its own id written during the call, failures are bounded, exchanges on one stream never overlap, nothing is written after a reset, " +
			"a stream is never used again after a failed exchange, and a stream to a peer is only opened once the previous one was reset or closed (two live streams whose calls started on different sides of a disconnect notification are reported under a signature of their own, a known finding); " +
			"non-trivial = concurrent requests to one peer with a failed exchange followed by a successful one",
		Gen: func(t *rapid.T) msSc {
			var sc msSc
			nc := rapid.IntRange(1, 6).Draw(t, "nClients")
			for c := 0; c < nc; c++ {
				ops := rapid.SliceOfN(rapid.Custom(func(t *rapid.T) cliOp {
					op := cliOp{Peer: rapid.IntRange(0, 2).Draw(t, "peer"), Msg: rapid.IntRange(0, 5).Draw(t, "msg") == 0}
					if rapid.Bool().Draw(t, "hotStart") {
						op.StartMs = rapid.SampledFrom([]int{0, 1, 200, 500, 1000, 2000, 5000, 10000, 12000}).Draw(t, "start")
					} else {
						op.StartMs = rapid.IntRange(0, 30000).Draw(t, "start")
					}
					if rapid.IntRange(0, 3).Draw(t, "cancel") == 0 {
						if rapid.Bool().Draw(t, "hotCancel") {
							op.CancelMs = rapid.SampledFrom([]int{1, 100, 300, 700, 1500, 4000}).Draw(t, "cancelMs")
						} else {
							op.CancelMs = rapid.IntRange(1, 15000).Draw(t, "cancelMs")
						}
					}
					op.Attempts = rapid.SliceOfN(rapid.Custom(func(t *rapid.T) attempt {
						return attempt{
							Action:  rapid.SampledFrom([]string{"echo", "echo", "echo", "echo", "reset", "close", "silent", "garbage", "oversize", "partial"}).Draw(t, "action"),
							DelayMs: rapid.SampledFrom([]int{0, 1, 50, 900, 5000, 9999, 10001, 12000, 25000}).Draw(t, "delay"),
						}
					}), 1, 2).Draw(t, "attempts")
					return op
				}), 1, 4).Draw(t, "ops")
				sc.Clients = append(sc.Clients, ops)
			}
			sc.Disconnects = rapid.SliceOfN(rapid.Custom(func(t *rapid.T) [2]int {
				return [2]int{rapid.IntRange(0, 2).Draw(t, "dcPeer"), rapid.IntRange(0, 40000).Draw(t, "dcAt")}
			}), 0, 2).Draw(t, "disconnects")
			sc.FailStreams = rapid.SliceOfN(rapid.IntRange(0, 12), 0, 3).Draw(t, "failStreams")
			if rapid.Bool().Draw(t, "slowDials") {
				sc.DialMs = rapid.SliceOfN(rapid.SampledFrom([]int{0, 0, 1, 300, 1000, 3000}), 1, 6).Draw(t, "dialMs")
			}
			if rapid.Bool().Draw(t, "yields") {
				sc.YieldMs = rapid.SliceOfN(rapid.SampledFrom([]int{0, 0, 1, 5, 600, 2000}), 1, 6).Draw(t, "yieldMs")
			}
			if rapid.Bool().Draw(t, "slowPickup") {
				sc.SyncWrites = true
				sc.PickupMs = rapid.SliceOfN(rapid.SampledFrom([]int{0, 0, 0, 1, 400, 1000, 3000}), 1, 8).Draw(t, "pickupMs")
				if verifsim.Chance(t, "deaf", 20) {
					sc.DeafStreams = rapid.SliceOfNDistinct(rapid.IntRange(0, 8), 1, 2, func(i int) int { return i }).Draw(t, "deafStreams") // remotes that never read
				}
			}
			return sc
		},
		Run: func(t *testing.T, sc msSc) verifsim.Result { return runMS(t, &sc) },
	}
}

var _ = io.EOF
var _ = ma.StringCast

// upper bound assumed for how long the sender lets a write block before it gives the stream up
const writeTimeoutBound = 61 * time.Second

// C10 layer 2: the remote end writes arbitrary byte streams, oversize frames,
// nothing at all, or closes mid-frame.
func TestVerif_C10_SenderBytes(t *testing.T) {
	verifsim.RunCheck(t, verifsim.Check[msSc]{
		Property: "C10", Part: "sender-bytes",
		Rule: "rapid: 1-3 clients x 1-3 SendRequest calls against remotes that only misbehave at byte level (garbage, oversize length prefix, partial frame, silence, close, reset; on the first attempt and on the retry), or that stream well-formed messages of other types than the request for over a minute, or that accept a stream and never read from it while the client's writes block until read (calls with and without a cancellation instant); " +
			"oracle: every call returns an error (never a fabricated reply) within the read timeout per attempt, nothing blocks, plus the C11 stream invariants; non-trivial = both attempts misbehave",
		Gen: func(t *rapid.T) msSc {
			var sc msSc
			if verifsim.Chance(t, "otherTypeStream", 12) {
				// a remote that streams well-formed messages of other types (a scenario of its own: the unsolicited frames would be
				// read as replies by later requests on the stream, which says nothing about the sender)
				d := rapid.SampledFrom([]int{0, 1, 500, 5000}).Draw(t, "otDelay")
				sc.Clients = [][]cliOp{{{Peer: 0, StartMs: rapid.IntRange(0, 2000).Draw(t, "otStart"), Attempts: []attempt{{Action: "othertype", DelayMs: d}, {Action: "othertype", DelayMs: d}}}}}
				return sc
			}
			if verifsim.Chance(t, "deaf", 15) {
				// remotes that accept a stream and never read from it, with writes that block until they are read
				sc.SyncWrites = true
				sc.DeafStreams = rapid.SliceOfNDistinct(rapid.IntRange(0, 4), 1, 3, func(i int) int { return i }).Draw(t, "deafStreams")
			}
			nc := rapid.IntRange(1, 3).Draw(t, "nClients")
			for c := 0; c < nc; c++ {
				sc.Clients = append(sc.Clients, rapid.SliceOfN(rapid.Custom(func(t *rapid.T) cliOp {
					op := cliOp{Peer: rapid.IntRange(0, 1).Draw(t, "peer"), StartMs: rapid.IntRange(0, 5000).Draw(t, "start")}
					if len(sc.DeafStreams) > 0 && rapid.Bool().Draw(t, "deafCancel") {
						op.CancelMs = rapid.SampledFrom([]int{100, 3000, 20000}).Draw(t, "deafCancelMs")
					}
					op.Attempts = rapid.SliceOfN(rapid.Custom(func(t *rapid.T) attempt {
						return attempt{
							Action:  rapid.SampledFrom([]string{"garbage", "oversize", "partial", "silent", "close", "reset", "echo"}).Draw(t, "action"),
							DelayMs: rapid.SampledFrom([]int{0, 1, 500, 9999, 10001}).Draw(t, "delay"),
						}
					}), 2, 2).Draw(t, "attempts")
					return op
				}), 1, 3).Draw(t, "ops"))
			}
			return sc
		},
		Run: func(t *testing.T, sc msSc) verifsim.Result {
			res := runMS(t, &sc)
			for i := range res.Violations {
				res.Violations[i].Signature = strings.Replace(res.Violations[i].Signature, "C11/", "C10/l2/", 1)
			}
			bad := false
			for _, ops := range sc.Clients {
				for _, op := range ops {
					if op.Attempts[0].Action != "echo" && op.Attempts[1].Action != "echo" {
						bad = true
					}
				}
			}
			res.NonTrivial = bad
			res.Classes = nil
			return res
		},
	})
}
