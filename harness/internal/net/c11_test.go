//go:build verif

package net

// C11 — every RPC reply is matched to its own request.
// The real messageSenderImpl over fake streams served by scripted honest
// responders (echo of the request's unique id after a drawn delay, reset,
// close, garbage, silence), concurrent clients, cancellations, disconnects.
// Also hosts layer 2 of C10 (arbitrary bytes from the remote).

import (
	"context"
	"encoding/binary"
	"errors"
	"fmt"
	"io"
	"strings"
	"sync"
	"testing"
	"time"

	"github.com/libp2p/go-libp2p-kad-dht/internal/verifnet"
	"github.com/libp2p/go-libp2p-kad-dht/internal/verifsim"
	pb "github.com/libp2p/go-libp2p-kad-dht/pb"
	"github.com/libp2p/go-libp2p/core/network"
	"github.com/libp2p/go-libp2p/core/peer"
	"github.com/libp2p/go-libp2p/core/protocol"
	"github.com/libp2p/go-msgio"
	ma "github.com/multiformats/go-multiaddr"
	"google.golang.org/protobuf/proto"
	"pgregory.net/rapid"
)

type attempt struct {
	Action  string `json:"action"` // echo | reset | close | silent | garbage | oversize | partial
	DelayMs int    `json:"delay_ms"`
}

type cliOp struct {
	Peer     int       `json:"peer"`
	Msg      bool      `json:"msg"` // SendMessage instead of SendRequest
	StartMs  int       `json:"start_ms"`
	CancelMs int       `json:"cancel_ms,omitempty"`
	Attempts []attempt `json:"attempts"` // behaviour of the remote for the 1st, 2nd, ... time it receives this request id
}

type msSc struct {
	Clients     [][]cliOp `json:"clients"`
	Disconnects [][2]int  `json:"disconnects"` // (peer, at ms)
	FailStreams []int     `json:"fail_streams"` // global indices of NewStream calls that fail
}

type srvEvent struct {
	At     time.Duration
	Stream int
	Peer   int
	What   string // recv:<id> | reply:<id> | reset | close | garbage
}

type opResult struct {
	ID       string
	Op       cliOp
	Start    time.Duration
	End      time.Duration
	Err      error
	RespKey  string
	Resp     bool
}

func frameOf(m *pb.Message) []byte {
	b, _ := proto.Marshal(m)
	var hdr [binary.MaxVarintLen64]byte
	n := binary.PutUvarint(hdr[:], uint64(len(b)))
	return append(hdr[:n:n], b...)
}

func runMS(t *testing.T, sc *msSc) (res verifsim.Result) {
	pool := verifsim.NewPool("peer", 64)
	var results []opResult
	var events []srvEvent
	var streams []*verifnet.Stream // client ends, by stream index
	streamPeer := map[int]int{}
	lateThenOK := 0
	concurrentSamePeer := 0
	out := verifsim.Bubble(t, func() {
		start := time.Now()
		now := func() time.Duration { return time.Since(start) }
		var mu sync.Mutex
		h := verifnet.NewHost(peer.ID(pool.IDs[0]), nil)
		defer h.Close()
		script := map[string]cliOp{}
		seenCount := map[string]int{}
		for ci, ops := range sc.Clients {
			for oi, op := range ops {
				script[fmt.Sprintf("c%d-r%d", ci, oi)] = op
			}
		}
		var srvWG sync.WaitGroup
		var srvEnds []*verifnet.Stream
		nStreams := 0
		failStream := map[int]bool{}
		for _, i := range sc.FailStreams {
			failStream[i] = true
		}
		logEv := func(e srvEvent) { mu.Lock(); e.At = now(); events = append(events, e); mu.Unlock() }
		h.NewStreamFn = func(ctx context.Context, p peer.ID, pids ...protocol.ID) (network.Stream, error) {
			mu.Lock()
			idx := nStreams
			nStreams++
			mu.Unlock()
			if failStream[idx] {
				mu.Lock()
				streams = append(streams, nil)
				mu.Unlock()
				return nil, errors.New("verif: cannot open stream")
			}
			pi := 0
			for i := 1; i < 8; i++ {
				if peer.ID(pool.IDs[i]) == p {
					pi = i
				}
			}
			cli, srv := verifnet.NewStreamPair(nil, nil, pids[0])
			mu.Lock()
			streams = append(streams, cli)
			streamPeer[idx] = pi
			srvEnds = append(srvEnds, srv)
			mu.Unlock()
			srvWG.Add(1)
			go func() {
				defer srvWG.Done()
				r := msgio.NewVarintReaderSize(srv, network.MessageSizeMax)
				for {
					b, err := r.ReadMsg()
					if err != nil {
						return
					}
					req := new(pb.Message)
					if proto.Unmarshal(b, req) != nil {
						r.ReleaseMsg(b)
						return
					}
					r.ReleaseMsg(b)
					id := string(req.Key)
					logEv(srvEvent{Stream: idx, Peer: pi, What: "recv:" + id})
					mu.Lock()
					n := seenCount[id]
					seenCount[id]++
					op := script[id]
					mu.Unlock()
					if op.Msg {
						continue // fire-and-forget: honest responder sends nothing
					}
					at := attempt{Action: "echo"}
					if n < len(op.Attempts) {
						at = op.Attempts[n]
					} else if len(op.Attempts) > 0 {
						at = op.Attempts[len(op.Attempts)-1]
					}
					time.Sleep(time.Duration(at.DelayMs) * time.Millisecond)
					switch at.Action {
					case "echo":
						if _, err := srv.Write(frameOf(&pb.Message{Type: req.Type, Key: req.Key})); err != nil {
							return
						}
						logEv(srvEvent{Stream: idx, Peer: pi, What: "reply:" + id})
					case "reset":
						srv.Reset()
						logEv(srvEvent{Stream: idx, Peer: pi, What: "reset"})
						return
					case "close":
						srv.Close()
						logEv(srvEvent{Stream: idx, Peer: pi, What: "close"})
						return
					case "garbage":
						srv.Write([]byte{0x05, 0xff, 0xff, 0xff, 0xff, 0xff})
						logEv(srvEvent{Stream: idx, Peer: pi, What: "garbage"})
					case "oversize":
						var hdr [binary.MaxVarintLen64]byte
						k := binary.PutUvarint(hdr[:], uint64(network.MessageSizeMax+10))
						srv.Write(hdr[:k])
						logEv(srvEvent{Stream: idx, Peer: pi, What: "garbage"})
					case "partial":
						f := frameOf(&pb.Message{Type: req.Type, Key: req.Key})
						srv.Write(f[:len(f)-1])
						logEv(srvEvent{Stream: idx, Peer: pi, What: "garbage"})
					case "silent":
					}
				}
			}()
			return cli, nil
		}
		ms := NewMessageSenderImpl(h, []protocol.ID{"/sim/kad/1.0.0"})
		var cliWG sync.WaitGroup
		for ci, ops := range sc.Clients {
			for oi, op := range ops {
				ci, oi, op := ci, oi, op
				cliWG.Add(1)
				go func() {
					defer cliWG.Done()
					time.Sleep(time.Duration(op.StartMs) * time.Millisecond)
					id := fmt.Sprintf("c%d-r%d", ci, oi)
					ctx, cancel := context.WithCancel(context.Background())
					defer cancel()
					if op.CancelMs > 0 {
						go func() {
							select {
							case <-time.After(time.Duration(op.CancelMs) * time.Millisecond):
								cancel()
							case <-ctx.Done():
							}
						}()
					}
					p := peer.ID(pool.IDs[1+op.Peer%3])
					r := opResult{ID: id, Op: op, Start: now()}
					req := &pb.Message{Type: pb.Message_FIND_NODE, Key: []byte(id)}
					if op.Msg {
						r.Err = ms.SendMessage(ctx, p, req)
					} else {
						var resp *pb.Message
						resp, r.Err = ms.SendRequest(ctx, p, req)
						if resp != nil {
							r.Resp = true
							r.RespKey = string(resp.Key)
						}
					}
					r.End = now()
					mu.Lock()
					results = append(results, r)
					mu.Unlock()
				}()
			}
		}
		for _, dc := range sc.Disconnects {
			dc := dc
			cliWG.Add(1)
			go func() {
				defer cliWG.Done()
				time.Sleep(time.Duration(dc[1]) * time.Millisecond)
				ms.OnDisconnect(context.Background(), peer.ID(pool.IDs[1+dc[0]%3]))
			}()
		}
		done := make(chan struct{})
		go func() { cliWG.Wait(); close(done) }()
		select {
		case <-done:
		case <-time.After(2 * time.Hour):
			res.Fail("terminates", "C11/sender/hang", "message sender calls did not return within 2 h of virtual time")
		}
		// tear down: reset every stream so responders and late readers end
		mu.Lock()
		for _, s := range streams {
			if s != nil {
				s.Reset()
			}
		}
		mu.Unlock()
		time.Sleep(time.Minute)
		srvWG.Wait()
		verifsim.Quiesce()
	})
	if !out.OK() {
		res.Fail("terminates", "C11/sender/hang-or-panic", "%s %s\n%s", out.Deadlock, out.Panic, out.Stacks)
		return
	}
	// ---- oracle
	replyAt := map[string][]time.Duration{}
	recvOn := map[string][]int{}
	for _, e := range events {
		if strings.HasPrefix(e.What, "reply:") {
			replyAt[e.What[6:]] = append(replyAt[e.What[6:]], e.At)
		}
		if strings.HasPrefix(e.What, "recv:") {
			recvOn[e.What[5:]] = append(recvOn[e.What[5:]], e.Stream)
		}
	}
	for _, r := range results {
		if r.Op.Msg {
			continue
		}
		if r.Err == nil {
			if !r.Resp || r.RespKey != r.ID {
				res.Fail("own-reply", "C11/sender/wrong-reply", "request %s returned the reply to %q", r.ID, r.RespKey)
				return res
			}
			inTime := false
			for _, at := range replyAt[r.ID] {
				if at >= r.Start && at <= r.End {
					inTime = true
				}
			}
			if !inTime {
				res.Fail("own-reply", "C11/sender/reply-from-nowhere", "request %s succeeded but the remote wrote no reply to it during the call (%v..%v, replies at %v)", r.ID, r.Start, r.End, replyAt[r.ID])
				return res
			}
		} else {
			if r.Resp {
				res.Fail("error-or-reply", "C11/sender/reply-and-error", "request %s returned both a reply and %v", r.ID, r.Err)
			}
			// bounded: read timeout 10 s per attempt, one retry
			if r.End-r.Start > 21*time.Second+time.Duration(r.Op.StartMs)*0 && r.Op.CancelMs == 0 {
				// time spent waiting for the per-peer lock behind other requests is allowed: each of those is bounded too
				ahead := 0
				for _, o := range results {
					if o.Op.Peer%3 == r.Op.Peer%3 && o.ID != r.ID {
						ahead++
					}
				}
				if r.End-r.Start > time.Duration(ahead+1)*21*time.Second {
					res.Fail("bounded", "C11/sender/slow-failure", "request %s failed only after %v", r.ID, r.End-r.Start)
				}
			}
		}
	}
	// per stream: serialized exchanges, nothing written after a reset, reset after a failed exchange
	type pend struct {
		id string
		at time.Duration
	}
	pending := map[int]*pend{}
	for _, e := range events {
		switch {
		case strings.HasPrefix(e.What, "recv:"):
			id := e.What[5:]
			if p := pending[e.Stream]; p != nil && !script(sc, p.id).Msg {
				// the previous request on this stream is still unanswered: only legal if the client already gave up on it (then it must not reuse the stream)
				res.Fail("serialized", "C11/stream/overlapping-exchanges", "stream %d: request %s arrived at %v while %s (since %v) was still unanswered", e.Stream, id, e.At, p.id, p.at)
				return res
			}
			if script(sc, id).Msg {
				pending[e.Stream] = nil
			} else {
				pending[e.Stream] = &pend{id, e.At}
			}
		case strings.HasPrefix(e.What, "reply:"):
			pending[e.Stream] = nil
		}
	}
	for i, s := range streams {
		if s == nil {
			continue
		}
		resetSeen := false
		for _, ev := range s.Events {
			if ev == "reset" {
				resetSeen = true
			} else if resetSeen && strings.HasPrefix(ev, "write:") {
				res.Fail("no-reuse-after-reset", "C11/stream/write-after-reset", "stream %d written to after it was reset", i)
				return res
			}
		}
	}
	// a failed (timed-out / cancelled mid-flight) request must not leave its stream in use by a later request
	for _, r := range results {
		if r.Op.Msg {
			continue
		}
		failedOn := recvOn[r.ID]
		if r.Err == nil && len(failedOn) > 0 {
			failedOn = failedOn[:len(failedOn)-1] // the last attempt succeeded; earlier ones failed
		}
		for _, si := range failedOn {
			// in event order: no other request may be received on that stream after the failed one
			after := false
			for _, e := range events {
				if e.Stream != si || !strings.HasPrefix(e.What, "recv:") {
					continue
				}
				if e.What[5:] == r.ID {
					after = true
					continue
				}
				if after {
					var evs []string
					for _, x := range events {
						if x.Stream == si {
							evs = append(evs, fmt.Sprintf("%v %s", x.At, x.What))
						}
					}
					res.Fail("reset-after-failure", "C11/stream/reused-after-failure", "stream %d carried request %s after request %s had failed on it (err %v); stream events %v; client events %v", si, e.What[5:], r.ID, r.Err, evs, streams[si].Events)
					return res
				}
			}
		}
	}
	// classification
	for _, r := range results {
		for _, o := range results {
			if r.ID != o.ID && r.Op.Peer%3 == o.Op.Peer%3 && r.Start < o.End && o.Start < r.End {
				concurrentSamePeer++
			}
		}
		if r.Err != nil {
			for _, o := range results {
				if o.Err == nil && !o.Op.Msg && o.Op.Peer%3 == r.Op.Peer%3 && o.End > r.End {
					lateThenOK++
				}
			}
		}
	}
	res.NonTrivial = concurrentSamePeer > 0 && lateThenOK > 0
	if concurrentSamePeer > 0 {
		res.Class("concurrent-same-peer")
	}
	if lateThenOK > 0 {
		res.Class("failure-then-success")
	}
	if len(sc.Disconnects) > 0 {
		res.Class("disconnects")
	}
	return res
}

func script(sc *msSc, id string) cliOp {
	var ci, oi int
	fmt.Sscanf(id, "c%d-r%d", &ci, &oi)
	if ci < len(sc.Clients) && oi < len(sc.Clients[ci]) {
		return sc.Clients[ci][oi]
	}
	return cliOp{}
}

func TestVerif_C11_MessageSender(t *testing.T) {
	verifsim.RunCheck(t, verifsim.Check[msSc]{
		Property: "C11", Part: "message-sender",
		Rule: "rapid: 1-6 client goroutines x 1-4 SendRequest/SendMessage calls to 3 peers at drawn virtual instants, optional cancellation instants, OnDisconnect notifications, failing NewStream calls; each peer is an honest " +
			"scripted responder that echoes the request's unique id after a drawn delay (0-25 s, i.e. also after the 10 s read timeout: a late reply), resets, closes, writes garbage / an oversize length prefix / a partial frame, or stays silent, " +
			"separately for the first and the retried attempt; oracle = every successful request returns the echo of its own id written during the call, failures are bounded, exchanges on one stream never overlap, nothing is written after a reset, " +
			"a stream is never used again after a failed exchange; non-trivial = concurrent requests to one peer with a failed exchange followed by a successful one",
		Gen: func(t *rapid.T) msSc {
			var sc msSc
			nc := rapid.IntRange(1, 6).Draw(t, "nClients")
			for c := 0; c < nc; c++ {
				ops := rapid.SliceOfN(rapid.Custom(func(t *rapid.T) cliOp {
					op := cliOp{Peer: rapid.IntRange(0, 2).Draw(t, "peer"), Msg: rapid.IntRange(0, 5).Draw(t, "msg") == 0, StartMs: rapid.IntRange(0, 30000).Draw(t, "start")}
					if rapid.IntRange(0, 4).Draw(t, "cancel") == 0 {
						op.CancelMs = rapid.IntRange(1, 15000).Draw(t, "cancelMs")
					}
					op.Attempts = rapid.SliceOfN(rapid.Custom(func(t *rapid.T) attempt {
						return attempt{
							Action:  rapid.SampledFrom([]string{"echo", "echo", "echo", "echo", "reset", "close", "silent", "garbage", "oversize", "partial"}).Draw(t, "action"),
							DelayMs: rapid.SampledFrom([]int{0, 1, 50, 900, 5000, 9999, 10001, 12000, 25000}).Draw(t, "delay"),
						}
					}), 1, 2).Draw(t, "attempts")
					return op
				}), 1, 4).Draw(t, "ops")
				sc.Clients = append(sc.Clients, ops)
			}
			sc.Disconnects = rapid.SliceOfN(rapid.Custom(func(t *rapid.T) [2]int {
				return [2]int{rapid.IntRange(0, 2).Draw(t, "dcPeer"), rapid.IntRange(0, 40000).Draw(t, "dcAt")}
			}), 0, 2).Draw(t, "disconnects")
			sc.FailStreams = rapid.SliceOfN(rapid.IntRange(0, 12), 0, 2).Draw(t, "failStreams")
			return sc
		},
		Run: func(t *testing.T, sc msSc) verifsim.Result { return runMS(t, &sc) },
	})
}

var _ = io.EOF
var _ = ma.StringCast

// C10 layer 2: the remote end writes arbitrary byte streams, oversize frames,
// nothing at all, or closes mid-frame.
func TestVerif_C10_SenderBytes(t *testing.T) {
	verifsim.RunCheck(t, verifsim.Check[msSc]{
		Property: "C10", Part: "sender-bytes",
		Rule: "rapid: 1-3 clients x 1-3 SendRequest calls against remotes that only misbehave at byte level (garbage, oversize length prefix, partial frame, silence, close, reset; on the first attempt and on the retry); " +
			"oracle: every call returns an error (never a fabricated reply) within the read timeout per attempt, nothing blocks, plus the C11 stream invariants; non-trivial = both attempts misbehave",
		Gen: func(t *rapid.T) msSc {
			var sc msSc
			nc := rapid.IntRange(1, 3).Draw(t, "nClients")
			for c := 0; c < nc; c++ {
				sc.Clients = append(sc.Clients, rapid.SliceOfN(rapid.Custom(func(t *rapid.T) cliOp {
					op := cliOp{Peer: rapid.IntRange(0, 1).Draw(t, "peer"), StartMs: rapid.IntRange(0, 5000).Draw(t, "start")}
					op.Attempts = rapid.SliceOfN(rapid.Custom(func(t *rapid.T) attempt {
						return attempt{
							Action:  rapid.SampledFrom([]string{"garbage", "oversize", "partial", "silent", "close", "reset", "echo"}).Draw(t, "action"),
							DelayMs: rapid.SampledFrom([]int{0, 1, 500, 9999, 10001}).Draw(t, "delay"),
						}
					}), 2, 2).Draw(t, "attempts")
					return op
				}), 1, 3).Draw(t, "ops"))
			}
			return sc
		},
		Run: func(t *testing.T, sc msSc) verifsim.Result {
			res := runMS(t, &sc)
			for i := range res.Violations {
				res.Violations[i].Signature = strings.Replace(res.Violations[i].Signature, "C11/", "C10/l2/", 1)
			}
			bad := false
			for _, ops := range sc.Clients {
				for _, op := range ops {
					if op.Attempts[0].Action != "echo" && op.Attempts[1].Action != "echo" {
						bad = true
					}
				}
			}
			res.NonTrivial = bad
			res.Classes = nil
			return res
		},
	})
}
