//go:build verif

// Package verifnet is the simulated network of the /verif harness: a fake
// libp2p host/network/connection/stream and a message sender backed by
// simulated peers. It is injected by a build overlay only.
package verifnet

import (
	"context"
	"errors"
	"fmt"
	"io"
	"sync"
	"time"

	"github.com/libp2p/go-libp2p/core/connmgr"
	"github.com/libp2p/go-libp2p/core/event"
	"github.com/libp2p/go-libp2p/core/host"
	"github.com/libp2p/go-libp2p/core/network"
	"github.com/libp2p/go-libp2p/core/peer"
	"github.com/libp2p/go-libp2p/core/peerstore"
	"github.com/libp2p/go-libp2p/core/protocol"
	"github.com/libp2p/go-libp2p/p2p/host/eventbus"
	"github.com/libp2p/go-libp2p/p2p/host/peerstore/pstoremem"
	ma "github.com/multiformats/go-multiaddr"
)

// Host is a fake host.Host. Unimplemented methods panic through the nil
// embedded interface (they are never called on the exercised paths).
type Host struct {
	host.Host
	id    peer.ID
	ps    peerstore.Peerstore
	bus   event.Bus
	net   *Network
	cm    connmgr.ConnManager
	mu    sync.Mutex
	addrs []ma.Multiaddr
	hs    map[protocol.ID]network.StreamHandler

	// ConnectFn decides the outcome of Connect (nil: always fails).
	ConnectFn func(ctx context.Context, pi peer.AddrInfo) error
	// NewStreamFn serves NewStream (nil: always fails).
	NewStreamFn func(ctx context.Context, p peer.ID, pids ...protocol.ID) (network.Stream, error)
	// BusWrap, if set before first use, wraps the event bus (subscription counting).
	Subs *SubCounter
}

func NewHost(id peer.ID, addrs []ma.Multiaddr) *Host {
	ps, err := pstoremem.NewPeerstore()
	if err != nil {
		panic(err)
	}
	h := &Host{id: id, ps: ps, addrs: addrs, hs: map[protocol.ID]network.StreamHandler{}, cm: &connmgr.NullConnMgr{}}
	h.net = &Network{h: h, connected: map[peer.ID]bool{}, conns: map[peer.ID][]*Conn{}}
	h.Subs = &SubCounter{}
	h.bus = &countingBus{Bus: eventbus.NewBus(), c: h.Subs}
	return h
}

func (h *Host) ID() peer.ID                      { return h.id }
func (h *Host) Peerstore() peerstore.Peerstore   { return h.ps }
func (h *Host) Network() network.Network         { return h.net }
func (h *Host) Net() *Network                    { return h.net }
func (h *Host) EventBus() event.Bus              { return h.bus }
func (h *Host) ConnManager() connmgr.ConnManager { return h.cm }
func (h *Host) Close() error                     { return h.ps.Close() }
func (h *Host) Addrs() []ma.Multiaddr {
	h.mu.Lock()
	defer h.mu.Unlock()
	return append([]ma.Multiaddr(nil), h.addrs...)
}
func (h *Host) SetAddrs(a []ma.Multiaddr) { h.mu.Lock(); h.addrs = a; h.mu.Unlock() }

func (h *Host) SetStreamHandler(pid protocol.ID, handler network.StreamHandler) {
	h.mu.Lock()
	defer h.mu.Unlock()
	h.hs[pid] = handler
}

func (h *Host) SetStreamHandlerMatch(pid protocol.ID, _ func(protocol.ID) bool, handler network.StreamHandler) {
	h.SetStreamHandler(pid, handler)
}

func (h *Host) RemoveStreamHandler(pid protocol.ID) {
	h.mu.Lock()
	defer h.mu.Unlock()
	delete(h.hs, pid)
}

// Handler returns the stream handler registered for a protocol, if any.
func (h *Host) Handler(pid protocol.ID) network.StreamHandler {
	h.mu.Lock()
	defer h.mu.Unlock()
	return h.hs[pid]
}

// Protocols lists the protocols with a registered handler.
func (h *Host) Protocols() []protocol.ID {
	h.mu.Lock()
	defer h.mu.Unlock()
	var out []protocol.ID
	for p := range h.hs {
		out = append(out, p)
	}
	return out
}

func (h *Host) Connect(ctx context.Context, pi peer.AddrInfo) error {
	if h.ConnectFn == nil {
		return errors.New("verifnet: no route")
	}
	return h.ConnectFn(ctx, pi)
}

func (h *Host) NewStream(ctx context.Context, p peer.ID, pids ...protocol.ID) (network.Stream, error) {
	if h.NewStreamFn == nil {
		return nil, errors.New("verifnet: cannot open stream")
	}
	return h.NewStreamFn(ctx, p, pids...)
}

// SubCounter counts event-bus subscriptions opened and closed.
type SubCounter struct {
	mu     sync.Mutex
	Opened int
	Closed int
	// FailSubscribe makes the n-th Subscribe call (1-based) fail when > 0.
	FailSubscribe int
	// SlowClose delays every subscription Close by this much (virtual) time.
	SlowClose time.Duration
	calls     int
}

func (c *SubCounter) Open() int { c.mu.Lock(); defer c.mu.Unlock(); return c.Opened - c.Closed }

type countingBus struct {
	event.Bus
	c *SubCounter
}

type countingSub struct {
	event.Subscription
	c    *SubCounter
	once sync.Once
}

func (s *countingSub) Close() error {
	s.c.mu.Lock()
	slow := s.c.SlowClose
	s.c.mu.Unlock()
	if slow > 0 {
		// makes "Close waited for the goroutine that owns the subscription" observable in virtual time
		time.Sleep(slow)
	}
	s.once.Do(func() { s.c.mu.Lock(); s.c.Closed++; s.c.mu.Unlock() })
	return s.Subscription.Close()
}

func (b *countingBus) Subscribe(eventType any, opts ...event.SubscriptionOpt) (event.Subscription, error) {
	b.c.mu.Lock()
	b.c.calls++
	fail := b.c.FailSubscribe > 0 && b.c.calls == b.c.FailSubscribe
	b.c.mu.Unlock()
	if fail {
		return nil, errors.New("verifnet: injected subscribe failure")
	}
	s, err := b.Bus.Subscribe(eventType, opts...)
	if err != nil {
		return nil, err
	}
	b.c.mu.Lock()
	b.c.Opened++
	b.c.mu.Unlock()
	return &countingSub{Subscription: s, c: b.c}, nil
}

// Network is a fake network.Network.
type Network struct {
	network.Network
	h         *Host
	mu        sync.Mutex
	connected map[peer.ID]bool
	conns     map[peer.ID][]*Conn
}

func (n *Network) LocalPeer() peer.ID                 { return n.h.id }
func (n *Network) Peerstore() peerstore.Peerstore     { return n.h.ps }
func (n *Network) Notify(network.Notifiee)            {}
func (n *Network) StopNotify(network.Notifiee)        {}
func (n *Network) ClosePeer(p peer.ID) error          { n.SetConnected(p, false); return nil }
func (n *Network) CanDial(peer.ID, ma.Multiaddr) bool { return true }

func (n *Network) Connectedness(p peer.ID) network.Connectedness {
	n.mu.Lock()
	defer n.mu.Unlock()
	if n.connected[p] {
		return network.Connected
	}
	return network.NotConnected
}

func (n *Network) SetConnected(p peer.ID, c bool) {
	n.mu.Lock()
	defer n.mu.Unlock()
	if c {
		n.connected[p] = true
	} else {
		delete(n.connected, p)
	}
}

func (n *Network) Peers() []peer.ID {
	n.mu.Lock()
	defer n.mu.Unlock()
	out := make([]peer.ID, 0, len(n.connected))
	for p := range n.connected {
		out = append(out, p)
	}
	return out
}

func (n *Network) Conns() []network.Conn {
	n.mu.Lock()
	defer n.mu.Unlock()
	var out []network.Conn
	for _, cs := range n.conns {
		for _, c := range cs {
			out = append(out, c)
		}
	}
	return out
}

func (n *Network) ConnsToPeer(p peer.ID) []network.Conn {
	n.mu.Lock()
	defer n.mu.Unlock()
	var out []network.Conn
	for _, c := range n.conns[p] {
		out = append(out, c)
	}
	return out
}

// AddConn registers a connection to a remote peer (marks it connected).
func (n *Network) AddConn(remote peer.ID, raddr ma.Multiaddr) *Conn {
	n.mu.Lock()
	defer n.mu.Unlock()
	c := &Conn{local: n.h.id, remote: remote, raddr: raddr}
	n.conns[remote] = append(n.conns[remote], c)
	n.connected[remote] = true
	return c
}

// Conn is a fake network.Conn.
type Conn struct {
	network.Conn
	local, remote peer.ID
	raddr         ma.Multiaddr
	mu            sync.Mutex
	streams       []*Stream
}

func (c *Conn) LocalPeer() peer.ID            { return c.local }
func (c *Conn) RemotePeer() peer.ID           { return c.remote }
func (c *Conn) RemoteMultiaddr() ma.Multiaddr { return c.raddr }
func (c *Conn) LocalMultiaddr() ma.Multiaddr  { return nil }
func (c *Conn) ID() string                    { return fmt.Sprintf("conn-%s", c.remote) }
func (c *Conn) IsClosed() bool                { return false }
func (c *Conn) Stat() network.ConnStats       { return network.ConnStats{} }
func (c *Conn) GetStreams() []network.Stream {
	c.mu.Lock()
	defer c.mu.Unlock()
	var out []network.Stream
	for _, s := range c.streams {
		if !s.Dead() {
			out = append(out, s)
		}
	}
	return out
}

func (c *Conn) attach(s *Stream) { c.mu.Lock(); c.streams = append(c.streams, s); c.mu.Unlock() }

// ---- streams: an in-memory duplex pipe usable inside a synctest bubble ----

var ErrReset = network.ErrReset

type halfPipe struct {
	mu     sync.Mutex
	buf    []byte
	eof    bool // writer closed its write side
	reset  bool
	wake   chan struct{}
	nbytes int // total bytes ever written into this half
	// drained is signalled whenever the reader empties buf or the pipe is
	// reset; blocking writers (Stream.SyncWrites) wait on it.
	drained chan struct{}
	// readerGone is set when the reading end was closed: nobody will ever
	// drain buf again, so blocking writers must not wait for that.
	readerGone bool
}

func newHalf() *halfPipe {
	return &halfPipe{wake: make(chan struct{}, 1), drained: make(chan struct{}, 1)}
}

func (h *halfPipe) signalDrained() {
	select {
	case h.drained <- struct{}{}:
	default:
	}
}

func (h *halfPipe) signal() {
	select {
	case h.wake <- struct{}{}:
	default:
	}
}

// Stream is one end of a pipe.
type Stream struct {
	network.Stream
	in, out  *halfPipe
	conn     *Conn
	proto    protocol.ID
	dir      network.Direction
	mu       sync.Mutex
	rdl      time.Time
	closed   bool
	resetLoc bool
	id       string
	// Events records "write:<n>", "reset", "close", "closewrite" in order (local side).
	Events []string
	// SyncWrites makes Write block until the remote end has read everything
	// (or the stream is reset), like a stream whose send window is exhausted.
	SyncWrites bool
	// OnEvent, when set, is called with every entry appended to Events.
	OnEvent func(string)
	wdeadline time.Time
}

// NewStreamPair creates a connected pair: a is the dialer's end (outbound),
// b the listener's end (inbound). ca/cb are the conns they report.
func NewStreamPair(ca, cb *Conn, proto protocol.ID) (a, b *Stream) {
	x, y := newHalf(), newHalf()
	a = &Stream{in: x, out: y, conn: ca, proto: proto, dir: network.DirOutbound, id: "out"}
	b = &Stream{in: y, out: x, conn: cb, proto: proto, dir: network.DirInbound, id: "in"}
	if ca != nil {
		ca.attach(a)
	}
	if cb != nil {
		cb.attach(b)
	}
	return
}

func (s *Stream) ID() string                         { return s.id }
func (s *Stream) Protocol() protocol.ID              { return s.proto }
func (s *Stream) SetProtocol(p protocol.ID) error    { s.proto = p; return nil }
func (s *Stream) Conn() network.Conn                 { return s.conn }
func (s *Stream) Stat() network.Stats                { return network.Stats{Direction: s.dir} }
func (s *Stream) Scope() network.StreamScope         { return &network.NullScope{} }
func (s *Stream) SetDeadline(t time.Time) error      { return s.SetReadDeadline(t) }
// SetWriteDeadline bounds writes that block (SyncWrites: until the remote has read the bytes).
func (s *Stream) SetWriteDeadline(t time.Time) error {
	s.mu.Lock()
	s.wdeadline = t
	s.mu.Unlock()
	return nil
}
func (s *Stream) SetReadDeadline(t time.Time) error {
	s.mu.Lock()
	s.rdl = t
	s.mu.Unlock()
	s.in.signal()
	return nil
}

func (s *Stream) event(e string) {
	s.mu.Lock()
	s.Events = append(s.Events, e)
	f := s.OnEvent
	s.mu.Unlock()
	if f != nil {
		f(e)
	}
}

// Dead reports whether the stream was reset or closed locally.
func (s *Stream) Dead() bool {
	s.mu.Lock()
	defer s.mu.Unlock()
	return s.closed || s.resetLoc
}

// WasReset reports whether either side reset the stream.
func (s *Stream) WasReset() bool {
	s.in.mu.Lock()
	defer s.in.mu.Unlock()
	return s.in.reset
}

type timeoutErr struct{}

func (timeoutErr) Error() string   { return "verifnet: i/o deadline reached" }
func (timeoutErr) Timeout() bool   { return true }
func (timeoutErr) Temporary() bool { return true }

func (s *Stream) Read(p []byte) (int, error) {
	for {
		s.in.mu.Lock()
		if s.in.reset {
			s.in.mu.Unlock()
			return 0, ErrReset
		}
		if len(s.in.buf) > 0 {
			n := copy(p, s.in.buf)
			s.in.buf = s.in.buf[n:]
			empty := len(s.in.buf) == 0
			s.in.mu.Unlock()
			if empty {
				s.in.signalDrained()
			}
			return n, nil
		}
		if s.in.eof {
			s.in.mu.Unlock()
			return 0, io.EOF
		}
		s.in.mu.Unlock()
		s.mu.Lock()
		dl := s.rdl
		closed := s.closed
		s.mu.Unlock()
		if closed {
			return 0, ErrReset
		}
		if dl.IsZero() {
			<-s.in.wake
			continue
		}
		d := time.Until(dl)
		if d <= 0 {
			return 0, timeoutErr{}
		}
		t := time.NewTimer(d)
		select {
		case <-s.in.wake:
			t.Stop()
		case <-t.C:
		}
	}
}

func (s *Stream) Write(p []byte) (int, error) {
	// The liveness check and the log entry are one step, as are the flag and the log entry in Reset: the event list is then a
	// linearisation (a write that got past the check is listed before a reset that came concurrently).
	s.mu.Lock()
	dead := s.closed || s.resetLoc
	s.out.mu.Lock()
	if dead || s.out.reset || s.out.eof {
		s.out.mu.Unlock()
		s.mu.Unlock()
		return 0, ErrReset
	}
	s.out.buf = append(s.out.buf, p...)
	s.out.nbytes += len(p)
	s.out.mu.Unlock()
	ev := fmt.Sprintf("write:%d", len(p))
	s.Events = append(s.Events, ev)
	f := s.OnEvent
	s.mu.Unlock()
	s.out.signal()
	if f != nil {
		f(ev)
	}
	if s.SyncWrites {
		for {
			s.out.mu.Lock()
			rst, left, gone := s.out.reset, len(s.out.buf), s.out.readerGone
			s.out.mu.Unlock()
			if rst {
				return len(p), ErrReset
			}
			if left == 0 || gone {
				break
			}
			s.mu.Lock()
			dl := s.wdeadline
			s.mu.Unlock()
			if dl.IsZero() {
				<-s.out.drained
				continue
			}
			d := time.Until(dl)
			if d <= 0 {
				return 0, timeoutErr{}
			}
			tm := time.NewTimer(d)
			select {
			case <-s.out.drained:
				tm.Stop()
			case <-tm.C:
				return 0, timeoutErr{}
			}
		}
	}
	return len(p), nil
}

// BytesWritten returns how many bytes this end ever wrote.
func (s *Stream) BytesWritten() int { s.out.mu.Lock(); defer s.out.mu.Unlock(); return s.out.nbytes }

func (s *Stream) CloseWrite() error {
	s.out.mu.Lock()
	s.out.eof = true
	s.out.mu.Unlock()
	s.out.signal()
	s.event("closewrite")
	return nil
}

func (s *Stream) CloseRead() error { return nil }

func (s *Stream) Close() error {
	s.CloseWrite()
	s.mu.Lock()
	s.closed = true
	s.mu.Unlock()
	s.in.mu.Lock()
	s.in.readerGone = true
	s.in.mu.Unlock()
	s.in.signal()
	s.in.signalDrained()
	s.event("close")
	return nil
}

func (s *Stream) Reset() error {
	s.mu.Lock()
	s.resetLoc = true
	s.Events = append(s.Events, "reset")
	f := s.OnEvent
	s.mu.Unlock()
	for _, h := range []*halfPipe{s.in, s.out} {
		h.mu.Lock()
		h.reset = true
		h.mu.Unlock()
		h.signal()
		h.signalDrained()
	}
	if f != nil {
		f("reset")
	}
	return nil
}

func (s *Stream) ResetWithError(network.StreamErrorCode) error { return s.Reset() }

// WaitContext is a helper for responders: sleep d or until ctx is done.
func WaitContext(ctx context.Context, d time.Duration) error {
	if d <= 0 {
		return ctx.Err()
	}
	t := time.NewTimer(d)
	defer t.Stop()
	select {
	case <-t.C:
		return nil
	case <-ctx.Done():
		return ctx.Err()
	}
}

// Peek reports what the remote end has produced so far without blocking:
// the unread bytes, whether the remote closed its write side, and whether the
// stream was reset.
func (s *Stream) Peek() (data []byte, eof bool, reset bool) {
	s.in.mu.Lock()
	defer s.in.mu.Unlock()
	return append([]byte(nil), s.in.buf...), s.in.eof, s.in.reset
}

// Drain removes and returns the unread bytes.
func (s *Stream) Drain() []byte {
	s.in.mu.Lock()
	defer s.in.mu.Unlock()
	out := s.in.buf
	s.in.buf = nil
	return out
}

// NewDetachedConn returns a connection that is not listed by any network
// (streams on it are invisible to Network().Conns()).
func (n *Network) NewDetachedConn(local, remote peer.ID) *Conn {
	return &Conn{local: local, remote: remote}
}
