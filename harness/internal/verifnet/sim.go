//go:build verif

package verifnet

import (
	"context"
	"errors"
	"fmt"
	"sync"
	"time"

	pb "github.com/libp2p/go-libp2p-kad-dht/pb"
	"github.com/libp2p/go-libp2p/core/peer"
	"google.golang.org/protobuf/proto"
)

// ErrSimTimeout is what a request to a silent peer ends with (the real message
// sender's read timeout). Packages that can import internal/net without a cycle
// set it to net.ErrReadTimeout, the very error value the real sender returns, in
// an init function, so that code which tells failures apart by errors.Is sees
// what it would see in production.
var ErrSimTimeout = errors.New("verifnet: read timeout")

// ReadTimeout is the real message sender's read timeout, DialTimeout the
// transport's dial timeout.
const (
	ReadTimeout = 10 * time.Second
	DialTimeout = 60 * time.Second
)

// Reply is how a simulated peer treats one request.
type Reply struct {
	Latency time.Duration
	Fail    bool        // the exchange fails after Latency
	FailErr error       // if non-nil: the error a failing exchange returns (default: a plain error)
	Silent  bool        // no answer: the request ends with the read timeout (or the caller's context)
	Resp    *pb.Message // answer (round-tripped through its wire encoding before delivery)
	Raw     []byte      // if non-nil: wire bytes of the answer (may be malformed: then the exchange fails like a decode error)
	// LateGrace > 0: if the caller's context ends while no more than this is left of Latency, the exchange completes all the
	// same (the answer was already arriving: a read that completes concurrently with the cancellation), instead of failing
	// with the context error.
	LateGrace time.Duration
}

// Exchange is one logged interaction with a simulated peer.
type Exchange struct {
	Seq      int
	Kind     string // "dial" | "request" | "message"
	Peer     peer.ID
	Type     pb.Message_MessageType
	Key      string
	Req      *pb.Message
	Start    time.Duration // virtual time since Sim start
	End      time.Duration
	Outcome  string // "ok" | "fail" | "timeout" | "cancelled" | "pending"
	Resp     *pb.Message
	PerPeerN int // index of this request among the requests to this peer
}

// Sim is a set of simulated peers behind a pb.MessageSenderWithDisconnect and
// a Connect function.
type Sim struct {
	mu    sync.Mutex
	start time.Time
	log   []*Exchange
	perN  map[peer.ID]int
	dialN map[peer.ID]int
	// Respond decides the treatment of the n-th (0-based) request to p.
	Respond func(p peer.ID, n int, req *pb.Message) Reply
	// Dial decides the treatment of the n-th dial of p: latency and outcome "ok" | "fail" | "hang".
	Dial func(p peer.ID, n int) (time.Duration, string)
	// OnConnected is called when a dial succeeds.
	OnConnected func(p peer.ID)
	// Disconnects records OnDisconnect notifications.
	Disconnects []peer.ID
	live        sync.WaitGroup
}

func NewSim() *Sim {
	return &Sim{start: time.Now(), perN: map[peer.ID]int{}, dialN: map[peer.ID]int{}}
}

// Now returns the virtual time since the simulation started.
func (s *Sim) Now() time.Duration { return time.Since(s.start) }

// Log returns a snapshot of the exchange log.
func (s *Sim) Log() []Exchange {
	s.mu.Lock()
	defer s.mu.Unlock()
	out := make([]Exchange, len(s.log))
	for i, e := range s.log {
		out[i] = *e
	}
	return out
}

func (s *Sim) begin(kind string, p peer.ID, req *pb.Message) (*Exchange, int) {
	s.mu.Lock()
	defer s.mu.Unlock()
	e := &Exchange{Seq: len(s.log), Kind: kind, Peer: p, Start: time.Since(s.start), Outcome: "pending"}
	n := 0
	if kind == "dial" {
		n = s.dialN[p]
		s.dialN[p]++
	} else {
		n = s.perN[p]
		s.perN[p]++
		e.Type = req.GetType()
		e.Key = string(req.GetKey())
		e.Req = proto.Clone(req).(*pb.Message)
	}
	e.PerPeerN = n
	s.log = append(s.log, e)
	return e, n
}

func (s *Sim) end(e *Exchange, outcome string, resp *pb.Message) {
	s.mu.Lock()
	defer s.mu.Unlock()
	e.End = time.Since(s.start)
	e.Outcome = outcome
	e.Resp = resp
}

// Connect implements the host's Connect against the simulation.
func (s *Sim) Connect(ctx context.Context, pi peer.AddrInfo) error {
	e, n := s.begin("dial", pi.ID, nil)
	lat, outcome := time.Duration(0), "fail"
	if s.Dial != nil {
		lat, outcome = s.Dial(pi.ID, n)
	}
	switch outcome {
	case "hang":
		lat = DialTimeout
		outcome = "fail"
	}
	if err := WaitContext(ctx, lat); err != nil {
		s.end(e, "cancelled", nil)
		return err
	}
	if outcome != "ok" {
		s.end(e, "fail", nil)
		return fmt.Errorf("verifnet: dial to %s failed", pi.ID)
	}
	s.end(e, "ok", nil)
	if s.OnConnected != nil {
		s.OnConnected(pi.ID)
	}
	return nil
}

func roundTrip(r Reply) (*pb.Message, error) {
	raw := r.Raw
	if raw == nil {
		if r.Resp == nil {
			return nil, errors.New("verifnet: no response")
		}
		b, err := proto.Marshal(r.Resp)
		if err != nil {
			return nil, err
		}
		raw = b
	}
	out := new(pb.Message)
	if err := proto.Unmarshal(raw, out); err != nil {
		return nil, err
	}
	return out, nil
}

func (s *Sim) exchange(ctx context.Context, kind string, p peer.ID, req *pb.Message) (*pb.Message, error) {
	e, n := s.begin(kind, p, req)
	if s.Respond == nil {
		s.end(e, "fail", nil)
		return nil, errors.New("verifnet: no responder")
	}
	r := s.Respond(p, n, e.Req)
	if r.Silent {
		// the remote never answers: the sender's own read timeout (or the caller's context) ends the exchange
		if kind == "message" {
			// fire-and-forget writes succeed once written
			if err := WaitContext(ctx, r.Latency); err != nil {
				s.end(e, "cancelled", nil)
				return nil, err
			}
			s.end(e, "ok", nil)
			return nil, nil
		}
		if err := WaitContext(ctx, ReadTimeout); err != nil {
			s.end(e, "cancelled", nil)
			return nil, err
		}
		s.end(e, "timeout", nil)
		return nil, ErrSimTimeout
	}
	lat := r.Latency
	if lat > ReadTimeout && kind == "request" {
		if err := WaitContext(ctx, ReadTimeout); err != nil {
			s.end(e, "cancelled", nil)
			return nil, err
		}
		s.end(e, "timeout", nil)
		return nil, ErrSimTimeout
	}
	waitFrom := time.Now()
	if err := WaitContext(ctx, lat); err != nil {
		rem := lat - time.Since(waitFrom)
		if r.LateGrace <= 0 || rem > r.LateGrace {
			s.end(e, "cancelled", nil)
			return nil, err
		}
		time.Sleep(rem)
	}
	if r.Fail {
		s.end(e, "fail", nil)
		if r.FailErr != nil {
			return nil, r.FailErr
		}
		return nil, fmt.Errorf("verifnet: exchange with %s failed", p)
	}
	if kind == "message" {
		s.end(e, "ok", nil)
		return nil, nil
	}
	resp, err := roundTrip(r)
	if err != nil {
		s.end(e, "fail", nil)
		return nil, err
	}
	s.end(e, "ok", resp)
	return proto.Clone(resp).(*pb.Message), nil
}

// SendRequest implements pb.MessageSender.
func (s *Sim) SendRequest(ctx context.Context, p peer.ID, pmes *pb.Message) (*pb.Message, error) {
	return s.exchange(ctx, "request", p, pmes)
}

// SendMessage implements pb.MessageSender.
func (s *Sim) SendMessage(ctx context.Context, p peer.ID, pmes *pb.Message) error {
	_, err := s.exchange(ctx, "message", p, pmes)
	return err
}

// OnDisconnect implements pb.MessageSenderWithDisconnect.
func (s *Sim) OnDisconnect(ctx context.Context, p peer.ID) {
	s.mu.Lock()
	s.Disconnects = append(s.Disconnects, p)
	s.mu.Unlock()
}

var _ pb.MessageSenderWithDisconnect = (*Sim)(nil)
