//go:build verif

package verifsim

import (
	"fmt"
	"regexp"
	"runtime"
	"runtime/debug"
	"strings"
	"testing"
	"testing/synctest"
	"time"
)

// BubbleOutcome is how a synctest bubble ended.
type BubbleOutcome struct {
	Panic    string // non-empty: the bubble function panicked (value + stack)
	Deadlock string // non-empty: synctest reported a deadlock / goroutines left blocked at exit
	Stacks   string // goroutine dump taken when Deadlock is set (bubble goroutines only)
}

func (o BubbleOutcome) OK() bool { return o.Panic == "" && o.Deadlock == "" }

// Bubble runs f inside a testing/synctest bubble (virtual time) and reports
// a panic of f, a deadlock (every bubble goroutine durably blocked with no
// timer pending) or goroutines left blocked when f returned, instead of
// letting them abort the test binary. f must not call t.Fatal & co.
func Bubble(t *testing.T, f func()) BubbleOutcome {
	done := make(chan BubbleOutcome, 1)
	idCh := make(chan string, 1)
	go func() {
		var out BubbleOutcome
		defer func() {
			if r := recover(); r != nil {
				msg := fmt.Sprint(r)
				out.Deadlock = msg
				out.Stacks = bubbleStacks()
			}
			done <- out
		}()
		synctest.Test(t, func(st *testing.T) {
			defer func() {
				if r := recover(); r != nil {
					out.Panic = fmt.Sprintf("%v\n%s", r, debug.Stack())
				}
			}()
			idCh <- ownBubble()
			f()
		})
	}()
	// Wedge detection (wall clock, outside the bubble): a goroutine of the
	// bubble blocked on a sync.Mutex (not a durable block) while no goroutine
	// of the bubble is running or runnable can never be released - the bubble
	// neither advances its clock nor reports a deadlock. Seen stable on two
	// snapshots, that state is reported instead of hanging the test binary.
	id := ""
	stable := ""
	tick := time.NewTicker(10 * time.Second)
	defer tick.Stop()
	for {
		select {
		case out := <-done:
			return out
		case id = <-idCh:
		case <-tick.C:
			if id == "" {
				continue
			}
			desc, wedged := wedgeState(id)
			if wedged && desc == stable {
				return BubbleOutcome{Deadlock: "wedged: a goroutine waits for a mutex that no runnable goroutine can release (the bubble can neither advance nor deadlock)", Stacks: desc}
			}
			if wedged {
				stable = desc
			} else {
				stable = ""
			}
		}
	}
}

func ownBubble() string {
	var buf [256]byte
	n := runtime.Stack(buf[:], false)
	if m := goroutineHdr.FindStringSubmatch(string(buf[:n])); m != nil {
		if i := strings.Index(m[2], "synctest bubble "); i >= 0 {
			return m[2][i:]
		}
	}
	return ""
}

// wedgeState describes the goroutines of a bubble and reports whether none is
// running/runnable while at least one is in a non-durable wait.
func wedgeState(bubble string) (string, bool) {
	buf := make([]byte, 4<<20)
	n := runtime.Stack(buf, true)
	var keep []string
	nonDurable, active := 0, 0
	for _, g := range strings.Split(string(buf[:n]), "\n\n") {
		m := goroutineHdr.FindStringSubmatch(g)
		if m == nil || !strings.HasSuffix(m[2], bubble) {
			continue
		}
		state := m[2]
		switch {
		case strings.HasPrefix(state, "running"), strings.HasPrefix(state, "runnable"), strings.HasPrefix(state, "syscall"), strings.HasPrefix(state, "GC "):
			if !strings.Contains(state, "durable") {
				active++
			}
		case !strings.Contains(state, "(durable)"):
			nonDurable++
			lines := strings.Split(g, "\n")
			if len(lines) > 12 {
				lines = lines[:12]
			}
			keep = append(keep, strings.Join(lines, "\n"))
		}
	}
	return strings.Join(keep, "\n\n"), active == 0 && nonDurable > 0
}

var goroutineHdr = regexp.MustCompile(`(?m)^goroutine (\d+) \[([^\]]*)\]:`)

// bubbleStacks returns the stacks of goroutines that belong to a synctest
// bubble and are blocked (used to describe a deadlock).
func bubbleStacks() string {
	buf := make([]byte, 1<<20)
	n := runtime.Stack(buf, true)
	var keep []string
	for _, g := range strings.Split(string(buf[:n]), "\n\n") {
		if strings.Contains(g, "synctest bubble") && !strings.Contains(g, "verifsim.Bubble") {
			lines := strings.Split(g, "\n")
			if len(lines) > 14 {
				lines = lines[:14]
			}
			keep = append(keep, strings.Join(lines, "\n"))
		}
		if len(keep) >= 8 {
			break
		}
	}
	return strings.Join(keep, "\n\n")
}

// GoroutineState is one goroutine of a census.
type GoroutineState struct {
	ID    string
	State string
	Top   string // first function of its stack
	Stack string
}

// Census lists the goroutines of the calling goroutine's bubble (or all
// goroutines when bubble is false), excluding the caller.
func Census(bubbleOnly bool) []GoroutineState {
	buf := make([]byte, 4<<20)
	n := runtime.Stack(buf, true)
	var out []GoroutineState
	blocks := strings.Split(string(buf[:n]), "\n\n")
	self, myBubble := "", ""
	if len(blocks) > 0 {
		if m := goroutineHdr.FindStringSubmatch(blocks[0]); m != nil {
			self = m[1]
			if i := strings.Index(m[2], "synctest bubble "); i >= 0 {
				myBubble = m[2][i:]
			}
		}
	}
	for _, g := range blocks {
		m := goroutineHdr.FindStringSubmatch(g)
		if m == nil || m[1] == self {
			continue
		}
		if bubbleOnly {
			// only goroutines of the caller's own bubble (earlier, dead bubbles may still hold leaked goroutines)
			if myBubble == "" || !strings.HasSuffix(m[2], myBubble) {
				continue
			}
		}
		lines := strings.Split(g, "\n")
		top := ""
		if len(lines) > 1 {
			top = lines[1]
		}
		out = append(out, GoroutineState{ID: m[1], State: m[2], Top: top, Stack: g})
	}
	return out
}

// Quiesce blocks until every other goroutine of the current bubble is durably
// blocked (synctest.Wait); it does not advance the virtual clock.
func Quiesce() { synctest.Wait() }
