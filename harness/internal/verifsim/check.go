//go:build verif

// Package verifsim is the shared support library of the /verif harness. It is
// injected into the repository by a build overlay only (it does not exist in
// the repository tree) and must not import any package of the repository that
// has in-package harness tests importing verifsim (import cycles).
package verifsim

import (
	"crypto/sha256"
	"encoding/binary"
	"encoding/json"
	"fmt"
	"os"
	"path/filepath"
	"sort"
	"strings"
	"sync"
	"testing"
	"time"

	"pgregory.net/rapid"
)

// Violation is one failed clause of a property on one case.
type Violation struct {
	Clause    string `json:"clause"`
	Signature string `json:"signature"` // stable text, what known_findings.jsonl lists
	Detail    string `json:"detail"`
}

// Result is what running one case yields.
type Result struct {
	Violations []Violation
	NonTrivial bool
	Classes    []string // labels for the class histogram
	Weight     int      // number of oracle evaluations inside the case (0 = 1)
}

func (r *Result) Fail(clause, sig, format string, args ...any) {
	r.Violations = append(r.Violations, Violation{Clause: clause, Signature: sig, Detail: fmt.Sprintf(format, args...)})
}

func (r *Result) Class(c string) { r.Classes = append(r.Classes, c) }

// Check describes one part of the check of one property.
type Check[S any] struct {
	Property    string
	Part        string
	Rule        string
	Assumptions []string
	Gen         func(t *rapid.T) S
	Run         func(t *testing.T, s S) Result
	// Excluded is consulted with the set of known-finding signatures; it
	// returns a non-empty label when the scenario belongs to an input class
	// that is excluded by construction because of a listed finding.
	Excluded func(s S, known map[string]bool) string
}

type statsFile struct {
	Property     string         `json:"property"`
	Part         string         `json:"part"`
	Rule         string         `json:"rule"`
	Assumptions  []string       `json:"assumptions"`
	Evaluations  int            `json:"evaluations"`
	Oracle       int            `json:"oracle_evaluations"`
	NonTrivial   int            `json:"nontrivial"`
	Digests      []string       `json:"nontrivial_digests"`
	Classes      map[string]int `json:"classes"`
	Samples      []any          `json:"samples"`
	KnownHits    map[string]int `json:"known_hits"`
	Excluded     map[string]int `json:"excluded"`
	Exhaustive   bool           `json:"exhaustive"`
	WallS        float64        `json:"wall_s"`
	Requested    int            `json:"requested"`
	ReplayedFile []replayResult `json:"replays,omitempty"`
}

type replayResult struct {
	File       string      `json:"file"`
	Violations []Violation `json:"violations"`
}

type collector struct {
	mu      sync.Mutex
	st      statsFile
	digests map[uint64]struct{}
	start   time.Time
	maxSamp int
}

func newCollector(prop, part, rule string, assumptions []string) *collector {
	return &collector{
		st: statsFile{Property: prop, Part: part, Rule: rule, Assumptions: assumptions,
			Classes: map[string]int{}, KnownHits: map[string]int{}, Excluded: map[string]int{}},
		digests: map[uint64]struct{}{},
		start:   time.Now(),
		maxSamp: 3,
	}
}

func digestOf(v any) uint64 {
	b, err := json.Marshal(v)
	if err != nil {
		panic("verifsim: scenario not JSON-serialisable: " + err.Error())
	}
	h := sha256.Sum256(b)
	return binary.BigEndian.Uint64(h[:8])
}

func (c *collector) record(s any, r Result) {
	c.mu.Lock()
	defer c.mu.Unlock()
	c.st.Evaluations++
	w := r.Weight
	if w <= 0 {
		w = 1
	}
	c.st.Oracle += w
	for _, cl := range r.Classes {
		c.st.Classes[cl]++
	}
	if r.NonTrivial {
		c.st.NonTrivial++
		d := digestOf(s)
		if _, ok := c.digests[d]; !ok {
			c.digests[d] = struct{}{}
			if len(c.st.Samples) < c.maxSamp {
				c.st.Samples = append(c.st.Samples, s)
			}
		}
	}
}

func outDir() string {
	d := os.Getenv("VERIF_OUT")
	if d == "" {
		d = filepath.Join(os.TempDir(), "verif-out")
	}
	_ = os.MkdirAll(d, 0o755)
	return d
}

func (c *collector) flush() {
	c.mu.Lock()
	defer c.mu.Unlock()
	c.st.WallS = time.Since(c.start).Seconds()
	c.st.Digests = c.st.Digests[:0]
	ds := make([]uint64, 0, len(c.digests))
	for d := range c.digests {
		ds = append(ds, d)
	}
	sort.Slice(ds, func(i, j int) bool { return ds[i] < ds[j] })
	for _, d := range ds {
		c.st.Digests = append(c.st.Digests, fmt.Sprintf("%016x", d))
	}
	b, _ := json.Marshal(c.st)
	name := fmt.Sprintf("stats-%s-%s-%d.json", c.st.Property, c.st.Part, os.Getpid())
	_ = os.WriteFile(filepath.Join(outDir(), name), b, 0o644)
}

var (
	knownOnce sync.Once
	knownSet  map[string]bool
)

// Known returns the signatures listed with status "known" in the
// known-findings file named by VERIF_KNOWN.
func Known() map[string]bool {
	knownOnce.Do(func() {
		knownSet = map[string]bool{}
		p := os.Getenv("VERIF_KNOWN")
		if p == "" {
			return
		}
		b, err := os.ReadFile(p)
		if err != nil {
			return
		}
		for _, line := range strings.Split(string(b), "\n") {
			line = strings.TrimSpace(line)
			if line == "" {
				continue
			}
			var e struct {
				Signature string `json:"signature"`
				Status    string `json:"status"`
			}
			if json.Unmarshal([]byte(line), &e) == nil && e.Status == "known" {
				knownSet[e.Signature] = true
			}
		}
	})
	return knownSet
}

type violationFile struct {
	Property  string      `json:"property"`
	Part      string      `json:"part"`
	Test      string      `json:"test"`
	Scenario  any         `json:"scenario"`
	Violation []Violation `json:"violations,omitempty"`
}

func writeJSON(path string, v any) {
	b, err := json.MarshalIndent(v, "", " ")
	if err != nil {
		b = []byte(fmt.Sprintf(`{"error":%q}`, err.Error()))
	}
	_ = os.WriteFile(path, b, 0o644)
}

// Tier returns "quick" or "thorough".
func Tier() string {
	if os.Getenv("VERIF_TIER") == "thorough" {
		return "thorough"
	}
	return "quick"
}

func Thorough() bool { return Tier() == "thorough" }

func replayFiles(prop, part string) []string {
	v := os.Getenv("VERIF_REPLAY")
	if v == "" {
		return nil
	}
	var out []string
	for _, f := range strings.Split(v, ",") {
		f = strings.TrimSpace(f)
		if f == "" {
			continue
		}
		b, err := os.ReadFile(f)
		if err != nil {
			continue
		}
		var hdr struct {
			Property string `json:"property"`
			Part     string `json:"part"`
		}
		if json.Unmarshal(b, &hdr) != nil {
			continue
		}
		if hdr.Property == prop && hdr.Part == part {
			out = append(out, f)
		}
	}
	return out
}

// InReplay reports whether the process was started to replay saved scenarios.
func InReplay() bool { return os.Getenv("VERIF_REPLAY") != "" }

func runReplays[S any](t *testing.T, c Check[S], col *collector) {
	files := replayFiles(c.Property, c.Part)
	var results []replayResult
	for _, f := range files {
		b, _ := os.ReadFile(f)
		var vf struct {
			Scenario json.RawMessage `json:"scenario"`
			Repeat   int             `json:"repeat"` // schedule-dependent scenarios are executed several times
		}
		var s S
		if err := json.Unmarshal(b, &vf); err != nil {
			t.Fatalf("replay %s: %v", f, err)
		}
		if err := json.Unmarshal(vf.Scenario, &s); err != nil {
			t.Fatalf("replay %s: scenario: %v", f, err)
		}
		res := c.Run(t, s)
		col.record(s, res)
		for i := 1; i < vf.Repeat && len(res.Violations) == 0; i++ {
			res = c.Run(t, s)
		}
		vs := res.Violations
		if vs == nil {
			vs = []Violation{}
		}
		results = append(results, replayResult{File: f, Violations: vs})
		for _, v := range res.Violations {
			t.Logf("replay %s: VERIF-VIOLATION %s: %s", f, v.Signature, v.Detail)
		}
	}
	name := fmt.Sprintf("replay-%s-%s-%d.json", c.Property, c.Part, os.Getpid())
	writeJSON(filepath.Join(outDir(), name), results)
}

// RunCheck drives one check part with rapid (or replays saved scenarios when
// VERIF_REPLAY is set).
func RunCheck[S any](t *testing.T, c Check[S]) {
	col := newCollector(c.Property, c.Part, c.Rule, c.Assumptions)
	defer col.flush()
	if InReplay() {
		runReplays(t, c, col)
		return
	}
	known := Known()
	inflight := filepath.Join(outDir(), fmt.Sprintf("inflight-%s-%s-%d.json", c.Property, c.Part, os.Getpid()))
	violPath := filepath.Join(outDir(), fmt.Sprintf("violation-%s-%s-%d.json", c.Property, c.Part, os.Getpid()))
	testName := t.Name()
	rapid.Check(t, func(rt *rapid.T) {
		s := c.Gen(rt)
		if c.Excluded != nil {
			if lbl := c.Excluded(s, known); lbl != "" {
				col.mu.Lock()
				col.st.Excluded[lbl]++
				col.mu.Unlock()
				rt.Skip("excluded by known finding: " + lbl)
			}
		}
		writeJSON(inflight, violationFile{Property: c.Property, Part: c.Part, Test: testName, Scenario: s})
		res := c.Run(t, s)
		col.record(s, res)
		var fresh []Violation
		for _, v := range res.Violations {
			if known[v.Signature] {
				col.mu.Lock()
				col.st.KnownHits[v.Signature]++
				col.mu.Unlock()
				continue
			}
			fresh = append(fresh, v)
		}
		if len(fresh) > 0 {
			writeJSON(violPath, violationFile{Property: c.Property, Part: c.Part, Test: testName, Scenario: s, Violation: fresh})
			rt.Fatalf("VERIF-VIOLATION %s: %s", fresh[0].Signature, fresh[0].Detail)
		}
	})
	_ = os.Remove(inflight)
}

// RunFuzz drives the same check part with Go's coverage-guided fuzzer: the
// fuzzer's byte string is the bit stream rapid's generators draw from
// (rapid.MakeFuzz), so mutation and coverage feedback act on the structured
// scenario, and the oracle is the one of the rapid-driven part. Every worker
// process keeps its own statistics file up to date (workers are not shut down
// in an orderly way); a fresh violation is written as a scenario file that
// `bin/check --replay` runs through the rapid-driven test of the same part.
func RunFuzz[S any](f *testing.F, c Check[S], replayTest string) {
	c.Part += "-gofuzz"
	c.Rule = "go test -fuzz (coverage-guided) over the byte stream behind the generators of this rule, via rapid.MakeFuzz: " + c.Rule
	col := newCollector(c.Property, c.Part, c.Rule, c.Assumptions)
	known := Known()
	violPath := filepath.Join(outDir(), fmt.Sprintf("violation-%s-%s-%d.json", c.Property, c.Part, os.Getpid()))
	basePart := strings.TrimSuffix(c.Part, "-gofuzz")
	inflight := filepath.Join(outDir(), fmt.Sprintf("inflight-%s-%s-%d.json", c.Property, c.Part, os.Getpid()))
	// seed corpus: the empty stream (rapid's minimal scenario) and a few fixed pseudo-random streams of growing length
	f.Add([]byte{})
	x := uint64(0x9e3779b97f4a7c15)
	for _, n := range []int{64, 256, 1024, 4096} {
		b := make([]byte, n)
		for i := range b {
			x = Mix64(x + uint64(i))
			b[i] = byte(x)
		}
		f.Add(b)
	}
	n := 0
	f.Fuzz(func(t *testing.T, data []byte) {
		rapid.MakeFuzz(func(rt *rapid.T) {
			s := c.Gen(rt)
			if c.Excluded != nil {
				if lbl := c.Excluded(s, known); lbl != "" {
					col.mu.Lock()
					col.st.Excluded[lbl]++
					col.mu.Unlock()
					rt.Skip("excluded by known finding: " + lbl)
				}
			}
			writeJSON(inflight, violationFile{Property: c.Property, Part: basePart, Test: replayTest, Scenario: s})
			res := c.Run(t, s)
			col.record(s, res)
			var fresh []Violation
			for _, v := range res.Violations {
				if known[v.Signature] {
					col.mu.Lock()
					col.st.KnownHits[v.Signature]++
					col.mu.Unlock()
					continue
				}
				fresh = append(fresh, v)
			}
			if len(fresh) > 0 {
				writeJSON(violPath, violationFile{Property: c.Property, Part: basePart, Test: replayTest, Scenario: s, Violation: fresh})
				col.flush()
				rt.Fatalf("VERIF-VIOLATION %s: %s", fresh[0].Signature, fresh[0].Detail)
			}
		})(t, data)
		n++
		if n%200 == 0 || n < 3 {
			col.flush()
		}
	})
}

// RunEnum drives a check part over an explicit enumeration of scenarios.
func RunEnum[S any](t *testing.T, c Check[S], enum func(yield func(S) bool)) {
	col := newCollector(c.Property, c.Part, c.Rule, c.Assumptions)
	defer col.flush()
	if InReplay() {
		runReplays(t, c, col)
		return
	}
	known := Known()
	violPath := filepath.Join(outDir(), fmt.Sprintf("violation-%s-%s-%d.json", c.Property, c.Part, os.Getpid()))
	complete := true
	enum(func(s S) bool {
		if c.Excluded != nil {
			if lbl := c.Excluded(s, known); lbl != "" {
				col.st.Excluded[lbl]++
				return true
			}
		}
		res := c.Run(t, s)
		col.record(s, res)
		var fresh []Violation
		for _, v := range res.Violations {
			if known[v.Signature] {
				col.st.KnownHits[v.Signature]++
				continue
			}
			fresh = append(fresh, v)
		}
		if len(fresh) > 0 {
			writeJSON(violPath, violationFile{Property: c.Property, Part: c.Part, Test: t.Name(), Scenario: s, Violation: fresh})
			t.Errorf("VERIF-VIOLATION %s: %s", fresh[0].Signature, fresh[0].Detail)
			complete = false
			return false
		}
		return true
	})
	col.st.Exhaustive = complete
}
