//go:build verif

package verifsim

import (
	"fmt"
	"strconv"
	"strings"
	"sync"
	"time"
)

// CloseProbe decides "Close returns only after every goroutine the instance
// started has exited" for a component built inside a bubble.
//
// Goroutines are told apart by id: those that existed before construction
// (NewCloseProbe takes the census), those the harness starts itself (Go) and
// the rest, which must be the instance's. Two observations are made:
//
//   - the moment a Close call returns, no instance goroutine may be *blocked*
//     (asleep, waiting on a channel, lock, wait group ...). A goroutine that is
//     running or runnable at that instant is not counted: one that has just
//     signalled its completion is still returning. This is what catches a
//     Close that returns while the instance's worker is held inside an
//     operation;
//   - at the end (every Close call returned, bubble quiescent), no instance
//     goroutine may exist at all.
type CloseProbe struct {
	mu       sync.Mutex
	before   map[string]bool
	harness  map[string]bool
	started  int
	finished int
	Early    []string // findings of the first kind
}

func NewCloseProbe() *CloseProbe {
	Quiesce()
	p := &CloseProbe{before: map[string]bool{}, harness: map[string]bool{}}
	for _, g := range Census(true) {
		p.before[g.ID] = true
	}
	p.harness[strconv.FormatInt(CurGID(), 10)] = true // the goroutine that builds the instance and later calls Finish
	return p
}

// Go starts a harness goroutine (an operation in flight, a Close caller).
func (p *CloseProbe) Go(f func()) {
	p.mu.Lock()
	p.started++
	p.mu.Unlock()
	ready := make(chan struct{})
	go func() {
		p.mu.Lock()
		p.harness[strconv.FormatInt(CurGID(), 10)] = true
		p.mu.Unlock()
		close(ready)
		defer func() {
			p.mu.Lock()
			p.finished++
			p.mu.Unlock()
		}()
		f()
	}()
	<-ready
}

// GoDaemon starts a harness goroutine that is not an operation: Finish does not wait for it (the harness stops it itself).
func (p *CloseProbe) GoDaemon(f func()) {
	ready := make(chan struct{})
	go func() {
		p.mu.Lock()
		p.harness[strconv.FormatInt(CurGID(), 10)] = true
		p.mu.Unlock()
		close(ready)
		f()
	}()
	<-ready
}

func (p *CloseProbe) instance(blockedOnly bool) []GoroutineState {
	var out []GoroutineState
	p.mu.Lock()
	defer p.mu.Unlock()
	for _, g := range Census(true) {
		if p.before[g.ID] || p.harness[g.ID] || strings.Contains(g.Stack, "verifsim.(*CloseProbe).Go") || strings.Contains(g.Stack, "verifsim.(*CloseProbe).GoDaemon") {
			continue // (a harness goroutine that has not registered its id yet is recognised by its creator frame)
		}
		if blockedOnly && (strings.HasPrefix(g.State, "running") || strings.HasPrefix(g.State, "runnable")) {
			continue
		}
		out = append(out, g)
	}
	return out
}

func describe(gs []GoroutineState) string {
	var parts []string
	for i, g := range gs {
		if i == 2 {
			break
		}
		lines := strings.Split(g.Stack, "\n")
		if len(lines) > 17 {
			lines = lines[:17]
		}
		parts = append(parts, strings.Join(lines, "\n"))
	}
	return strings.Join(parts, "\n\n")
}

// CloseCall runs one Close call on a harness goroutine and looks at the
// instance's goroutines the moment it returns.
func (p *CloseProbe) CloseCall(label string, closeFn func() error) {
	p.Go(func() {
		_ = closeFn()
		if left := p.instance(true); len(left) > 0 {
			p.mu.Lock()
			p.Early = append(p.Early, fmt.Sprintf("%s returned while %d goroutine(s) of the instance were still blocked inside it:\n%s", label, len(left), describe(left)))
			p.mu.Unlock()
		}
	})
}

// Finish waits (virtual time) until every harness goroutine has returned and
// reports: ok=false with a description when one did not return within the
// limit, when a Close returned early, or when instance goroutines are left.
func (p *CloseProbe) Finish(limit time.Duration) (clause, detail string) {
	deadline := time.Now().Add(limit)
	for {
		Quiesce()
		p.mu.Lock()
		done := p.finished == p.started
		p.mu.Unlock()
		if done {
			break
		}
		if time.Now().After(deadline) {
			var stuck []GoroutineState
			p.mu.Lock()
			for _, g := range Census(true) {
				if p.harness[g.ID] {
					stuck = append(stuck, g)
				}
			}
			p.mu.Unlock()
			return "calls-return", fmt.Sprintf("%d call(s) (Close or operations in flight) did not return within %v of virtual time:\n%s", len(stuck), limit, describe(stuck))
		}
		time.Sleep(time.Second)
	}
	p.mu.Lock()
	early := append([]string(nil), p.Early...)
	p.mu.Unlock()
	if len(early) > 0 {
		return "close-waits", early[0]
	}
	Quiesce()
	if left := p.instance(false); len(left) > 0 {
		return "nothing-left", fmt.Sprintf("%d goroutine(s) of the instance left after every Close call returned:\n%s", len(left), describe(left))
	}
	return "", ""
}
