//go:build verif

package verifsim

import (
	"context"
	"errors"
	"fmt"
	"sort"
	"strings"
	"sync"

	ds "github.com/ipfs/go-datastore"
	"github.com/ipfs/go-datastore/query"
)

// ErrInjected is returned by a datastore call selected for fault injection.
var ErrInjected = errors.New("verif: injected datastore error")

// JWrite is one key mutation.
type JWrite struct {
	Key   string `json:"k"`
	Value []byte `json:"v,omitempty"`
	Del   bool   `json:"del,omitempty"`
}

// JEntry is one entry of the write journal of a physical datastore: a single
// write, an atomic batch commit, a sync, or a destroy (factory datastores).
type JEntry struct {
	Seq    int      `json:"seq"`  // global sequence number (shared SeqClock), 1-based
	Kind   string   `json:"kind"` // "write" | "batch" | "sync" | "destroy"
	Writes []JWrite `json:"writes,omitempty"`
	Prefix string   `json:"prefix,omitempty"` // sync prefix
}

// Call describes one datastore call (for logs, gates and fault selection).
type Call struct {
	N    int    // sequence number among all calls of this datastore
	Op   string // get has getsize put delete query batch commit sync close batch-put batch-delete
	Key  string
	GID  string // label of the calling context (optional)
	Late bool   // issued after MarkClosed
}

// JournalDS is an in-memory ds.Batching that journals every mutation and
// sync, can fail chosen calls, can park every call at a gate, and records
// every access.
type JournalDS struct {
	mu      sync.Mutex
	data    map[string][]byte
	journal []JEntry
	calls   int
	log     []Call
	keepLog bool

	// FailCall, if set, is consulted for every call; returning true makes the
	// call fail with ErrInjected (before having any effect).
	FailCall func(c Call) bool
	// Gate, if set, is invoked (without the lock held) before the call takes
	// effect; it may block to let a controller order the calls.
	Gate func(c Call)
	// Name labels the datastore in logs.
	Name string
	// Clock, if set, stamps journal entries with a sequence number shared by
	// several physical datastores (so that a global crash instant is defined).
	Clock *SeqClock

	closedMark bool
	late       []Call
}

// SeqClock is a counter shared by the journals of several datastores.
type SeqClock struct {
	mu sync.Mutex
	n  int
}

func (c *SeqClock) next() int { c.mu.Lock(); defer c.mu.Unlock(); c.n++; return c.n }

// Now returns the number of journal entries stamped so far.
func (c *SeqClock) Now() int { c.mu.Lock(); defer c.mu.Unlock(); return c.n }

// appendJ appends a journal entry; d.mu must be held.
func (d *JournalDS) appendJ(e JEntry) {
	if d.Clock != nil {
		e.Seq = d.Clock.next()
	} else {
		e.Seq = len(d.journal) + 1
	}
	d.journal = append(d.journal, e)
}

// EntriesUpTo returns how many journal entries have Seq <= T.
func EntriesUpTo(j []JEntry, T int) int {
	n := 0
	for _, e := range j {
		if e.Seq <= T {
			n++
		}
	}
	return n
}

func NewJournalDS(name string) *JournalDS {
	return &JournalDS{data: map[string][]byte{}, Name: name, keepLog: true}
}

// NewJournalDSFrom builds a datastore holding the given content (no journal).
func NewJournalDSFrom(name string, content map[string][]byte) *JournalDS {
	d := NewJournalDS(name)
	for k, v := range content {
		d.data[k] = append([]byte(nil), v...)
	}
	return d
}

func (d *JournalDS) enter(op, key string) error {
	d.mu.Lock()
	d.calls++
	c := Call{N: d.calls, Op: op, Key: key, Late: d.closedMark}
	if d.keepLog {
		d.log = append(d.log, c)
	}
	if d.closedMark {
		d.late = append(d.late, c)
	}
	fail := d.FailCall
	gate := d.Gate
	d.mu.Unlock()
	if gate != nil {
		gate(c)
	}
	if fail != nil && fail(c) {
		return fmt.Errorf("%w (%s #%d %s %s)", ErrInjected, d.Name, c.N, op, key)
	}
	return nil
}

// MarkClosed makes every later call be recorded as late (C07: no datastore
// access after Close returned).
func (d *JournalDS) MarkClosed()   { d.mu.Lock(); d.closedMark = true; d.mu.Unlock() }
func (d *JournalDS) MarkReopened() { d.mu.Lock(); d.closedMark = false; d.mu.Unlock() }
func (d *JournalDS) LateCalls() []Call {
	d.mu.Lock()
	defer d.mu.Unlock()
	return append([]Call(nil), d.late...)
}

// Calls returns the number of datastore calls made so far.
func (d *JournalDS) Calls() int { d.mu.Lock(); defer d.mu.Unlock(); return d.calls }

// Log returns a copy of the access log.
func (d *JournalDS) Log() []Call {
	d.mu.Lock()
	defer d.mu.Unlock()
	return append([]Call(nil), d.log...)
}

// JournalLen returns the current journal length (a crash instant).
func (d *JournalDS) JournalLen() int { d.mu.Lock(); defer d.mu.Unlock(); return len(d.journal) }

// Journal returns a copy of the journal.
func (d *JournalDS) Journal() []JEntry {
	d.mu.Lock()
	defer d.mu.Unlock()
	return append([]JEntry(nil), d.journal...)
}

// LastSyncBefore returns the smallest admissible cut for a crash at instant t
// (journal length t): the position just after the last sync entry among the
// first t entries (0 if none).
func LastSyncBefore(j []JEntry, t int) int {
	for i := t - 1; i >= 0; i-- {
		if j[i].Kind == "sync" || j[i].Kind == "destroy" {
			return i + 1
		}
	}
	return 0
}

// StateAt replays the first cut entries of a journal on top of base.
func StateAt(base map[string][]byte, j []JEntry, cut int) map[string][]byte {
	out := map[string][]byte{}
	for k, v := range base {
		out[k] = v
	}
	for i := 0; i < cut && i < len(j); i++ {
		e := j[i]
		if e.Kind == "destroy" {
			out = map[string][]byte{}
			continue
		}
		for _, w := range e.Writes {
			if w.Del {
				delete(out, w.Key)
			} else {
				out[w.Key] = w.Value
			}
		}
	}
	return out
}

// Snapshot returns a copy of the current content.
func (d *JournalDS) Snapshot() map[string][]byte {
	d.mu.Lock()
	defer d.mu.Unlock()
	out := make(map[string][]byte, len(d.data))
	for k, v := range d.data {
		out[k] = append([]byte(nil), v...)
	}
	return out
}

// Destroy wipes the datastore (factory mode teardown); journaled as durable.
func (d *JournalDS) Destroy() {
	d.mu.Lock()
	defer d.mu.Unlock()
	d.data = map[string][]byte{}
	d.appendJ(JEntry{Kind: "destroy"})
}

// PlantRaw writes a key without journaling or call accounting (test setup).
func (d *JournalDS) PlantRaw(key string, value []byte) {
	d.mu.Lock()
	defer d.mu.Unlock()
	d.data[key] = append([]byte(nil), value...)
}

func (d *JournalDS) Put(ctx context.Context, key ds.Key, value []byte) error {
	if err := d.enter("put", key.String()); err != nil {
		return err
	}
	d.mu.Lock()
	defer d.mu.Unlock()
	v := append([]byte(nil), value...)
	d.data[key.String()] = v
	d.appendJ(JEntry{Kind: "write", Writes: []JWrite{{Key: key.String(), Value: v}}})
	return nil
}

func (d *JournalDS) Delete(ctx context.Context, key ds.Key) error {
	if err := d.enter("delete", key.String()); err != nil {
		return err
	}
	d.mu.Lock()
	defer d.mu.Unlock()
	delete(d.data, key.String())
	d.appendJ(JEntry{Kind: "write", Writes: []JWrite{{Key: key.String(), Del: true}}})
	return nil
}

func (d *JournalDS) Sync(ctx context.Context, prefix ds.Key) error {
	if err := d.enter("sync", prefix.String()); err != nil {
		return err
	}
	d.mu.Lock()
	defer d.mu.Unlock()
	d.appendJ(JEntry{Kind: "sync", Prefix: prefix.String()})
	return nil
}

func (d *JournalDS) Get(ctx context.Context, key ds.Key) ([]byte, error) {
	if err := d.enter("get", key.String()); err != nil {
		return nil, err
	}
	d.mu.Lock()
	defer d.mu.Unlock()
	v, ok := d.data[key.String()]
	if !ok {
		return nil, ds.ErrNotFound
	}
	return append([]byte(nil), v...), nil
}

func (d *JournalDS) Has(ctx context.Context, key ds.Key) (bool, error) {
	if err := d.enter("has", key.String()); err != nil {
		return false, err
	}
	d.mu.Lock()
	defer d.mu.Unlock()
	_, ok := d.data[key.String()]
	return ok, nil
}

func (d *JournalDS) GetSize(ctx context.Context, key ds.Key) (int, error) {
	if err := d.enter("getsize", key.String()); err != nil {
		return -1, err
	}
	d.mu.Lock()
	defer d.mu.Unlock()
	v, ok := d.data[key.String()]
	if !ok {
		return -1, ds.ErrNotFound
	}
	return len(v), nil
}

func (d *JournalDS) Query(ctx context.Context, q query.Query) (query.Results, error) {
	if err := d.enter("query", q.Prefix); err != nil {
		return nil, err
	}
	d.mu.Lock()
	keys := make([]string, 0, len(d.data))
	for k := range d.data {
		keys = append(keys, k)
	}
	sort.Strings(keys)
	entries := make([]query.Entry, 0, len(keys))
	for _, k := range keys {
		e := query.Entry{Key: k, Size: len(d.data[k])}
		if !q.KeysOnly {
			e.Value = append([]byte(nil), d.data[k]...)
		}
		entries = append(entries, e)
	}
	d.mu.Unlock()
	r := query.ResultsWithEntries(q, entries)
	return query.NaiveQueryApply(q, r), nil
}

func (d *JournalDS) Close() error {
	return d.enter("close", "")
}

type jBatch struct {
	d   *JournalDS
	ops []JWrite
}

func (d *JournalDS) Batch(ctx context.Context) (ds.Batch, error) {
	if err := d.enter("batch", ""); err != nil {
		return nil, err
	}
	return &jBatch{d: d}, nil
}

func (b *jBatch) Put(ctx context.Context, key ds.Key, value []byte) error {
	b.ops = append(b.ops, JWrite{Key: key.String(), Value: append([]byte(nil), value...)})
	return nil
}

func (b *jBatch) Delete(ctx context.Context, key ds.Key) error {
	b.ops = append(b.ops, JWrite{Key: key.String(), Del: true})
	return nil
}

func (b *jBatch) Commit(ctx context.Context) error {
	first := ""
	if len(b.ops) > 0 {
		first = b.ops[0].Key
	}
	if err := b.d.enter("commit", first); err != nil {
		return err
	}
	b.d.mu.Lock()
	defer b.d.mu.Unlock()
	if len(b.ops) == 0 {
		return nil
	}
	for _, w := range b.ops {
		if w.Del {
			delete(b.d.data, w.Key)
		} else {
			b.d.data[w.Key] = w.Value
		}
	}
	b.d.appendJ(JEntry{Kind: "batch", Writes: b.ops})
	b.ops = nil
	return nil
}

var _ ds.Batching = (*JournalDS)(nil)

// KeysWithPrefix lists content keys under a textual prefix (test helper).
func KeysWithPrefix(m map[string][]byte, prefix string) []string {
	var out []string
	for k := range m {
		if strings.HasPrefix(k, prefix) {
			out = append(out, k)
		}
	}
	sort.Strings(out)
	return out
}
