//go:build verif

package verifsim

import (
	"crypto/sha256"
	"fmt"
	"sort"
	"strings"
	"sync"

	"pgregory.net/rapid"
)

// Pool is a deterministic pool of identifiers (peer ids or multihashes, both
// valid sha2-256 multihashes) indexed by the bits of their Kademlia key
// (SHA-256 of the identifier), so that clustered / lopsided key sets can be
// constructed instead of filtered.
type Pool struct {
	IDs    []string   // raw bytes of the identifier
	Kad    [][32]byte // sha256(id)
	sorted []int      // indices sorted by Kad
}

var (
	poolMu sync.Mutex
	pools  = map[string]*Pool{}
)

// NewPool returns the cached pool with the given label and size.
func NewPool(label string, n int) *Pool {
	poolMu.Lock()
	defer poolMu.Unlock()
	k := fmt.Sprintf("%s/%d", label, n)
	if p, ok := pools[k]; ok {
		return p
	}
	p := &Pool{IDs: make([]string, n), Kad: make([][32]byte, n), sorted: make([]int, n)}
	for i := 0; i < n; i++ {
		h := sha256.Sum256([]byte(fmt.Sprintf("verif-%s-%d", label, i)))
		id := append([]byte{0x12, 0x20}, h[:]...)
		p.IDs[i] = string(id)
		p.Kad[i] = sha256.Sum256(id)
		p.sorted[i] = i
	}
	sort.Slice(p.sorted, func(a, b int) bool {
		return string(p.Kad[p.sorted[a]][:]) < string(p.Kad[p.sorted[b]][:])
	})
	pools[k] = p
	return p
}

// BitString renders the first n bits of a 32-byte key as a string of 0/1.
func BitString(k [32]byte, n int) string {
	var sb strings.Builder
	for i := 0; i < n; i++ {
		if k[i/8]&(0x80>>(uint(i)%8)) != 0 {
			sb.WriteByte('1')
		} else {
			sb.WriteByte('0')
		}
	}
	return sb.String()
}

// Bits returns the full 256-character bit string of entry i.
func (p *Pool) Bits(i int) string { return BitString(p.Kad[i], 256) }

// WithPrefix returns the indices of all pool entries whose Kademlia key starts
// with the given bit string, in ascending key order.
func (p *Pool) WithPrefix(bits string) []int {
	lo := sort.Search(len(p.sorted), func(j int) bool {
		return BitString(p.Kad[p.sorted[j]], len(bits)) >= bits
	})
	var out []int
	for j := lo; j < len(p.sorted); j++ {
		if BitString(p.Kad[p.sorted[j]], len(bits)) != bits {
			break
		}
		out = append(out, p.sorted[j])
	}
	return out
}

// XorLess reports whether a is strictly nearer to target than b (XOR metric on
// 32-byte keys), computed bytewise without any library code.
func XorLess(target, a, b [32]byte) bool {
	for i := 0; i < 32; i++ {
		da, db := a[i]^target[i], b[i]^target[i]
		if da != db {
			return da < db
		}
	}
	return false
}

// CPL returns the common prefix length of two 32-byte keys.
func CPL(a, b [32]byte) int {
	for i := 0; i < 32; i++ {
		x := a[i] ^ b[i]
		if x != 0 {
			n := 0
			for x&0x80 == 0 {
				x <<= 1
				n++
			}
			return i*8 + n
		}
	}
	return 256
}

// Mix64 is a bijective mixing function (splitmix64 finaliser). Generators index
// through it when they need an even spread: rapid's integer generators favour
// small values and range boundaries, which is what shrinking wants but not what
// "one case in six" or "a uniformly chosen member" means.
func Mix64(u uint64) uint64 {
	u ^= u >> 33
	u *= 0xff51afd7ed558ccd
	u ^= u >> 33
	u *= 0xc4ceb9fe1a85ec53
	u ^= u >> 33
	return u
}

// Chance draws a biased coin that comes up true in about percent cases out of
// 100, independent of rapid's preference for small numbers (a drawn 0, what
// shrinking converges to, means false).
func Chance(t *rapid.T, label string, percent int) bool {
	u := rapid.Uint64().Draw(t, label)
	if u == 0 {
		return false
	}
	return Mix64(u)%100 < uint64(percent)
}
