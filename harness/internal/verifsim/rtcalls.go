//go:build verif

package verifsim

import (
	"runtime"
	"strings"
	"time"
)

// Real-time call tracking for code that blocks on sync.Mutex / sync.Once: under
// testing/synctest such a wait is not a durable block, the bubble's clock stops
// and nothing can be observed. RTCall runs a call on its own goroutine outside
// any bubble; Settle waits until the call has returned or its goroutine is
// seen blocked (any wait state, mutexes included) on consecutive probes.

type RTCall struct {
	gid  int64
	done chan struct{}
	Err  error
	Pan  any
}

func RTGo(f func() error) *RTCall {
	c := &RTCall{done: make(chan struct{})}
	ready := make(chan struct{})
	go func() {
		c.gid = curGID()
		close(ready)
		defer close(c.done)
		defer func() {
			if r := recover(); r != nil {
				c.Pan = r
			}
		}()
		c.Err = f()
	}()
	<-ready
	return c
}

// DoneCh is closed when the call has returned.
func (c *RTCall) DoneCh() <-chan struct{} { return c.done }

func (c *RTCall) Done() bool {
	select {
	case <-c.done:
		return true
	default:
		return false
	}
}

// Settle returns once every call is done or blocked; false if that did not
// happen within the limit (a call that keeps running).
func RTSettle(limit time.Duration, calls ...*RTCall) bool {
	deadline := time.Now().Add(limit)
	stable := 0
	extended := false
	for {
		all := true
		states := goroutineStates()
		for _, c := range calls {
			if c.Done() {
				continue
			}
			st := states[c.gid]
			if st == "" || strings.HasPrefix(st, "running") || strings.HasPrefix(st, "runnable") || strings.HasPrefix(st, "syscall") {
				all = false
			}
		}
		if all {
			stable++
			if stable >= 3 {
				return true
			}
		} else {
			stable = 0
		}
		if time.Now().After(deadline) {
			// (a call that is merely waiting for the CPU on a busy machine is "runnable" for as long as it takes: one extension)
			if !extended {
				extended = true
				deadline = time.Now().Add(30 * time.Second)
				continue
			}
			return false
		}
		time.Sleep(500 * time.Microsecond)
	}
}

// RTWait waits for the calls to return. The limit is real time, and real time is not a correctness signal: on a machine
// that is busy with other things a goroutine that only needs the CPU for a moment may not get it for many seconds. So when
// the limit runs out, the calls are only given up for hung if nothing in the process is running or waiting to run any more
// (three probes in a row) - a deadlock stays, a starved goroutine does not; otherwise the wait goes on, up to three minutes.
func RTWait(limit time.Duration, calls ...*RTCall) bool {
	allDone := func() bool {
		for _, c := range calls {
			if !c.Done() {
				return false
			}
		}
		return true
	}
	t := time.NewTimer(limit)
	defer t.Stop()
	for _, c := range calls {
		select {
		case <-c.done:
			continue
		case <-t.C:
		}
		break
	}
	if allDone() {
		return true
	}
	self := curGID()
	hard := time.Now().Add(3 * time.Minute)
	quiet := 0
	for time.Now().Before(hard) {
		if allDone() {
			return true
		}
		busy := false
		for gid, st := range goroutineStates() {
			if gid != self && (strings.HasPrefix(st, "running") || strings.HasPrefix(st, "runnable") || strings.HasPrefix(st, "syscall")) {
				busy = true
			}
		}
		if busy {
			quiet = 0
		} else if quiet++; quiet >= 3 {
			return allDone()
		}
		time.Sleep(50 * time.Millisecond)
	}
	return allDone()
}

// GoroutinesMatching lists the stacks of live goroutines (other than the
// caller) whose stack contains one of the substrings; it retries for a short
// while so that goroutines on their way out are not reported.
func GoroutinesMatching(settle time.Duration, subs ...string) []string {
	deadline := time.Now().Add(settle)
	for {
		buf := make([]byte, 4<<20)
		n := runtime.Stack(buf, true)
		blocks := strings.Split(string(buf[:n]), "\n\n")
		var out []string
		for i, g := range blocks {
			if i == 0 {
				continue // the caller
			}
			// a goroutine that is running or runnable is not "left behind": on a loaded machine one that has just signalled
			// its completion may wait for the CPU for a long time before it is gone; only blocked goroutines count
			if m := goroutineHdr.FindStringSubmatch(g); m != nil && (strings.HasPrefix(m[2], "running") || strings.HasPrefix(m[2], "runnable")) {
				continue
			}
			for _, s := range subs {
				if strings.Contains(g, s) {
					out = append(out, g)
					break
				}
			}
		}
		if len(out) == 0 || time.Now().After(deadline) {
			return out
		}
		time.Sleep(time.Millisecond)
	}
}

// Bounded relays ch until it is closed. If that does not happen within limit (virtual time inside a bubble) the relay stops,
// closes its output and sets *hung: a consumer ranging over a channel that is never closed would otherwise keep a bubble with
// live tickers running for ever.
func Bounded[T any](ch <-chan T, limit time.Duration, hung *bool) <-chan T {
	out := make(chan T)
	go func() {
		defer close(out)
		giveUp := time.After(limit)
		for {
			select {
			case v, ok := <-ch:
				if !ok {
					return
				}
				out <- v
			case <-giveUp:
				*hung = true
				return
			}
		}
	}()
	return out
}
