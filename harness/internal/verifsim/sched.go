//go:build verif

package verifsim

import (
	"bytes"
	"fmt"
	"runtime"
	"strconv"
	"sync"
	"time"
)

// Sched is a cooperative scheduler for a handful of actor goroutines whose
// only interaction points are gated calls (datastore calls) and mutexes of the
// code under test. An actor runs until it reaches its next gate, finishes, or
// blocks on a mutex held by a parked actor; the controller then decides which
// parked actor proceeds. The executed interleaving is therefore a pure
// function of the controller's choices.
//
// Blocking on a mutex is detected with a goroutine-state probe (the header of
// the goroutine in runtime.Stack), because a mutex wait is invisible to
// channel-based bookkeeping.
type Sched struct {
	mu     sync.Mutex
	actors []*Actor
	byGID  map[int64]*Actor
}

type actorState int

const (
	actorRunning actorState = iota
	actorParked
	actorBlocked
	actorDone
)

// Actor is one scheduled goroutine.
type Actor struct {
	Name    string
	gid     int64
	state   actorState
	grant   chan struct{}
	arrived chan Call // gate arrival
	done    chan struct{}
	At      Call // the call it is parked at
	Steps   int
	panicV  any
}

func NewSched() *Sched { return &Sched{byGID: map[int64]*Actor{}} }

func curGID() int64 {
	var buf [64]byte
	n := runtime.Stack(buf[:], false)
	// "goroutine 123 [running]:"
	b := buf[:n]
	b = bytes.TrimPrefix(b, []byte("goroutine "))
	i := bytes.IndexByte(b, ' ')
	id, _ := strconv.ParseInt(string(b[:i]), 10, 64)
	return id
}

// Go starts an actor; it is parked at an initial gate ("start") until granted.
func (s *Sched) Go(name string, f func()) *Actor {
	a := &Actor{Name: name, grant: make(chan struct{}), arrived: make(chan Call, 1), done: make(chan struct{})}
	ready := make(chan struct{})
	go func() {
		a.gid = curGID()
		s.mu.Lock()
		s.byGID[a.gid] = a
		s.mu.Unlock()
		close(ready)
		defer close(a.done)
		defer func() {
			if r := recover(); r != nil {
				a.panicV = r
			}
		}()
		a.arrived <- Call{Op: "start"}
		<-a.grant
		f()
	}()
	<-ready
	s.mu.Lock()
	s.actors = append(s.actors, a)
	s.mu.Unlock()
	a.state = actorRunning
	return a
}

// Gate is installed as the Gate hook of a JournalDS; calls from goroutines
// that are not actors pass through.
func (s *Sched) Gate(c Call) {
	gid := curGID()
	s.mu.Lock()
	a := s.byGID[gid]
	s.mu.Unlock()
	if a == nil {
		return
	}
	a.arrived <- c
	<-a.grant
}

// settle waits until no actor is running: each is parked at a gate, done, or
// blocked (mutex wait seen on two consecutive probes).
func (s *Sched) settle() error {
	deadline := time.Now().Add(20 * time.Second)
	blockedSeen := map[*Actor]int{}
	for {
		pending := 0
		changed := false
		for _, a := range s.actors {
			if a.state != actorRunning && a.state != actorBlocked {
				continue
			}
			select {
			case c := <-a.arrived:
				a.state = actorParked
				a.At = c
				changed = true
				continue
			case <-a.done:
				a.state = actorDone
				changed = true
				continue
			default:
			}
			if a.state == actorRunning {
				pending++
			}
		}
		if changed {
			// somebody moved on and may have released a lock: re-examine blocked actors
			for _, a := range s.actors {
				if a.state == actorBlocked {
					a.state = actorRunning
				}
			}
			blockedSeen = map[*Actor]int{}
			continue
		}
		if pending == 0 {
			return nil
		}
		// probe the goroutine states
		states := goroutineStates()
		for _, a := range s.actors {
			if a.state != actorRunning {
				continue
			}
			st := states[a.gid]
			if isLockWait(st) {
				blockedSeen[a]++
				if blockedSeen[a] >= 3 {
					a.state = actorBlocked
				}
			} else {
				blockedSeen[a] = 0
			}
		}
		if time.Now().After(deadline) {
			return fmt.Errorf("scheduler: actors did not settle: %v", states)
		}
		runtime.Gosched()
	}
}

func isLockWait(state string) bool {
	switch state {
	case "sync.Mutex.Lock", "sync.RWMutex.Lock", "sync.RWMutex.RLock", "semacquire", "sync.WaitGroup.Wait", "chan receive", "chan send", "select", "sync.Cond.Wait":
		return true
	}
	return false
}

func goroutineStates() map[int64]string {
	buf := make([]byte, 1<<18)
	n := runtime.Stack(buf, true)
	out := map[int64]string{}
	for _, m := range goroutineHdr.FindAllSubmatch(buf[:n], -1) {
		id, _ := strconv.ParseInt(string(m[1]), 10, 64)
		st := string(m[2])
		if i := bytes.IndexByte(m[2], ','); i >= 0 {
			st = string(m[2][:i])
		}
		out[id] = st
	}
	return out
}

// Parked returns the actors currently parked at a gate, in creation order.
func (s *Sched) Parked() []*Actor {
	var out []*Actor
	for _, a := range s.actors {
		if a.state == actorParked {
			out = append(out, a)
		}
	}
	return out
}

// Settle brings the system to a decision point and re-examines blocked actors
// (a blocked actor becomes running again when the lock holder moved on).
func (s *Sched) Settle() error {
	for _, a := range s.actors {
		if a.state == actorBlocked {
			a.state = actorRunning
		}
	}
	return s.settle()
}

// Release lets a parked actor perform its pending call and run on.
func (s *Sched) Release(a *Actor) {
	if a.state != actorParked {
		panic("release of non-parked actor " + a.Name)
	}
	a.state = actorRunning
	a.Steps++
	a.grant <- struct{}{}
}

// AllDone reports whether every actor finished.
func (s *Sched) AllDone() bool {
	for _, a := range s.actors {
		if a.state != actorDone {
			return false
		}
	}
	return true
}

// Stuck reports actors that are blocked while nobody is parked (a deadlock of
// the code under test).
func (s *Sched) Stuck() []string {
	if len(s.Parked()) > 0 {
		return nil
	}
	var out []string
	for _, a := range s.actors {
		if a.state == actorBlocked {
			out = append(out, a.Name)
		}
	}
	return out
}

// Panics returns the recovered panics of actors.
func (s *Sched) Panics() []string {
	var out []string
	for _, a := range s.actors {
		if a.panicV != nil {
			out = append(out, fmt.Sprintf("%s: %v", a.Name, a.panicV))
		}
	}
	return out
}

// Drive runs the schedule: at every decision point choice(i, n) picks which of
// the n parked actors proceeds. It returns the sequence of (actor, call)
// decisions taken.
func (s *Sched) Drive(choice func(step, n int) int, maxSteps int) (trace []string, err error) {
	for step := 0; step < maxSteps; step++ {
		if err := s.Settle(); err != nil {
			return trace, err
		}
		p := s.Parked()
		if len(p) == 0 {
			if s.AllDone() {
				return trace, nil
			}
			// Nobody is parked and somebody looks blocked. "Blocked" is read off goroutine wait states, and an actor that merely
			// waits for a helper goroutine (a query iterator feeding a channel, say) looks the same for as long as the helper does
			// not get the CPU - on a loaded machine that can be many probes. Before calling it a deadlock, look again for a
			// while: a real deadlock stays, a starved helper does not.
			grace := time.Now().Add(3 * time.Second)
			for time.Now().Before(grace) {
				time.Sleep(2 * time.Millisecond)
				for _, a := range s.actors {
					if a.state == actorBlocked {
						a.state = actorRunning
					}
				}
				if err := s.Settle(); err != nil {
					return trace, err
				}
				if len(s.Parked()) > 0 || s.AllDone() {
					break
				}
			}
			if len(s.Parked()) > 0 {
				step--
				continue
			}
			if s.AllDone() {
				return trace, nil
			}
			return trace, fmt.Errorf("deadlock: actors %v blocked, none parked", s.Stuck())
		}
		i := choice(step, len(p))
		if i < 0 || i >= len(p) {
			i = 0
		}
		a := p[i]
		trace = append(trace, fmt.Sprintf("%s:%s %s", a.Name, a.At.Op, a.At.Key))
		s.Release(a)
	}
	return trace, fmt.Errorf("schedule exceeded %d steps", maxSteps)
}

// CurGID returns the id of the calling goroutine.
func CurGID() int64 { return curGID() }

// GoroutineState returns the wait state of a goroutine ("" if it is gone).
func GoroutineWaitState(gid int64) string { return goroutineStates()[gid] }
