//go:build verif

package dht_pb_test

// C10 (layer 1) — no response a remote peer can send crashes or over-feeds the
// ProtocolMessenger: generated responses over the whole message schema,
// round-tripped through their wire encoding, against every request method.

import (
	"bytes"
	"context"
	"fmt"
	"testing"

	"github.com/libp2p/go-libp2p-kad-dht/internal/verifsim"
	pb "github.com/libp2p/go-libp2p-kad-dht/pb"
	recpb "github.com/libp2p/go-libp2p-record/pb"
	"github.com/libp2p/go-libp2p/core/peer"
	ma "github.com/multiformats/go-multiaddr"
	"google.golang.org/protobuf/encoding/protowire"
	"google.golang.org/protobuf/proto"
	"pgregory.net/rapid"
)

type respPeer struct {
	ID    string `json:"id"`    // "" | ok | short | long
	Addrs string `json:"addrs"` // "" | ok | bad | huge | mixed
	Conn  int    `json:"conn"`
}

type respSc struct {
	Method  string     `json:"method"` // putvalue getvalue closest getproviders ping putprovider
	Nil     bool       `json:"nil_response"`
	Err     bool       `json:"err"`
	Type    int        `json:"type"`
	Key     string     `json:"key"` // "" | same | other
	Rec     string     `json:"rec"` // "" | same | otherkey | nokey | novalue | emptyvalue
	Closer  []respPeer `json:"closer"`
	Provs   []respPeer `json:"provs"`
	Cluster int        `json:"cluster"`
	Unknown []byte     `json:"unknown,omitempty"` // raw bytes appended to the encoding (unknown fields / garbage)
	RepeatC int        `json:"repeat_closer"`     // replicate the closer list this many times (thousands of peers)
}

var (
	c10Key  = "/v/c10key"
	c10Huge [][]byte
)

func hugeAddrBytes() [][]byte {
	if c10Huge == nil {
		for i := 0; i < 44; i++ {
			l := bytes.Repeat([]byte(fmt.Sprintf("y%02d", i)), 20)[:60]
			c10Huge = append(c10Huge, ma.StringCast(fmt.Sprintf("/dns4/%s.%s.%s.example.org/tcp/%d", l, l, l, 5000+i)).Bytes())
		}
	}
	return c10Huge
}

func (rp respPeer) build(i int) *pb.Message_Peer {
	mp := &pb.Message_Peer{Connection: pb.Message_ConnectionType(rp.Conn)}
	switch rp.ID {
	case "ok":
		mp.Id = []byte(verifsim.NewPool("peer", 256).IDs[i%256])
	case "short":
		mp.Id = []byte{1}
	case "long":
		mp.Id = bytes.Repeat([]byte{7}, 300)
	}
	switch rp.Addrs {
	case "ok":
		mp.Addrs = [][]byte{ma.StringCast(fmt.Sprintf("/ip4/8.8.%d.%d/tcp/4001", i/250%250, i%250+1)).Bytes()}
	case "bad":
		mp.Addrs = [][]byte{{0xff, 0x00}, {}, {0x04}}
	case "huge":
		mp.Addrs = hugeAddrBytes()
	case "mixed":
		mp.Addrs = append([][]byte{{0xde, 0xad}}, hugeAddrBytes()...)
	}
	return mp
}

func (s *respSc) wire() ([]byte, error) {
	m := &pb.Message{Type: pb.Message_MessageType(s.Type), ClusterLevelRaw: int32(s.Cluster)}
	switch s.Key {
	case "same":
		m.Key = []byte(c10Key)
	case "other":
		m.Key = []byte("/v/other")
	}
	switch s.Rec {
	case "same":
		m.Record = &recpb.Record{Key: []byte(c10Key), Value: []byte("value")}
	case "otherkey":
		m.Record = &recpb.Record{Key: []byte("/v/other"), Value: []byte("value")}
	case "nokey":
		m.Record = &recpb.Record{Value: []byte("value")}
	case "novalue":
		m.Record = &recpb.Record{Key: []byte(c10Key)}
	case "emptyvalue":
		m.Record = &recpb.Record{Key: []byte(c10Key), Value: []byte{}}
	}
	for i, rp := range s.Closer {
		m.CloserPeers = append(m.CloserPeers, rp.build(i))
	}
	for r := 0; r < s.RepeatC; r++ {
		for i, rp := range s.Closer {
			m.CloserPeers = append(m.CloserPeers, rp.build(i+31*r))
		}
	}
	for i, rp := range s.Provs {
		m.ProviderPeers = append(m.ProviderPeers, rp.build(100+i))
	}
	b, err := proto.Marshal(m)
	if err != nil {
		return nil, err
	}
	return append(b, s.Unknown...), nil
}

type fakeSender struct {
	sc   *respSc
	sent []*pb.Message
}

func (f *fakeSender) respond() (*pb.Message, error) {
	if f.sc.Err {
		return nil, fmt.Errorf("remote failed")
	}
	b, err := f.sc.wire()
	if err != nil {
		return nil, err
	}
	out := new(pb.Message)
	if err := proto.Unmarshal(b, out); err != nil {
		return nil, err // what the real sender does with undecodable bytes
	}
	return out, nil
}

func (f *fakeSender) SendRequest(ctx context.Context, p peer.ID, m *pb.Message) (*pb.Message, error) {
	f.sent = append(f.sent, m)
	return f.respond()
}

func (f *fakeSender) SendMessage(ctx context.Context, p peer.ID, m *pb.Message) error {
	f.sent = append(f.sent, m)
	if f.sc.Err {
		return fmt.Errorf("remote failed")
	}
	return nil
}

func recordSize(ai *peer.AddrInfo) int {
	size := protowire.SizeTag(1) + protowire.SizeBytes(len(ai.ID))
	for _, a := range ai.Addrs {
		size += protowire.SizeTag(2) + protowire.SizeBytes(len(a.Bytes()))
	}
	return size
}

func checkInfos(res *verifsim.Result, what string, infos []*peer.AddrInfo) {
	for _, ai := range infos {
		if ai == nil {
			res.Fail("sanitized", "C10/l1/nil-addrinfo", "%s: nil AddrInfo returned", what)
			return
		}
		for _, a := range ai.Addrs {
			if a == nil || len(a.Bytes()) == 0 {
				res.Fail("sanitized", "C10/l1/undecodable-address", "%s: undecodable/empty address returned", what)
				return
			}
			if _, err := ma.NewMultiaddrBytes(a.Bytes()); err != nil {
				res.Fail("sanitized", "C10/l1/undecodable-address", "%s: returned address does not decode: %v", what, err)
				return
			}
		}
		if n := recordSize(ai); n > pb.MaxPeerRecordSize {
			res.Fail("record-8k", "C10/l1/record-too-big", "%s: returned peer record worth %d bytes (> 8 KiB)", what, n)
			return
		}
	}
}

func genRespPeer(t *rapid.T) respPeer {
	return respPeer{
		ID:    rapid.SampledFrom([]string{"ok", "ok", "ok", "", "short", "long"}).Draw(t, "id"),
		Addrs: rapid.SampledFrom([]string{"ok", "ok", "", "bad", "huge", "mixed"}).Draw(t, "addrs"),
		Conn:  rapid.SampledFrom([]int{0, 1, 2, 3, 99, -1}).Draw(t, "conn"),
	}
}

func TestVerif_C10_Messenger(t *testing.T) { verifsim.RunCheck(t, c10MessengerCheck()) }

// the same generator and oracle driven by Go's coverage-guided fuzzer (thorough tier)
func FuzzVerif_C10_Messenger(f *testing.F) {
	verifsim.RunFuzz(f, c10MessengerCheck(), "TestVerif_C10_Messenger")
}

func c10MessengerCheck() verifsim.Check[respSc] {
	return verifsim.Check[respSc]{
		Property: "C10", Part: "messenger",
		Rule: "rapid: every ProtocolMessenger request method against a generated response over the whole schema (type incl. unknown enums, key absent/same/other, record absent/same key/other key/no key/no value/empty value, " +
			"0-8 closer and provider peers with ids {valid, empty, 1 byte, 300 bytes} x addresses {none, ok, undecodable, >8 KiB, mixed} x connection enum extremes, list replicated up to thousands of peers, cluster-level extremes, " +
			"trailing unknown fields/garbage), always round-tripped through its wire encoding; oracle: returns a result or an error and never panics, GetValue never returns a record for another key, a PUT_VALUE echo with a different or " +
			"missing value is an error, every returned AddrInfo is worth <= 8 KiB with only decodable addresses; non-trivial = a response that parses but violates what its request type expects",
		Gen: func(t *rapid.T) respSc {
			s := respSc{
				Method:  rapid.SampledFrom([]string{"putvalue", "getvalue", "closest", "getproviders", "ping", "putprovider"}).Draw(t, "method"),
				Err:     rapid.IntRange(0, 15).Draw(t, "err") == 0,
				Type:    rapid.SampledFrom([]int{0, 1, 2, 3, 4, 5, 6, 42, -7}).Draw(t, "type"),
				Key:     rapid.SampledFrom([]string{"same", "same", "", "other"}).Draw(t, "key"),
				Rec:     rapid.SampledFrom([]string{"", "same", "same", "otherkey", "nokey", "novalue", "emptyvalue"}).Draw(t, "rec"),
				Cluster: rapid.SampledFrom([]int{0, 1, -1, 1<<31 - 1, -(1 << 31)}).Draw(t, "cluster"),
			}
			s.Closer = rapid.SliceOfN(rapid.Custom(genRespPeer), 0, 8).Draw(t, "closer")
			s.Provs = rapid.SliceOfN(rapid.Custom(genRespPeer), 0, 8).Draw(t, "provs")
			if rapid.IntRange(0, 9).Draw(t, "many") == 0 {
				s.RepeatC = rapid.IntRange(10, 400).Draw(t, "repeat")
			}
			if rapid.IntRange(0, 5).Draw(t, "unknown") == 0 {
				s.Unknown = rapid.SliceOfN(rapid.Byte(), 1, 12).Draw(t, "unknownBytes")
			}
			return s
		},
		Run: func(t *testing.T, s respSc) (res verifsim.Result) {
			fs := &fakeSender{sc: &s}
			pm, err := pb.NewProtocolMessenger(fs)
			if err != nil {
				res.Fail("constructs", "C10/l1/new", "%v", err)
				return
			}
			ctx := context.Background()
			p := peer.ID(verifsim.NewPool("peer", 256).IDs[3])
			violatesExpectation := false
			// what the remote's bytes decode to: trailing bytes may themselves encode known fields and override earlier ones,
			// so expectations are stated over the decoded message, not over the scenario's intent
			eff, effErr := (&fakeSender{sc: &s}).respond()
			func() {
				defer func() {
					if r := recover(); r != nil {
						res.Fail("no-panic", "C10/l1/"+s.Method+"/panic", "%s panicked on response %+v: %v", s.Method, s, r)
					}
				}()
				switch s.Method {
				case "putvalue":
					rec := &recpb.Record{Key: []byte(c10Key), Value: []byte("value")}
					err := pm.PutValue(ctx, p, rec)
					echoOK := effErr == nil && bytes.Equal(eff.GetRecord().GetValue(), rec.Value)
					if !echoOK {
						violatesExpectation = true
						if err == nil {
							res.Fail("put-echo", "C10/l1/putvalue/bad-echo-accepted", "PutValue succeeded although the echo carries no/another value (%s)", s.Rec)
						}
					}
				case "getvalue":
					rec, peers, err := pm.GetValue(ctx, p, c10Key)
					if err == nil {
						if rec != nil && !bytes.Equal(rec.GetKey(), []byte(c10Key)) {
							res.Fail("record-key", "C10/l1/getvalue/wrong-key", "GetValue returned a record for key %q", rec.GetKey())
						}
						checkInfos(&res, "GetValue", peers)
					}
					if effErr == nil && eff.Record != nil && !bytes.Equal(eff.Record.GetKey(), []byte(c10Key)) {
						violatesExpectation = true
						if err == nil && rec != nil {
							res.Fail("record-key", "C10/l1/getvalue/wrong-key", "record for another key accepted")
						}
					}
				case "closest":
					peers, err := pm.GetClosestPeers(ctx, p, peer.ID("target"))
					if err == nil {
						checkInfos(&res, "GetClosestPeers", peers)
					}
				case "getproviders":
					provs, closer, err := pm.GetProviders(ctx, p, []byte(verifsim.NewPool("key", 16).IDs[1]))
					if err == nil {
						checkInfos(&res, "GetProviders/providers", provs)
						checkInfos(&res, "GetProviders/closer", closer)
					}
				case "ping":
					err := pm.Ping(ctx, p)
					if effErr == nil && eff.Type != pb.Message_PING {
						violatesExpectation = true
						if err == nil {
							res.Fail("ping-type", "C10/l1/ping/wrong-type-accepted", "Ping accepted a response of type %d", eff.Type)
						}
					}
				case "putprovider":
					_ = pm.PutProviderAddrs(ctx, p, []byte(verifsim.NewPool("key", 16).IDs[1]), peer.AddrInfo{ID: p, Addrs: []ma.Multiaddr{ma.StringCast("/ip4/8.8.8.8/tcp/1")}})
					if err := pm.PutProviderAddrs(ctx, p, []byte("k"), peer.AddrInfo{ID: p}); err == nil {
						res.Fail("no-addr-no-announce", "C10/l1/putprovider/no-addrs", "PutProviderAddrs without addresses succeeded")
					}
				}
			}()
			for _, rp := range append(append([]respPeer{}, s.Closer...), s.Provs...) {
				if rp.Addrs == "huge" || rp.Addrs == "mixed" || rp.Addrs == "bad" || rp.ID != "ok" {
					violatesExpectation = true
				}
			}
			res.NonTrivial = violatesExpectation && !s.Err
			res.Class("method-" + s.Method)
			return
		},
	}
}
