//go:build verif

package buffered

// C14 — the buffered wrapper's Close returns only once its worker is gone, may
// be called repeatedly and concurrently, and is safe while operations are in
// flight inside the wrapped provider.
//
// Run in real time, not in a synctest bubble: Close serialises through a
// sync.Once, and a goroutine waiting for a mutex stops a bubble's clock. The
// harness owns the schedule through a gate inside the wrapped provider and a
// goroutine-state probe (a call is "settled" when it returned or blocks).

import (
	"fmt"
	"sync"
	"testing"
	"time"

	ds "github.com/ipfs/go-datastore"
	dssync "github.com/ipfs/go-datastore/sync"
	"github.com/libp2p/go-libp2p-kad-dht/internal/verifsim"
	mh "github.com/multiformats/go-multihash"
	"pgregory.net/rapid"
)

type bufCloseSc struct {
	Batch      int   `json:"batch"`
	OpsBefore  []int `json:"ops_before"`  // kinds (0 start, 1 forced start, 2 stop, 3 provide-once) of the calls queued before Close
	Hold       bool  `json:"hold"`        // the wrapped provider holds the worker inside its first call until the harness releases it
	NClose     int   `json:"n_close"`     // Close calls started one after the other, each once the previous one returned or blocks
	OpsBetween []int `json:"ops_between"` // calls made after the first Close call was started
	InnerFails bool  `json:"inner_fails"` // the wrapped provider's Close returns an error
}

// gateProvider blocks its first call on a gate the harness controls.
type gateProvider struct {
	mu      sync.Mutex
	hold    bool
	entered chan struct{}
	release chan struct{}
	inside  int
	closed  int
	fails   bool
}

func (r *gateProvider) work() {
	r.mu.Lock()
	h := r.hold
	r.hold = false
	r.inside++
	r.mu.Unlock()
	if h {
		close(r.entered)
		<-r.release
	}
	r.mu.Lock()
	r.inside--
	r.mu.Unlock()
}
func (r *gateProvider) held() bool                                            { r.mu.Lock(); defer r.mu.Unlock(); return r.inside > 0 }
func (r *gateProvider) StartProviding(force bool, keys ...mh.Multihash) error { r.work(); return nil }
func (r *gateProvider) StopProviding(keys ...mh.Multihash) error              { r.work(); return nil }
func (r *gateProvider) ProvideOnce(keys ...mh.Multihash) error                { r.work(); return nil }
func (r *gateProvider) Clear() int                                            { return 0 }
func (r *gateProvider) RefreshSchedule() error                                { return nil }
func (r *gateProvider) Close() error {
	r.mu.Lock()
	defer r.mu.Unlock()
	r.closed++
	if r.fails {
		return fmt.Errorf("verif: wrapped provider failed to close")
	}
	return nil
}

func TestVerif_C14_Buffered(t *testing.T) {
	kp := verifsim.NewPool("key", 64)
	verifsim.RunCheck(t, verifsim.Check[bufCloseSc]{
		Property: "C14", Part: "buffered",
		Rule: "rapid: buffered.SweepingProvider (batch 1-8) over a wrapped provider that can hold the worker inside its first call on a gate; 0-4 queued calls, then 1-3 Close calls started one after the other (each once the previous " +
			"one has returned or is seen blocked by a goroutine-state probe, so that Close calls overlap while the worker is held), 0-2 further calls in between, then the gate is released; real time, the schedule is owned through the gate; " +
			"oracle: no Close call has returned while the worker is still inside the wrapped provider, after the release every call returns, the worker and the queue's goroutines are gone, the wrapped provider was closed, no panic; " +
			"non-trivial = the worker was held while >= 1 Close call was pending",
		Gen: func(t *rapid.T) bufCloseSc {
			return bufCloseSc{
				Batch:      rapid.IntRange(1, 8).Draw(t, "batch"),
				OpsBefore:  rapid.SliceOfN(rapid.IntRange(0, 3), 0, 4).Draw(t, "opsBefore"),
				Hold:       rapid.IntRange(0, 3).Draw(t, "hold") != 0,
				NClose:     rapid.IntRange(1, 3).Draw(t, "nClose"),
				OpsBetween: rapid.SliceOfN(rapid.IntRange(0, 3), 0, 2).Draw(t, "opsBetween"),
				InnerFails: rapid.IntRange(0, 4).Draw(t, "innerFails") == 0,
			}
		},
		Run: func(t *testing.T, sc bufCloseSc) (res verifsim.Result) {
			hold := sc.Hold && len(sc.OpsBefore) > 0
			inner := &gateProvider{hold: hold, entered: make(chan struct{}), release: make(chan struct{}), fails: sc.InnerFails}
			d := dssync.MutexWrap(ds.NewMapDatastore())
			b := New(inner, d, WithBatchSize(sc.Batch))
			call := func(kind, i int) error {
				k := mh.Multihash(kp.IDs[i%8])
				switch kind {
				case 0, 1:
					return b.StartProviding(kind == 1, k)
				case 2:
					return b.StopProviding(k)
				}
				return b.ProvideOnce(k)
			}
			for i, kind := range sc.OpsBefore {
				call(kind, i)
			}
			if hold {
				select {
				case <-inner.entered:
				case <-time.After(20 * time.Second):
					res.Fail("worker-runs", "C14/buffered/worker-never-called", "the queued call never reached the wrapped provider")
					close(inner.release)
					b.Close()
					return
				}
			}
			var calls []*verifsim.RTCall
			early := ""
			for i := 0; i < sc.NClose; i++ {
				c := verifsim.RTGo(b.Close)
				calls = append(calls, c)
				if !verifsim.RTSettle(10*time.Second, c) {
					res.Fail("close-settles", "C14/buffered/close-spins", "Close call %d neither returned nor blocked within 10 s", i+1)
				}
				if i == 0 {
					for j, kind := range sc.OpsBetween {
						j, kind := j, kind
						oc := verifsim.RTGo(func() error { return call(kind, 10+j) })
						calls = append(calls, oc)
						verifsim.RTSettle(10*time.Second, oc)
					}
				}
				if c.Done() && inner.held() && early == "" {
					early = fmt.Sprintf("Close call %d returned while the worker was still inside the wrapped provider", i+1)
				}
			}
			if hold {
				close(inner.release)
			}
			if !verifsim.RTWait(20*time.Second, calls...) {
				res.Fail("calls-return", "C14/buffered/calls-return", "a Close call (or a call made during Close) did not return within 20 s after the wrapped provider was released")
				return
			}
			for _, c := range calls {
				if c.Pan != nil {
					res.Fail("no-panic", "C14/buffered/panic", "panic: %v", c.Pan)
				}
			}
			if early != "" {
				res.Fail("close-waits", "C14/buffered/close-waits", "%s", early)
			}
			select {
			case <-b.done:
			default:
				res.Fail("nothing-left", "C14/buffered/worker-left", "every Close call returned but the worker has not exited")
			}
			if inner.closed == 0 {
				res.Fail("closes-wrapped", "C14/buffered/wrapped-not-closed", "the wrapped provider was never closed")
			}
			res.NonTrivial = hold
			if sc.NClose > 1 {
				res.Class("several-close-calls")
			}
			if hold && sc.NClose > 1 {
				res.Class("overlapping-close-calls-while-held")
			}
			return
		},
	})
}
