//go:build verif

package buffered

// C17 (e) — the buffered wrapper applies queued start/stop operations with the
// same final effect as applying them one by one.

import (
	"fmt"
	"sort"
	"sync"
	"testing"
	"time"

	ds "github.com/ipfs/go-datastore"
	dssync "github.com/ipfs/go-datastore/sync"
	"github.com/libp2p/go-libp2p-kad-dht/internal/verifsim"
	mh "github.com/multiformats/go-multihash"
	"pgregory.net/rapid"
)

type bufOp struct {
	Op    string `json:"op"` // start force stop once pause
	Keys  []int  `json:"keys,omitempty"`
	Pause int    `json:"pause_ms,omitempty"`
}

type bufSc struct {
	Batch int     `json:"batch"`
	Ops   []bufOp `json:"ops"`
	// RestartTail > 0: the inner provider stands still during the last RestartTail operations (they pile up in the wrapper's
	// queue), the wrapper is closed with them queued, the inner provider moves again, and a second wrapper is opened over the
	// same datastore and inner provider; nothing is called on it
	RestartTail int `json:"restart_tail,omitempty"`
}

type recProvider struct {
	mu    sync.Mutex
	keep  map[string]bool
	once  map[string]int
	calls []string
	// queued models the provide queue of the real provider: StartProviding and ProvideOnce put a key in, StopProviding takes
	// it out again (if it has not been sent yet - here nothing is ever sent, which is the schedule least favourable to the key)
	queued map[string]bool
	gate   chan struct{} // non-nil: every call waits until it is closed
}

func (r *recProvider) wait() {
	r.mu.Lock()
	g := r.gate
	r.mu.Unlock()
	if g != nil {
		<-g
	}
}

func (r *recProvider) StartProviding(force bool, keys ...mh.Multihash) error {
	r.wait()
	r.mu.Lock()
	defer r.mu.Unlock()
	for _, k := range keys {
		r.keep[string(k)] = true
		r.queued[string(k)] = true
	}
	r.calls = append(r.calls, fmt.Sprintf("start(%v,%d)", force, len(keys)))
	return nil
}

func (r *recProvider) StopProviding(keys ...mh.Multihash) error {
	r.wait()
	r.mu.Lock()
	defer r.mu.Unlock()
	for _, k := range keys {
		delete(r.keep, string(k))
		delete(r.queued, string(k))
	}
	r.calls = append(r.calls, fmt.Sprintf("stop(%d)", len(keys)))
	return nil
}

func (r *recProvider) ProvideOnce(keys ...mh.Multihash) error {
	r.wait()
	r.mu.Lock()
	defer r.mu.Unlock()
	for _, k := range keys {
		r.once[string(k)]++
		r.queued[string(k)] = true
	}
	r.calls = append(r.calls, fmt.Sprintf("once(%d)", len(keys)))
	return nil
}

func (r *recProvider) Clear() int             { return 0 }
func (r *recProvider) RefreshSchedule() error { return nil }
func (r *recProvider) Close() error           { return nil }

func TestVerif_C17_Buffered(t *testing.T) {
	kp := verifsim.NewPool("key", 64)
	verifsim.RunCheck(t, verifsim.Check[bufSc]{
		Property: "C17", Part: "buffered",
		Rule: "rapid: 1-40 start / forced start / stop / provide-once calls over a universe of 6 keys (1-3 keys per call) with optional pauses, through buffered.SweepingProvider (batch size 1-8) over a recording inner provider; " +
			"oracle = the inner provider's final keep-set equals the sequential application of the same operations to a set model, and every provide-once key reached the inner provider once per call; " +
			"in 30% of the cases the inner provider stands still during the last 1-8 calls, the wrapper is closed with them queued and a second wrapper over the same datastore gets no call at all: the queued operations must reach the inner provider all the same; " +
			"non-trivial = some key is started, stopped and started again (or stopped, started, stopped) within the history, or a restart with queued operations",
		Gen: func(t *rapid.T) bufSc {
			sc := bufSc{Batch: rapid.IntRange(1, 8).Draw(t, "batch")}
			if verifsim.Chance(t, "restart", 30) {
				sc.RestartTail = rapid.IntRange(1, 8).Draw(t, "restartTail")
			}
			sc.Ops = rapid.SliceOfN(rapid.Custom(func(t *rapid.T) bufOp {
				op := rapid.SampledFrom([]string{"start", "force", "stop", "stop", "once", "pause"}).Draw(t, "op")
				if op == "pause" {
					return bufOp{Op: op, Pause: rapid.SampledFrom([]int{1, 50, 2000}).Draw(t, "pause")}
				}
				return bufOp{Op: op, Keys: rapid.SliceOfN(rapid.IntRange(0, 5), 1, 3).Draw(t, "keys")}
			}), 1, 40).Draw(t, "ops")
			return sc
		},
		Run: func(t *testing.T, sc bufSc) (res verifsim.Result) {
			model := map[int]bool{}
			onceWant := map[int]int{}
			wantQueued := map[int]bool{}
			flips := map[int]int{}
			last := map[int]string{}
			inner := &recProvider{keep: map[string]bool{}, once: map[string]int{}, queued: map[string]bool{}}
			restarted := false
			out := verifsim.Bubble(t, func() {
				d := dssync.MutexWrap(ds.NewMapDatastore())
				b := New(inner, d, WithBatchSize(sc.Batch))
				for i, op := range sc.Ops {
					if sc.RestartTail > 0 && i == max(0, len(sc.Ops)-sc.RestartTail) {
						inner.mu.Lock()
						inner.gate = make(chan struct{})
						inner.mu.Unlock()
					}
					var keys []mh.Multihash
					for _, k := range op.Keys {
						keys = append(keys, mh.Multihash(kp.IDs[k]))
					}
					switch op.Op {
					case "start", "force":
						b.StartProviding(op.Op == "force", keys...)
						for _, k := range op.Keys {
							model[k] = true
							wantQueued[k] = true
							if last[k] == "stop" {
								flips[k]++
							}
							last[k] = "start"
						}
					case "stop":
						b.StopProviding(keys...)
						for _, k := range op.Keys {
							delete(model, k)
							delete(wantQueued, k)
							if last[k] == "start" {
								flips[k]++
							}
							last[k] = "stop"
						}
					case "once":
						b.ProvideOnce(keys...)
						for _, k := range op.Keys {
							onceWant[k]++
							wantQueued[k] = true
						}
					case "pause":
						time.Sleep(time.Duration(op.Pause) * time.Millisecond)
					}
				}
				if sc.RestartTail > 0 {
					verifsim.Quiesce()
					closed := make(chan struct{})
					go func() { defer close(closed); b.Close() }()
					verifsim.Quiesce()
					inner.mu.Lock()
					g := inner.gate
					inner.gate = nil
					inner.mu.Unlock()
					close(g)
					<-closed
					b = New(inner, d, WithBatchSize(sc.Batch))
					restarted = true
				}
				time.Sleep(time.Minute)
				verifsim.Quiesce()
				b.Close()
			})
			if !out.OK() {
				res.Fail("terminates", "C17/buffered/hang-or-panic", "%s %s\n%s", out.Deadlock, out.Panic, out.Stacks)
				return
			}
			var want, got []int
			for k := range model {
				want = append(want, k)
			}
			for i := 0; i < 6; i++ {
				if inner.keep[kp.IDs[i]] {
					got = append(got, i)
				}
			}
			sort.Ints(want)
			if fmt.Sprint(want) != fmt.Sprint(got) {
				res.Fail("same-final-effect", "C17/buffered/keep-set", "final keep-set %v, sequential application gives %v (batch %d, inner calls %v)", got, want, sc.Batch, inner.calls)
			}
			// a key whose last request was a provide (start or provide-once, no stop after it) is still due to be advertised:
			// applied one by one nothing takes it off the provide queue again
			for k := range wantQueued {
				if !inner.queued[kp.IDs[k]] {
					res.Fail("same-final-effect", "C17/buffered/provide-request-undone", "key %d: its last request was a provide (no stop after it), but through the wrapper a StopProviding reached the inner provider after it and took the key off the provide queue (batch %d, inner calls %v)", k, sc.Batch, inner.calls)
					break
				}
			}
			for k, n := range onceWant {
				if inner.once[kp.IDs[k]] != n {
					res.Fail("once-delivered", "C17/buffered/provide-once-count", "key %d: %d ProvideOnce calls made, inner provider saw %d", k, n, inner.once[kp.IDs[k]])
				}
			}
			for _, n := range flips {
				if n >= 2 {
					res.NonTrivial = true
				}
			}
			if restarted {
				res.Class("closed-with-operations-queued-and-reopened")
				res.NonTrivial = true
			}
			return
		},
	})
}
