//go:build verif

package provider

// C14 — SweepingProvider.Close returns only after everything the instance
// started has exited (workers, the schedule loop, the connectivity checker's
// probes), 1-3 times with overlapping calls, while a router lookup is held.
//
// Real time with a gate inside the router and a goroutine-state probe (Close
// serialises through sync.Once and takes mutexes, which freeze a bubble).

import (
	"context"
	"errors"
	"fmt"
	"os"
	"sync"
	"sync/atomic"
	"testing"
	"time"

	"github.com/libp2p/go-libp2p-kad-dht/internal/verifsim"
	pb "github.com/libp2p/go-libp2p-kad-dht/pb"
	"github.com/libp2p/go-libp2p/core/peer"
	ma "github.com/multiformats/go-multiaddr"
	mh "github.com/multiformats/go-multihash"
	"pgregory.net/rapid"
)

type provCloseSc struct {
	NoSchedule bool   `json:"no_schedule"` // WithReprovideInterval(0): burst-only mode
	Keys       int    `json:"keys"`        // keys given to StartProviding before Close (0-4)
	HoldAt     int    `json:"hold_at"`     // the n-th closest-peers lookup made by the instance is held at the gate (-1: none)
	HonourCtx  bool   `json:"honour_ctx"`  // the held lookup returns when its context is cancelled (a well-behaved router) or only when released
	NClose     int    `json:"n_close"`
	LateOps    []int  `json:"late_ops"` // calls made after the first Close call was started: 0 start 1 stop 2 once 3 clear 4 refresh
	Workers    int    `json:"workers"`
	DSFault    string `json:"ds_fault,omitempty"` // "" | close-time: every datastore call fails once the first Close call has been started | always: every mutation fails
	Offline    bool   `json:"offline,omitempty"`  // the router finds no peers: the node is offline and its connectivity checker keeps probing
	// BadOption != "": New is called with an option set it must refuse - "conn-interval-0" (refused by the connectivity checker,
	// after the keystore and the datastore New makes for itself exist), "offline-delay-neg" (same point), "workers" (refused by
	// the option check), "opt-error" (an option that returns an error), "no-router"; OwnStores: New is given no datastore
	BadOption string `json:"bad_option,omitempty"`
	OwnStores bool   `json:"own_stores,omitempty"`
}

type gateRouter struct {
	mu      sync.Mutex
	n       int
	holdAt  int
	honour  bool
	inside  int
	entered chan struct{}
	release chan struct{}
	peers   []peer.ID
	offline bool
}

func (r *gateRouter) GetClosestPeers(ctx context.Context, k string) ([]peer.ID, error) {
	r.mu.Lock()
	h := r.n == r.holdAt
	r.n++
	if h {
		r.inside++
	}
	off := r.offline
	r.mu.Unlock()
	if off && !h {
		return nil, errors.New("verif: no peers")
	}
	if h {
		close(r.entered)
		if r.honour {
			select {
			case <-r.release:
			case <-ctx.Done():
			}
		} else {
			<-r.release
		}
		r.mu.Lock()
		r.inside--
		r.mu.Unlock()
		if ctx.Err() != nil {
			return nil, ctx.Err()
		}
	}
	return r.peers, nil
}
func (r *gateRouter) held() bool { r.mu.Lock(); defer r.mu.Unlock(); return r.inside > 0 }

type nopSender struct{}

func (nopSender) SendRequest(ctx context.Context, p peer.ID, m *pb.Message) (*pb.Message, error) {
	return nil, errors.New("not used")
}
func (nopSender) SendMessage(ctx context.Context, p peer.ID, m *pb.Message) error { return nil }

var provCloseMu sync.Mutex

var provSubs = []string{"provider.(*SweepingProvider)", "connectivity.(*ConnectivityChecker)", "provider/internal/", "keystore.(*keystore).worker"}

func TestVerif_C14_SweepingProvider(t *testing.T) {
	pp := verifsim.NewPool("peer", 64)
	kp := verifsim.NewPool("key", 64)
	verifsim.RunCheck(t, verifsim.Check[provCloseSc]{
		Property: "C14", Part: "sweeping-provider",
		Rule: "rapid: provider.New over a router with a gate (12 peers), with and without a reprovide schedule, 1-4 workers, 0-4 keys started; optionally the instance's 1st-9th closest-peers lookup (connectivity probe, prefix-length " +
			"measurement or provide exploration, whichever comes) is held at the gate, by a router that returns on context cancellation or one that does not; 1-3 Close calls started one after the other (each once the previous one returned or is " +
			"seen blocked), 0-3 further API calls in between, then the gate is released; the datastore healthy, failing every call from the first Close on, or failing always; the node online or offline (connectivity checker probing); real time, schedule owned through the gate; oracle: a Close call that has returned leaves no goroutine of the provider, its connectivity checker or its default " +
			"keystore, every call returns after the release, calls after Close do not panic; in 12% of the cases New is given an option set it must refuse (at the option check, or at the connectivity checker after its own keystore and datastore exist) and must leave none of those goroutines; non-trivial = a lookup was held while a Close call was pending, or a constructor failed",
		Gen: func(t *rapid.T) provCloseSc {
			sc := provCloseSc{
				NoSchedule: verifsim.Chance(t, "noSchedule", 25),
				Keys:       rapid.SampledFrom([]int{0, 1, 2, 3, 4, 4}).Draw(t, "keys"),
				// lookups 0-4 are the connectivity probe and the prefix-length measurement, the provide explorations come after
				HoldAt:    rapid.SampledFrom([]int{-1, 0, 1, 3, 5, 5, 6, 6, 7, 8}).Draw(t, "holdAt"),
				HonourCtx: rapid.Bool().Draw(t, "honourCtx"),
				NClose:    rapid.IntRange(1, 3).Draw(t, "nClose"),
				LateOps:   rapid.SliceOfN(rapid.IntRange(0, 4), 0, 3).Draw(t, "lateOps"),
				Workers:   rapid.IntRange(1, 4).Draw(t, "workers"),
				DSFault:   rapid.SampledFrom([]string{"", "", "close-time", "close-time", "always"}).Draw(t, "dsFault"),
				Offline:   verifsim.Chance(t, "offline", 25),
			}
			if verifsim.Chance(t, "bad", 12) {
				sc.BadOption = rapid.SampledFrom([]string{"conn-interval-0", "conn-interval-0", "offline-delay-neg", "workers", "opt-error", "no-router"}).Draw(t, "badOption")
				sc.OwnStores = rapid.Bool().Draw(t, "ownStores")
			}
			return sc
		},
		Run: func(t *testing.T, sc provCloseSc) (res verifsim.Result) {
			provCloseMu.Lock()
			defer provCloseMu.Unlock()
			t0 := time.Now()
			lap := func(what string) {
				if os.Getenv("VERIF_DEBUG") != "" {
					fmt.Fprintf(os.Stderr, "DEBUG lap %s %v\n", what, time.Since(t0))
				}
			}
			defer lap("end")
			router := &gateRouter{holdAt: sc.HoldAt, honour: sc.HonourCtx, entered: make(chan struct{}), release: make(chan struct{}), offline: sc.Offline}
			dstore := verifsim.NewJournalDS("provider")
			var dsFailing atomic.Bool
			dsFailing.Store(sc.DSFault == "always")
			dstore.FailCall = func(c verifsim.Call) bool { return dsFailing.Load() && c.Op != "close" }
			for i := 0; i < 12; i++ {
				router.peers = append(router.peers, peer.ID(pp.IDs[i]))
			}
			interval := time.Hour
			if sc.NoSchedule {
				interval = 0
			}
			if sc.BadOption != "" {
				opts := []Option{WithReprovideInterval(interval), WithReplicationFactor(4), WithMaxWorkers(sc.Workers), WithDedicatedPeriodicWorkers(0), WithDedicatedBurstWorkers(0),
					WithPeerID(peer.ID(pp.IDs[63])), WithMessageSender(nopSender{}),
					WithSelfAddrs(func() []ma.Multiaddr { return []ma.Multiaddr{ma.StringCast("/ip4/8.1.1.1/tcp/4001")} })}
				if sc.BadOption != "no-router" {
					opts = append(opts, WithRouter(router))
				}
				if !sc.OwnStores {
					opts = append(opts, WithDatastore(dstore))
				}
				switch sc.BadOption {
				case "conn-interval-0":
					opts = append(opts, WithConnectivityCheckOnlineInterval(0))
				case "offline-delay-neg":
					opts = append(opts, WithOfflineDelay(-time.Second))
				case "workers":
					opts = append(opts, WithMaxWorkers(1), WithDedicatedPeriodicWorkers(1), WithDedicatedBurstWorkers(1))
				case "opt-error":
					opts = append(opts, func(*config) error { return errors.New("injected option error") })
				}
				close(router.release)
				p, err := New(opts...)
				if err == nil {
					// (an option set this version accepts: not a failed constructor)
					p.Close()
					res.Class("bad-option-accepted-" + sc.BadOption)
					return
				}
				if left := verifsim.GoroutinesMatching(300*time.Millisecond, provSubs...); len(left) > 0 {
					res.Fail("failed-constructor-clean", "C14/provider/goroutine-left-after-failed-new", "%d goroutine(s) left after New failed (%s, own stores %v: %v):\n%s", len(left), sc.BadOption, sc.OwnStores, err, left[0])
				}
				res.Class("failed-constructor-" + sc.BadOption)
				res.NonTrivial = true
				return
			}
			prov, err := New(WithReprovideInterval(interval), WithReplicationFactor(4), WithMaxWorkers(sc.Workers), WithDedicatedPeriodicWorkers(0), WithDedicatedBurstWorkers(0),
				WithPeerID(peer.ID(pp.IDs[63])), WithRouter(router), WithMessageSender(nopSender{}), WithDatastore(dstore),
				WithSelfAddrs(func() []ma.Multiaddr { return []ma.Multiaddr{ma.StringCast("/ip4/8.1.1.1/tcp/4001")} }))
			if err != nil {
				res.Fail("constructs", "C14/provider/new-error", "%v", err)
				return
			}
			var keys []mh.Multihash
			for i := 0; i < sc.Keys; i++ {
				keys = append(keys, mh.Multihash(kp.IDs[i]))
			}
			if len(keys) > 0 {
				prov.StartProviding(true, keys...)
			}
			holding := false
			if sc.HoldAt >= 0 {
				select {
				case <-router.entered:
					holding = true
				case <-time.After(300 * time.Millisecond): // the instance made fewer lookups than that
				}
			} else {
				time.Sleep(2 * time.Millisecond)
			}
			lap("held")
			var calls []*verifsim.RTCall
			early := ""
			if sc.DSFault == "close-time" {
				dsFailing.Store(true) // (a backend that is gone, a full disk, or one that refuses calls made with the provider's cancelled context)
			}
			for i := 0; i < sc.NClose; i++ {
				c := verifsim.RTGo(prov.Close)
				calls = append(calls, c)
				if !verifsim.RTSettle(10*time.Second, c) {
					res.Fail("close-settles", "C14/provider/close-spins", "Close call %d neither returned nor blocked within 10 s", i+1)
				}
				if i == 0 {
					for _, op := range sc.LateOps {
						op := op
						oc := verifsim.RTGo(func() error {
							k := mh.Multihash(kp.IDs[20+op])
							switch op {
							case 0:
								return prov.StartProviding(false, k)
							case 1:
								return prov.StopProviding(k)
							case 2:
								return prov.ProvideOnce(k)
							case 3:
								prov.Clear()
								return nil
							}
							return prov.RefreshSchedule()
						})
						calls = append(calls, oc)
						verifsim.RTSettle(10*time.Second, oc)
					}
				}
				if c.Done() && early == "" {
					if left := verifsim.GoroutinesMatching(150*time.Millisecond, provSubs...); len(left) > 0 {
						early = fmt.Sprintf("Close call %d returned while %d goroutine(s) of the instance were still there (a lookup held at the router: %v, router honours cancellation: %v):\n%s", i+1, len(left), router.held(), sc.HonourCtx, left[0])
					}
				}
			}
			if !holding {
				// the hold may have been reached later (during Close)
				select {
				case <-router.entered:
					holding = true
				default:
				}
			}
			lap("closes-started")
			close(router.release)
			if !verifsim.RTWait(20*time.Second, calls...) {
				st := ""
				if g := verifsim.GoroutinesMatching(0, "verifsim.RTGo"); len(g) > 0 {
					st = g[0]
				}
				res.Fail("calls-return", "C14/provider/calls-return", "a Close call (or a call made during Close) did not return within 20 s after the router was released:\n%s", st)
				return
			}
			lap("calls-returned")
			for _, c := range calls {
				if c.Pan != nil {
					res.Fail("no-panic", "C14/provider/panic", "panic: %v", c.Pan)
				}
			}
			if early != "" {
				res.Fail("close-waits", "C14/provider/close-waits", "%s", early)
			}
			if left := verifsim.GoroutinesMatching(300*time.Millisecond, provSubs...); len(left) > 0 {
				res.Fail("nothing-left", "C14/provider/goroutine-left", "%d goroutine(s) of the instance left after every Close call returned:\n%s", len(left), left[0])
			}
			res.NonTrivial = holding
			if holding {
				res.Class("lookup-held-during-close")
				if !sc.HonourCtx {
					res.Class("router-ignores-cancellation")
				}
			}
			if sc.NoSchedule {
				res.Class("no-schedule")
			}
			if sc.DSFault != "" {
				res.Class("datastore-fails-" + sc.DSFault)
			}
			if sc.Offline {
				res.Class("offline")
			}
			return
		},
	})
}
