//go:build verif

package provider

// C17 — sweeping provider advertises every key to its closest peers, on schedule.

import (
	"context"
	"crypto/sha256"
	"errors"
	"fmt"
	"github.com/libp2p/go-libp2p-kad-dht/provider/internal/keyspace"
	"os"
	"sort"
	"strings"
	"sync"
	"testing"
	"time"

	ds "github.com/ipfs/go-datastore"
	dssync "github.com/ipfs/go-datastore/sync"
	"github.com/libp2p/go-libp2p-kad-dht/internal/verifsim"
	pb "github.com/libp2p/go-libp2p-kad-dht/pb"
	"github.com/libp2p/go-libp2p-kad-dht/provider/keystore"
	"github.com/libp2p/go-libp2p/core/peer"
	ma "github.com/multiformats/go-multiaddr"
	mh "github.com/multiformats/go-multihash"
	"pgregory.net/rapid"
)

const swPool = 1 << 13

func swpp() *verifsim.Pool { return verifsim.NewPool("peer", swPool) }
func swkp() *verifsim.Pool { return verifsim.NewPool("key", swPool) }

type swEv struct {
	AtMin  int    `json:"at_min"`
	Ev     string `json:"ev"` // start once stop grow shrink unreach outage restart addr
	Force  bool   `json:"force,omitempty"`
	Keys   []int  `json:"keys,omitempty"`  // indices into Keys
	Peers  []int  `json:"peers,omitempty"` // pool indices (grow) or indices into the current swarm (shrink, unreach)
	DurMin int    `json:"dur_min,omitempty"`
	// start: the node's address changes right after the first ADD_PROVIDER of the drain this call sets off has gone out (single
	// worker configurations only: regions are then worked off one after the other)
	MidAddr bool `json:"mid_addr,omitempty"`
}

type swSc struct {
	R         int    `json:"r"`
	Bucket    int    `json:"bucket"`
	Swarm     []int  `json:"swarm"` // peer pool indices
	Keys      []int  `json:"keys"`  // key pool indices
	IntervalM int    `json:"interval_min"`
	DelayM    int    `json:"max_delay_min"`
	Workers   [3]int `json:"workers"` // max, dedicated periodic, dedicated burst
	Events    []swEv `json:"events"`
	TotalMin  int    `json:"total_min"`
	Deep      bool   `json:"deep_clusters,omitempty"` // the swarm has clusters under prefixes of 3-5 bits (lopsided tries with runs of empty sibling branches)
	// LookupMs is what one closest-peers lookup costs in virtual time. Generated scenarios never use 0: with instantaneous
	// lookups a region reprovide completes at the very nanosecond of its schedule slot, a coincidence of "now" with a slot
	// offset that a real clock cannot produce (the schedule arithmetic treats an offset equal to now as a full interval away).
	LookupMs int `json:"lookup_ms,omitempty"`
	// SendMs is what one successful ADD_PROVIDER send costs in virtual time (0 = instantaneous): with slow sends a region
	// (re)provide lasts long enough for API calls and Close to arrive while it is in flight.
	SendMs int `json:"send_ms,omitempty"`
}

type advert struct {
	At    time.Duration
	Key   int // index into Keys
	To    peer.ID
	Addrs string
}

type swarmState struct {
	mu      sync.Mutex
	members map[int]bool // pool indices
	unreach map[int]bool
	outage  bool
	addrs   []ma.Multiaddr
	armMid  string // non-empty: the next ADD_PROVIDER that is logged switches the node's address to this one (an address change in the middle of a drain)
}

func (st *swarmState) list() []int {
	st.mu.Lock()
	defer st.mu.Unlock()
	out := make([]int, 0, len(st.members))
	for i := range st.members {
		out = append(out, i)
	}
	sort.Ints(out)
	return out
}

type swRouter struct {
	st     *swarmState
	bucket int
	cost   time.Duration
	start  time.Time
	self   string
	lmu    sync.Mutex
	log    []lookupRec
}

func (r *swRouter) GetClosestPeers(ctx context.Context, k string) ([]peer.ID, error) {
	r.lmu.Lock()
	r.log = append(r.log, lookupRec{At: time.Since(r.start), Self: k == r.self})
	r.lmu.Unlock()
	r.st.mu.Lock()
	out := r.st.outage
	r.st.mu.Unlock()
	if out {
		// a failing lookup costs (virtual) time like a failing send does: the provider retries failed regions without back-off
		// until its connectivity checker (rate-limited) notices the outage, which would otherwise spin at one virtual instant
		select {
		case <-time.After(time.Second):
		case <-ctx.Done():
		}
		return nil, errors.New("verif: network unreachable")
	}
	if r.cost > 0 {
		select {
		case <-time.After(r.cost):
		case <-ctx.Done():
			return nil, ctx.Err()
		}
	}
	pp := swpp()
	tk := sha256.Sum256([]byte(k))
	ms := r.st.list()
	sort.Slice(ms, func(a, b int) bool { return verifsim.XorLess(tk, pp.Kad[ms[a]], pp.Kad[ms[b]]) })
	if len(ms) > r.bucket {
		ms = ms[:r.bucket]
	}
	ids := make([]peer.ID, len(ms))
	for i, m := range ms {
		ids[i] = peer.ID(pp.IDs[m])
	}
	if len(ids) == 0 {
		return nil, errors.New("verif: no peers")
	}
	return ids, nil
}

type swSender struct {
	st    *swarmState
	cost  time.Duration
	start time.Time
	keyOf map[string]int
	mu    sync.Mutex
	log   []advert
	idx   map[peer.ID]int
	mids  []midChange
}

// midChange is an address change that took effect right after a send was logged.
type midChange struct {
	At   time.Duration
	Addr string
}

type lookupRec struct {
	At   time.Duration // start of the lookup
	Self bool          // the connectivity checker's probe (target: the node's own id)
}

func (s *swSender) SendRequest(ctx context.Context, p peer.ID, m *pb.Message) (*pb.Message, error) {
	return nil, errors.New("not used")
}

func (s *swSender) SendMessage(ctx context.Context, p peer.ID, m *pb.Message) error {
	s.st.mu.Lock()
	out := s.st.outage
	bad := s.st.unreach[s.idx[p]]
	s.st.mu.Unlock()
	if out || bad {
		// an unreachable peer costs (virtual) time, as a failing dial does; an instantaneous failure would let the provider's
		// catch-up loop (which retries failed regions without back-off while the node counts as online) spin forever at one virtual instant
		select {
		case <-time.After(time.Second):
		case <-ctx.Done():
		}
		return errors.New("verif: peer unreachable")
	}
	if s.cost > 0 {
		select {
		case <-time.After(s.cost):
		case <-ctx.Done():
			return ctx.Err()
		}
	}
	ki, ok := s.keyOf[string(m.GetKey())]
	if !ok {
		ki = -1
	}
	var addrs []string
	for _, pp := range m.GetProviderPeers() {
		for _, a := range pp.Addresses() {
			addrs = append(addrs, a.String())
		}
	}
	s.mu.Lock()
	s.log = append(s.log, advert{At: time.Since(s.start), Key: ki, To: p, Addrs: strings.Join(addrs, ",")})
	s.mu.Unlock()
	s.st.mu.Lock()
	if s.st.armMid != "" {
		s.st.addrs = []ma.Multiaddr{ma.StringCast(s.st.armMid)}
		s.mu.Lock()
		s.mids = append(s.mids, midChange{At: time.Since(s.start), Addr: s.st.armMid})
		s.mu.Unlock()
		s.st.armMid = ""
	}
	s.st.mu.Unlock()
	return nil
}

func nearestR(swarm []int, keyKad [32]byte, r int) []int {
	pp := swpp()
	ms := append([]int(nil), swarm...)
	sort.Slice(ms, func(a, b int) bool { return verifsim.XorLess(keyKad, pp.Kad[ms[a]], pp.Kad[ms[b]]) })
	if len(ms) > r {
		ms = ms[:r]
	}
	return ms
}

type swObs struct {
	Log       []advert
	SwarmAt   map[int][]int // minute -> swarm members (recorded whenever it changes and at minute 0)
	UnreachAt map[int][]int
	StartAt   map[int]int // key -> minute of the (first) StartProviding
	StopAt    map[int]int
	OnceAt    map[int][]int
	Outages   [][2]int
	NoAddr    [][2]int // minutes [from, to] in which the node had no self address (a subset of Outages as far as deadlines go)
	Restarts  []int
	SchedAt   map[int][]string // minute -> scheduled prefixes at the end of that minute (recorded when they change)
	AddrAt    map[int]string
	Mids      []midChange       // address changes in the middle of a drain
	MidNew    map[int]string    // minute -> the address such a change brought in that minute
	Lookups   []lookupRec
	Errs      []string
	Outcome   verifsim.BubbleOutcome
}

func runSweep(t *testing.T, sc *swSc) swObs {
	obs := swObs{SwarmAt: map[int][]int{}, UnreachAt: map[int][]int{}, StartAt: map[int]int{}, StopAt: map[int]int{}, OnceAt: map[int][]int{}, AddrAt: map[int]string{}, MidNew: map[int]string{}}
	pp, kp := swpp(), swkp()
	obs.Outcome = verifsim.Bubble(t, func() {
		st := &swarmState{members: map[int]bool{}, unreach: map[int]bool{}, addrs: []ma.Multiaddr{ma.StringCast("/ip4/8.1.1.1/tcp/4001")}}
		for _, m := range sc.Swarm {
			st.members[m] = true
		}
		sender := &swSender{st: st, start: time.Now(), keyOf: map[string]int{}, idx: map[peer.ID]int{}, cost: time.Duration(sc.SendMs) * time.Millisecond}
		for i := 0; i < swPool; i++ {
			sender.idx[peer.ID(pp.IDs[i])] = i
		}
		mhs := make([]mh.Multihash, len(sc.Keys))
		for i, k := range sc.Keys {
			mhs[i] = mh.Multihash(kp.IDs[k])
			sender.keyOf[kp.IDs[k]] = i
		}
		self := peer.ID(pp.IDs[swPool-1])
		router := &swRouter{st: st, bucket: sc.Bucket, cost: time.Duration(sc.LookupMs) * time.Millisecond, start: sender.start, self: string(self)}
		dstore := dssync.MutexWrap(ds.NewMapDatastore())
		ksDs := dssync.MutexWrap(ds.NewMapDatastore())
		var ks keystore.Keystore
		open := func() (*SweepingProvider, error) {
			// a keystore that survives restarts (the default one lives in memory only)
			var err error
			ks, err = keystore.NewKeystore(ksDs)
			if err != nil {
				return nil, err
			}
			return New(WithKeystore(ks),
				WithReprovideInterval(time.Duration(sc.IntervalM)*time.Minute), WithMaxReprovideDelay(time.Duration(sc.DelayM)*time.Minute),
				WithReplicationFactor(sc.R), WithMaxWorkers(sc.Workers[0]), WithDedicatedPeriodicWorkers(sc.Workers[1]), WithDedicatedBurstWorkers(sc.Workers[2]),
				WithPeerID(self), WithRouter(router), WithMessageSender(sender), WithDatastore(dstore),
				WithSelfAddrs(func() []ma.Multiaddr {
					st.mu.Lock()
					defer st.mu.Unlock()
					return append([]ma.Multiaddr(nil), st.addrs...)
				}),
				WithOfflineDelay(30*time.Minute), WithConnectivityCheckOnlineInterval(time.Minute))
		}
		prov, err := open()
		if err != nil {
			obs.Errs = append(obs.Errs, "New: "+err.Error())
			return
		}
		defer func() { prov.Close(); ks.Close() }()
		verifsim.Quiesce()
		byMin := map[int][]swEv{}
		for _, e := range sc.Events {
			byMin[e.AtMin] = append(byMin[e.AtMin], e)
		}
		obs.SwarmAt[0] = st.list()
		obs.AddrAt[0] = st.addrs[0].String()
		outageEnd := -1
		noAddr := false // the current "outage" is a window in which the node has no address to advertise (it is online all the while)
		lastSched := "-"
		obs.SchedAt = map[int][]string{}
		keysOf := func(e swEv) []mh.Multihash {
			var out []mh.Multihash
			for _, k := range e.Keys {
				out = append(out, mhs[k%len(mhs)])
			}
			return out
		}
		for m := 0; m <= sc.TotalMin; m++ {
			// events take effect 17 s into the minute: reprovide slots are interval*k/2^n with an interval that is a multiple of 3 s, which can never be
			// congruent to 17 s modulo one minute, so an event never shares a virtual instant with a scheduled reprovide
			time.Sleep(17 * time.Second)
			verifsim.Quiesce()
			if m == outageEnd {
				st.mu.Lock()
				st.outage = false
				if noAddr {
					// (a window without self addresses ends with a fresh address)
					noAddr = false
					st.addrs = []ma.Multiaddr{ma.StringCast(fmt.Sprintf("/ip4/8.1.2.%d/tcp/4001", 2+m%200))}
					obs.AddrAt[m] = st.addrs[0].String()
				}
				st.mu.Unlock()
				obs.Outages[len(obs.Outages)-1][1] = m
			}
			for _, e := range byMin[m] {
				switch e.Ev {
				case "start":
					if e.MidAddr {
						st.mu.Lock()
						st.armMid = fmt.Sprintf("/ip4/8.1.3.%d/tcp/4001", 2+m%200)
						st.mu.Unlock()
					}
					if err := prov.StartProviding(e.Force, keysOf(e)...); err != nil {
						obs.Errs = append(obs.Errs, fmt.Sprintf("minute %d StartProviding: %v", m, err))
					}
					for _, k := range e.Keys {
						_, started := obs.StartAt[k%len(mhs)]
						_, stopped := obs.StopAt[k%len(mhs)]
						if !started || stopped {
							obs.StartAt[k%len(mhs)] = m // (a key started again after a stop begins a new kept period)
						}
						delete(obs.StopAt, k%len(mhs))
					}
				case "once":
					if err := prov.ProvideOnce(keysOf(e)...); err != nil {
						obs.Errs = append(obs.Errs, fmt.Sprintf("minute %d ProvideOnce: %v", m, err))
					}
					for _, k := range e.Keys {
						obs.OnceAt[k%len(mhs)] = append(obs.OnceAt[k%len(mhs)], m)
					}
				case "stop":
					if err := prov.StopProviding(keysOf(e)...); err != nil {
						obs.Errs = append(obs.Errs, fmt.Sprintf("minute %d StopProviding: %v", m, err))
					}
					for _, k := range e.Keys {
						if _, ok := obs.StartAt[k%len(mhs)]; ok {
							if _, already := obs.StopAt[k%len(mhs)]; !already {
								obs.StopAt[k%len(mhs)] = m
							}
						}
					}
				case "grow":
					st.mu.Lock()
					for _, p := range e.Peers {
						st.members[p%(swPool-1)] = true
					}
					st.mu.Unlock()
					obs.SwarmAt[m] = st.list()
				case "shrink":
					cur := st.list()
					st.mu.Lock()
					for _, i := range e.Peers {
						if len(st.members) > 1 {
							delete(st.members, cur[i%len(cur)])
						}
					}
					st.mu.Unlock()
					obs.SwarmAt[m] = st.list()
				case "unreach":
					cur := st.list()
					st.mu.Lock()
					st.unreach = map[int]bool{}
					for _, i := range e.Peers {
						st.unreach[cur[i%len(cur)]] = true
					}
					var u []int
					for x := range st.unreach {
						u = append(u, x)
					}
					st.mu.Unlock()
					obs.UnreachAt[m] = u
				case "outage":
					if outageEnd < m {
						st.mu.Lock()
						st.outage = true
						st.mu.Unlock()
						outageEnd = m + max(1, e.DurMin)
						obs.Outages = append(obs.Outages, [2]int{m, sc.TotalMin + 1})
					}
				case "noaddr":
					// the node stays online but has nothing to put into a provider record for a while (what a WAN DHT's address filter
					// yields while the host has no public address): nothing can be advertised then, and everything that was due has
					// to be made up for once there is an address again - accounted for like a router outage
					if outageEnd < m {
						st.mu.Lock()
						st.addrs = nil
						st.mu.Unlock()
						noAddr = true
						outageEnd = m + max(1, e.DurMin)
						obs.Outages = append(obs.Outages, [2]int{m, sc.TotalMin + 1})
						obs.NoAddr = append(obs.NoAddr, [2]int{m, outageEnd})
					}
				case "busy-restart":
					// Close while the provides just asked for are still in flight (lookups and sends cost virtual time), then reopen
					// on the same datastore: work still queued or in flight at Close has to be resumed
					if e.Force {
						prov.StartProviding(true, keysOf(e)...)
						for _, k := range e.Keys {
							_, started := obs.StartAt[k%len(mhs)]
							_, stopped := obs.StopAt[k%len(mhs)]
							if !started || stopped {
								obs.StartAt[k%len(mhs)] = m // (a key started again after a stop begins a new kept period)
							}
							delete(obs.StopAt, k%len(mhs))
						}
					} else {
						prov.ProvideOnce(keysOf(e)...)
						for _, k := range e.Keys {
							obs.OnceAt[k%len(mhs)] = append(obs.OnceAt[k%len(mhs)], m)
						}
					}
					time.Sleep(time.Duration(e.DurMin) * time.Millisecond) // (DurMin holds milliseconds for this event)
					fallthrough
				case "restart":
					prov.Close()
					ks.Close()
					verifsim.Quiesce()
					var err error
					prov, err = open()
					if err != nil {
						obs.Errs = append(obs.Errs, fmt.Sprintf("minute %d restart: %v", m, err))
						return
					}
					obs.Restarts = append(obs.Restarts, m)
				case "addr":
					st.mu.Lock()
					st.addrs = []ma.Multiaddr{ma.StringCast(fmt.Sprintf("/ip4/8.1.1.%d/tcp/4001", 2+m%200))}
					obs.AddrAt[m] = st.addrs[0].String()
					st.mu.Unlock()
				}
			}
			time.Sleep(43 * time.Second)
			verifsim.Quiesce()
			st.mu.Lock()
			st.armMid = "" // (nothing was sent in this minute: no change)
			st.mu.Unlock()
			sender.mu.Lock()
			for _, mc := range sender.mids[len(obs.Mids):] {
				obs.Mids = append(obs.Mids, mc)
				obs.MidNew[m] = mc.Addr
				obs.AddrAt[m+1] = mc.Addr
			}
			sender.mu.Unlock()
			// the schedule's prefixes at the end of the minute (in-package read, under the schedule lock): lets the oracle tell a
			// re-planned schedule (prefix length re-estimated after a restart or an offline period) from a missed slot
			prov.scheduleLk.Lock()
			var ps []string
			for _, k := range keyspace.AllKeys(prov.schedule, prov.order) {
				ps = append(ps, string(k))
			}
			prov.scheduleLk.Unlock()
			sort.Strings(ps)
			if cur := fmt.Sprintf("%q", ps); cur != lastSched {
				lastSched = cur
				obs.SchedAt[m] = ps
			}
		}
		sender.mu.Lock()
		obs.Log = append([]advert(nil), sender.log...)
		sender.mu.Unlock()
		router.lmu.Lock()
		obs.Lookups = append([]lookupRec(nil), router.log...)
		router.lmu.Unlock()
	})
	return obs
}

// swarmAtMinute returns the swarm in force at a minute.
func swarmAtMinute(obs *swObs, m int) []int {
	best := -1
	for at := range obs.SwarmAt {
		if at <= m && at > best {
			best = at
		}
	}
	return obs.SwarmAt[best]
}

func unreachAtMinute(obs *swObs, m int) map[int]bool {
	best := -1
	for at := range obs.UnreachAt {
		if at <= m && at > best {
			best = at
		}
	}
	out := map[int]bool{}
	if best >= 0 {
		for _, x := range obs.UnreachAt[best] {
			out[x] = true
		}
	}
	return out
}

func judgeSweep(sc *swSc, obs *swObs, res *verifsim.Result) (cycles int) {
	if !obs.Outcome.OK() {
		res.Fail("terminates", "C17/sweep/hang-or-panic", "%s %s\n%s", obs.Outcome.Deadlock, obs.Outcome.Panic, obs.Outcome.Stacks)
		return
	}
	if len(obs.Errs) > 0 && len(obs.Outages) == 0 {
		res.Fail("api-accepts", "C17/sweep/api-error", "%v", obs.Errs)
		return
	}
	pp, kp := swpp(), swkp()
	idx := map[peer.ID]int{}
	for i := 0; i < swPool; i++ {
		idx[peer.ID(pp.IDs[i])] = i
	}
	interval := time.Duration(sc.IntervalM) * time.Minute
	bound := interval + time.Duration(sc.DelayM)*time.Minute
	// group the log per key into advertisements (sends of one key at one virtual instant)
	type ad struct {
		at   time.Duration
		last time.Duration
		to   map[int]bool
		addr string
	}
	perKey := map[int][]*ad{}
	// (with slow sends a peer receives its keys one after the other: the sends of one key to its r peers can lie that far apart)
	groupGap := 10*time.Second + 2*time.Duration(len(sc.Keys)*sc.SendMs)*time.Millisecond
	type rawSend struct {
		at   time.Duration
		to   int
		addr string
	}
	raw := map[int][]rawSend{}
	for _, a := range obs.Log {
		if a.Key < 0 {
			res.Fail("known-keys", "C17/sweep/unknown-key", "ADD_PROVIDER for a key that was never given to the provider")
			return
		}
		m := stateMinute(a.At)
		sw := swarmAtMinute(obs, m)
		member := false
		for _, x := range sw {
			if x == idx[a.To] {
				member = true
			}
		}
		if !member {
			res.Fail("recipients-in-swarm", "C17/sweep/recipient-not-in-swarm", "ADD_PROVIDER sent to a peer that is not in the swarm at minute %d", m)
			return
		}
		ads := perKey[a.Key]
		// one advertisement = the sends of a key that follow each other within 10 s (lookups and failing sends cost virtual time,
		// so the sends of one provide operation are spread over a few seconds)
		if len(ads) == 0 || a.At-ads[len(ads)-1].last > groupGap {
			ads = append(ads, &ad{at: a.At, to: map[int]bool{}, addr: a.Addrs})
		}
		ads[len(ads)-1].last = a.At
		ads[len(ads)-1].to[idx[a.To]] = true
		raw[a.Key] = append(raw[a.Key], rawSend{a.At, idx[a.To], a.Addrs})
		perKey[a.Key] = ads
	}
	inOutage := func(from, to time.Duration) bool {
		for _, o := range obs.Outages {
			os, oe := time.Duration(o[0])*time.Minute, time.Duration(o[1])*time.Minute+45*time.Minute // catch-up allowance after an outage
			if from < oe && os < to {
				return true
			}
		}
		return false
	}
	// an address change in the middle of a drain (single worker: regions are worked off one after the other, each one planned -
	// closest-peers lookups - before anything of it is sent): once a lookup has started after the change, a new region is being
	// worked on, and what is sent for it - within that minute, before the next event - carries the address the node has then
	for _, mc := range obs.Mids {
		if inOutage(mc.At-2*time.Minute, mc.At+2*time.Minute) {
			continue
		}
		near := false
		for _, r := range obs.Restarts {
			if d := mc.At - time.Duration(r)*time.Minute; d > -2*time.Minute && d < 2*time.Minute {
				near = true
			}
		}
		if near {
			continue
		}
		var planned time.Duration = -1
		for _, l := range obs.Lookups {
			if !l.Self && l.At > mc.At && (planned < 0 || l.At < planned) {
				planned = l.At
			}
		}
		if planned < 0 {
			continue
		}
		end := mc.At.Truncate(time.Minute) + time.Minute + 17*time.Second
		if mc.At-mc.At.Truncate(time.Minute) < 17*time.Second {
			end -= time.Minute
		}
		later := 0
		for _, a := range obs.Log {
			if a.At > planned && a.At < end {
				later++
				if a.Addrs != mc.Addr {
					res.Fail("current-addresses", "C17/sweep/stale-address-later-region", "the node's address changed to %q at %v, in the middle of a drain; a region planned afterwards (first lookup at %v) was advertised with %q at %v (key %d)", mc.Addr, mc.At, planned, a.Addrs, a.At, a.Key)
					return
				}
			}
		}
		if later > 0 {
			res.Class("address-change-in-the-middle-of-a-drain")
		}
	}
	// deadlineAfter: a key last advertised at `last` is due by last+bound; when a router outage begins before that deadline the
	// missed work must be caught up once the node is back online: the deadline moves to the outage's end plus a catch-up allowance
	const catchUp = 10 * time.Minute
	// a Close+restart on the same datastore is treated the same way: the cycle start and the reprovide history are persisted,
	// regions that became late are queued at bootstrap, so a restart moves a deadline it precedes to restart + catch-up at most
	type pause struct{ from, to time.Duration }
	var pauses []pause
	for _, o := range obs.Outages {
		pauses = append(pauses, pause{time.Duration(o[0]) * time.Minute, time.Duration(o[1]) * time.Minute})
	}
	for _, r := range obs.Restarts {
		pauses = append(pauses, pause{time.Duration(r) * time.Minute, time.Duration(r)*time.Minute + 18*time.Second})
	}
	sort.Slice(pauses, func(a, b int) bool { return pauses[a].from < pauses[b].from })
	extendByOutages := func(dl time.Duration) time.Duration {
		for _, o := range pauses { // in order of occurrence
			if o.from <= dl && o.to+catchUp > dl {
				dl = o.to + catchUp
			}
		}
		return dl
	}
	deadlineAfter := func(last time.Duration) time.Duration { return extendByOutages(last + bound + time.Minute) }
	// replanned: between two instants the key's scheduled prefix changed across a restart or an offline period, i.e. the
	// provider re-estimated the prefix length and rebuilt its schedule (listed finding: the new slot is not reconciled with
	// when the key was last advertised)
	coverAt := func(m int, bits string) string {
		best := -1
		for at := range obs.SchedAt {
			if at <= m && at > best {
				best = at
			}
		}
		if best < 0 {
			return "?"
		}
		for _, p := range obs.SchedAt[best] {
			if strings.HasPrefix(bits, p) {
				return "'" + p + "'"
			}
		}
		return "?"
	}
	// skippedAtBootstrap: the listed finding about (re)building the schedule. When an instance comes online after a restart, or
	// comes back from OFFLINE, it plans its schedule afresh and catches up only on regions that were not reprovided within the
	// last interval; a key advertised less than an interval before that instant is left to its next slot under the new plan,
	// however far away that is (its slot may have passed while the node was down, or moved because the prefix length estimate
	// changed). Identified by: such an instant B inside the gap with B - last <= interval. A gap whose key was already overdue
	// at B is NOT excused by this (the catch-up is supposed to cover it).
	skippedAtBootstrap := func(from, to time.Duration) string {
		var bs []time.Duration
		for _, r := range obs.Restarts {
			b := time.Duration(r) * time.Minute
			for _, o := range obs.Outages { // restarted during an outage: online when it ends
				if os, oe := time.Duration(o[0])*time.Minute, time.Duration(o[1])*time.Minute; os <= b && b < oe {
					b = oe
				}
			}
			bs = append(bs, b)
		}
		for _, o := range obs.Outages {
			if o[1]-o[0] >= 30 {
				bs = append(bs, time.Duration(o[1])*time.Minute)
			}
		}
		for _, b := range bs {
			if b >= from && b <= to && b-from <= interval+time.Minute {
				return fmt.Sprintf("the node (re)built its schedule at %v, %v after the key's last advertisement (< interval: not part of the bootstrap catch-up)", b, b-from)
			}
			// the advertisement that opens the gap is the restarted instance's own (events take effect 17 s into their minute, the
			// start-up advertisement follows within moments): the region then counts as reprovided "recently" and its first slot
			// under the rebuilt schedule is passed over - the same mechanism
			if b < from && from-b <= 2*time.Minute && b <= to {
				return fmt.Sprintf("the node (re)built its schedule at %v and advertised the key %v later, at start-up: the region's next slot under the rebuilt schedule counts as recently done", b, from-b)
			}
		}
		return ""
	}
	replanned := func(k int, from, to time.Duration) string {
		bits := verifsim.BitString(sha256.Sum256([]byte(kp.IDs[sc.Keys[k]])), 64)
		check := func(before, after int, what string) string {
			b, a := coverAt(before, bits), coverAt(after, bits)
			if os.Getenv("VERIF_DEBUG") != "" {
				fmt.Fprintf(os.Stderr, "DEBUG replanned key %d %s: %d->%s %d->%s outages %v\n", k, what, before, b, after, a, obs.Outages)
			}
			if b != "?" && a != "?" && b != a {
				return fmt.Sprintf("%s re-planned the schedule: the key's prefix went from %s to %s", what, b, a)
			}
			return ""
		}
		for _, r := range obs.Restarts {
			if at := time.Duration(r) * time.Minute; at >= from-time.Minute && at <= to {
				if w := check(r-1, r+1, fmt.Sprintf("the restart at minute %d", r)); w != "" {
					return w
				}
			}
		}
		for _, o := range obs.Outages {
			if at := time.Duration(o[1]) * time.Minute; o[1]-o[0] >= 30 && at >= from-time.Minute && at <= to {
				if w := check(o[0]-1, o[1]+2, fmt.Sprintf("coming back online at minute %d", o[1])); w != "" {
					return w
				}
			}
		}
		return ""
	}
	nearRestart := func(from, to time.Duration) bool {
		for _, r := range obs.Restarts {
			rt := time.Duration(r) * time.Minute
			if from <= rt && rt <= to {
				return true
			}
		}
		return false
	}
	var completeAt func(k int, a *ad, m int) (bool, string)
	// an advertisement is planned (lookups) before it is sent: with lookups and sends that cost time, one whose first send
	// comes shortly after an event instant was planned against the swarm as it was before the event - either state is accepted
	complete := func(k int, a *ad) (bool, string) {
		m := stateMinute(a.at)
		ok, why := completeAt(k, a, m)
		if !ok && m > 0 {
			sinceEvent := a.at - (time.Duration(m)*time.Minute + 17*time.Second)
			if sinceEvent <= groupGap+30*time.Second {
				if ok2, _ := completeAt(k, a, m-1); ok2 {
					return true, ""
				}
			}
		}
		return ok, why
	}
	completeAt = func(k int, a *ad, m int) (bool, string) {
		sw := swarmAtMinute(obs, m)
		bad := unreachAtMinute(obs, m)
		want := nearestR(sw, sha256.Sum256([]byte(kp.IDs[sc.Keys[k]])), sc.R)
		for _, w := range want {
			if !bad[w] && !a.to[w] {
				dbg := ""
				if os.Getenv("VERIF_DEBUG") != "" {
					kk := sha256.Sum256([]byte(kp.IDs[sc.Keys[k]]))
					fmt.Fprintf(os.Stderr, "DEBUGSW key %08b%08b at %v\n", kk[0], kk[1], a.at)
					for _, p := range sw {
						mark := "-"
						if a.to[p] {
							mark = "*"
						}
						fmt.Fprintf(os.Stderr, "DEBUGSW %08b%08b %s #%d\n", pp.Kad[p][0], pp.Kad[p][1], mark, p)
					}
				}
				return false, fmt.Sprintf("key %d advertised at %v to %d peers but not to #%d, one of its %d nearest reachable peers (swarm %d)%s", k, a.at, len(a.to), w, sc.R, len(sw), dbg)
			}
		}
		return true, ""
	}
	// noReachableTarget: at some minute of the window every one of the key's r nearest peers was unreachable (then nothing can be logged for it)
	noReachableTarget := func(k int, from, to time.Duration) bool {
		for m := stateMinute(from); m <= stateMinute(to); m++ {
			bad := unreachAtMinute(obs, m)
			if len(bad) == 0 {
				continue
			}
			want := nearestR(swarmAtMinute(obs, m), sha256.Sum256([]byte(kp.IDs[sc.Keys[k]])), sc.R)
			all := true
			for _, w := range want {
				if !bad[w] {
					all = false
				}
			}
			if all {
				return true
			}
		}
		return false
	}
	end := time.Duration(sc.TotalMin+1) * time.Minute
	if os.Getenv("VERIF_DEBUG") != "" {
		for k2 := range sc.Keys {
			h := sha256.Sum256([]byte(kp.IDs[sc.Keys[k2]]))
			var ts []string
			for _, a := range perKey[k2] {
				ts = append(ts, fmt.Sprintf("%v(%d)", a.at, len(a.to)))
			}
			fmt.Fprintf(os.Stderr, "DEBUG key %d %08b%08b: %v\n", k2, h[0], h[1], ts)
		}
	}
	if os.Getenv("VERIF_DEBUG") != "" {
		var ms []int
		for m := range obs.SchedAt {
			ms = append(ms, m)
		}
		sort.Ints(ms)
		for _, m := range ms {
			fmt.Fprintf(os.Stderr, "DEBUG sched at minute %d: %q\n", m, obs.SchedAt[m])
		}
	}
	for k := range sc.Keys {
		ads := perKey[k]
		startM, started := obs.StartAt[k]
		stopM, stopped := obs.StopAt[k]
		// (c) nothing after the quiescence following StopProviding
		if stopped {
			for _, a := range ads {
				if a.at > time.Duration(stopM+1)*time.Minute+18*time.Second {
					// a ProvideOnce after the stop is a legitimate advertisement
					viaOnce := false
					for _, om := range obs.OnceAt[k] {
						// (carried out within 2 min, or once the node is back online when a router outage is in the way)
						if time.Duration(om)*time.Minute <= a.at && a.at <= extendByOutages(time.Duration(om+2)*time.Minute) {
							viaOnce = true
						}
						// (or later still, when every attempt so far failed or fell short - e.g. all targets unreachable - and this
						// is the provide-once finally being carried out: no complete advertisement since the call)
						if time.Duration(om)*time.Minute <= a.at {
							fulfilled := false
							for _, a2 := range ads {
								if a2.at >= time.Duration(om)*time.Minute && a2.at < a.at {
									if ok, _ := complete(k, a2); ok {
										fulfilled = true
									}
								}
							}
							if !fulfilled {
								viaOnce = true
							}
						}
					}
					if !viaOnce {
						res.Fail("stop-stops", "C17/sweep/advertised-after-stop", "key %d re-advertised at %v although StopProviding was called at minute %d", k, a.at, stopM)
						return
					}
				}
			}
		}
		// (a) initial advertisement after start / provide-once while online
		checkInitial := func(m int, what string) bool {
			from := time.Duration(m)*time.Minute + 17*time.Second
			if inOutage(from-time.Minute, from+2*time.Minute) || noReachableTarget(k, from, from+time.Minute) {
				return true
			}
			// a restart right before or after the call: what was asked for is persisted at Close and resumed, so it has to be
			// advertised once the restarted instance has caught up
			until := from + time.Minute + time.Second
			if nearRestart(from-time.Minute, from+2*time.Minute) {
				until = extendByOutages(from + 2*time.Minute)
			}
			// the sends of the key between the call and the next quiescence, whatever advertisement group they fall in
			var win *ad
			for _, rs := range raw[k] {
				if rs.at >= from && rs.at <= until {
					if win == nil {
						win = &ad{at: rs.at, to: map[int]bool{}, addr: rs.addr}
					}
					win.last = rs.at
					win.to[rs.to] = true
				}
			}
			for _, a := range []*ad{win} {
				if a != nil {
					if ok, why := complete(k, a); !ok {
						sig := "C17/sweep/" + what + "/incomplete"
						if sc.lopsided() {
							sig = "C17/sweep/exploration-stops-early"
						}
						res.Fail("advertised-to-nearest", sig, "%s at minute %d: %s", what, m, why)
						return false
					}
					if want := addrAt(obs, m); a.addr != want && (obs.MidNew[m] == "" || a.addr != obs.MidNew[m]) {
						res.Fail("current-addresses", "C17/sweep/"+what+"/stale-address", "%s at minute %d advertised %q, current address is %q", what, m, a.addr, want)
						return false
					}
					return true
				}
			}
			for _, w := range obs.NoAddr {
				if m >= w[0]-1 && m <= w[1]+1 {
					// keys taken off the provide queue while the node has no self address are dropped (known finding)
					res.Fail("advertised-promptly", "C17/sweep/no-self-address-window", "%s for key %d at minute %d: never advertised; the node had no self address from minute %d to minute %d", what, k, m, w[0], w[1])
					return false
				}
			}
			res.Fail("advertised-promptly", "C17/sweep/"+what+"/not-advertised", "%s for key %d at minute %d: no advertisement by the next quiescence", what, k, m)
			return false
		}
		if started && !(stopped && stopM == startM) {
			if !checkInitial(startM, "start") {
				return
			}
		}
		for _, om := range obs.OnceAt[k] {
			if !checkInitial(om, "once") {
				return
			}
		}
		// (b) reprovide timing for kept keys
		if started {
			until := end
			if stopped {
				until = time.Duration(stopM) * time.Minute
			}
			prev := time.Duration(startM) * time.Minute
			var times []time.Duration
			for _, a := range ads {
				if a.at >= prev && a.at <= until {
					times = append(times, a.at)
				}
			}
			times = append(times, until)
			last := time.Duration(startM) * time.Minute
			for i, tm := range times {
				gap := tm - last
				isEnd := i == len(times)-1
				if gap > bound+time.Minute && tm > deadlineAfter(last) && !noReachableTarget(k, last, tm) {
					what := fmt.Sprintf("between advertisements at %v and %v", last, tm)
					if isEnd {
						what = fmt.Sprintf("after the last advertisement at %v until %v", last, tm)
					}
					var all []string
					for _, a := range ads {
						all = append(all, fmt.Sprintf("%v(%d)", a.at, len(a.to)))
					}
					if os.Getenv("VERIF_DEBUG") != "" {
						for k2 := range sc.Keys {
							h := sha256.Sum256([]byte(kp.IDs[sc.Keys[k2]]))
							var ts []string
							for _, a := range perKey[k2] {
								ts = append(ts, fmt.Sprintf("%v(%d)", a.at, len(a.to)))
							}
							all = append(all, fmt.Sprintf("\n key %d %08b%08b: %v", k2, h[0], h[1], ts))
						}
					}
					sig := "C17/sweep/reprovide-gap"
					for _, w := range obs.NoAddr {
						if time.Duration(w[0])*time.Minute < tm && time.Duration(w[1]+1)*time.Minute > last {
							// a slot that fell into a window without self addresses is dropped, not queued for catch-up (known finding)
							sig = "C17/sweep/no-self-address-window"
							what += fmt.Sprintf("; the node had no self address from minute %d to minute %d", w[0], w[1])
						}
					}
					if why := skippedAtBootstrap(last, tm); why != "" && sig == "C17/sweep/reprovide-gap" {
						sig = "C17/sweep/replan-after-restart"
						what += "; " + why
						if w2 := replanned(k, last, tm); w2 != "" {
							what += "; " + w2
						}
					}
					res.Fail("reprovide-on-schedule", sig, "key %d: %v without re-advertisement %s; bound interval+delay = %v (r=%d, bucket=%d, swarm=%d); advertisements of the key: %v", k, gap, what, bound, sc.R, sc.Bucket, len(sc.Swarm), all)
					return
				}
				last = tm
			}
			for _, a := range ads {
				// (an advertisement that a Close cut short is finished by the restarted instance, as a separate run of sends)
				if a.at > time.Duration(startM+2)*time.Minute && a.at <= until && !inOutage(a.at-time.Minute, a.at+time.Minute) && !nearRestart(a.at-time.Minute, a.last+time.Minute) {
					if ok, why := complete(k, a); !ok {
						sig := "C17/sweep/reprovide/incomplete"
						if sc.lopsided() {
							sig = "C17/sweep/exploration-stops-early"
						}
						res.Fail("readvertised-to-nearest", sig, "%s", why)
						return
					}
					cycles++
				}
			}
		}
	}
	return
}

// stateMinute maps a virtual instant to the index of the last event minute in force (events apply at m min 17 s).
func stateMinute(at time.Duration) int {
	if at < 17*time.Second {
		return 0
	}
	return int((at - 17*time.Second) / time.Minute)
}

func addrAt(obs *swObs, m int) string {
	best := -1
	for at := range obs.AddrAt {
		if at <= m && at > best {
			best = at
		}
	}
	return obs.AddrAt[best]
}

// genSwarm draws a swarm with clusters (by construction, from the prefix-indexed pool).
func genSwarm(t *rapid.T, minN, maxN int, deep bool) []int {
	pp := swpp()
	n := rapid.IntRange(minN, maxN).Draw(t, "swarmN")
	seen := map[int]bool{}
	var out []int
	nCl := rapid.IntRange(0, 3).Draw(t, "clusters")
	var prefixes []string
	for i := 0; i < nCl; i++ {
		l := rapid.IntRange(1, 2).Draw(t, "clLen")
		if deep {
			l = rapid.IntRange(3, 5).Draw(t, "clLenDeep")
		}
		p := ""
		for j := 0; j < l; j++ {
			p += string(rune('0' + rapid.IntRange(0, 1).Draw(t, "clBit")))
		}
		prefixes = append(prefixes, p)
	}
	for len(out) < n {
		var cand []int
		if len(prefixes) > 0 && rapid.IntRange(0, 1).Draw(t, "inCluster") == 0 {
			cand = pp.WithPrefix(prefixes[rapid.IntRange(0, len(prefixes)-1).Draw(t, "which")])
		}
		var i int
		if len(cand) > 0 {
			// the candidates are sorted by key and rapid favours small numbers: index through a mixing function so that the
			// members of a cluster are spread evenly under the cluster's prefix instead of sharing a much longer one
			u := rapid.Uint64().Draw(t, "ci")
			u ^= u >> 33
			u *= 0xff51afd7ed558ccd
			u ^= u >> 33
			u *= 0xc4ceb9fe1a85ec53
			u ^= u >> 33
			i = cand[int(u%uint64(len(cand)))]
		} else {
			i = rapid.IntRange(0, swPool-2).Draw(t, "pi")
		}
		for seen[i] {
			i = (i + 1) % (swPool - 1)
		}
		seen[i] = true
		out = append(out, i)
	}
	return out
}

// deepCluster reports whether `need` peers of the swarm share a prefix at least 3 bits longer than a uniform swarm of that
// size would give (8 times denser than average): the lopsided shape under which the listed exploration finding operates.
func deepCluster(swarm []int, need int) bool {
	pp := swpp()
	if need < 2 || len(swarm) < need {
		return false
	}
	ms := append([]int(nil), swarm...)
	sort.Slice(ms, func(a, b int) bool {
		return verifsim.BitString(pp.Kad[ms[a]], 64) < verifsim.BitString(pp.Kad[ms[b]], 64)
	})
	thr := 3
	for x := len(swarm) / need; x > 1; x /= 2 {
		thr++
	}
	if len(swarm)%need != 0 || len(swarm)/need&(len(swarm)/need-1) != 0 {
		thr++ // ceil
	}
	for i := 0; i+need <= len(ms); i++ {
		if verifsim.CPL(pp.Kad[ms[i]], pp.Kad[ms[i+need-1]]) >= thr {
			return true
		}
	}
	return false
}

// lopsided: the scenario's swarm has deep clusters, by construction (Deep) or by accident of the draw
func (sc *swSc) lopsided() bool {
	if sc.Deep {
		return true
	}
	all := append([]int(nil), sc.Swarm...)
	for _, e := range sc.Events {
		if e.Ev == "grow" {
			all = append(all, e.Peers...)
		}
	}
	need := max(3, min(sc.R, sc.Bucket))
	return deepCluster(sc.Swarm, need) || deepCluster(all, need)
}

func genSweep(t *rapid.T, regime string) swSc {
	var sc swSc
	sc.Deep = regime != "C" && rapid.IntRange(0, 3).Draw(t, "deepClusters") == 0
	switch regime {
	case "A":
		// the way provider/dual wires it: replication factor = router bucket size
		sc.R = rapid.IntRange(8, 20).Draw(t, "r")
		sc.Bucket = sc.R
		sc.Swarm = genSwarm(t, 2*sc.R, 150, sc.Deep)
	case "B":
		// as in the repository's own exploration fuzz test: bucket 20, smaller replication factor
		sc.R = rapid.IntRange(3, 12).Draw(t, "r")
		sc.Bucket = 20
		sc.Swarm = genSwarm(t, 2*sc.R, 150, sc.Deep)
	case "S":
		// small router bucket (3-7): outside the sizes the exploration heuristics are tuned for
		sc.R = rapid.IntRange(3, 7).Draw(t, "r")
		sc.Bucket = sc.R
		sc.Swarm = genSwarm(t, 2*sc.R, 80, sc.Deep)
	default:
		sc.R = rapid.IntRange(3, 20).Draw(t, "r")
		sc.Bucket = 20
		sc.Swarm = genSwarm(t, 1, max(1, sc.R-1), false)
	}
	nk := rapid.IntRange(1, 60).Draw(t, "nKeys")
	sc.Keys = rapid.SliceOfNDistinct(rapid.IntRange(0, swPool-1), nk, nk, func(i int) int { return i }).Draw(t, "keys")
	sc.LookupMs = rapid.SampledFrom([]int{1, 3, 20, 150}).Draw(t, "lookupMs")
	sc.SendMs = rapid.SampledFrom([]int{0, 0, 0, 30, 400}).Draw(t, "sendMs")
	sc.IntervalM = rapid.SampledFrom([]int{30, 60}).Draw(t, "interval")
	sc.DelayM = rapid.SampledFrom([]int{5, 10}).Draw(t, "delay")
	w := rapid.SampledFrom([][3]int{{4, 2, 1}, {1, 0, 0}, {2, 1, 1}, {8, 0, 0}}).Draw(t, "workers")
	sc.Workers = w
	sc.TotalMin = rapid.IntRange(sc.IntervalM+sc.DelayM+5, 3*sc.IntervalM+20).Draw(t, "total")
	allKeys := make([]int, nk)
	for i := range allKeys {
		allKeys[i] = i
	}
	// keys started at the beginning: all of them, or a leading part (the rest can be started later, as a group sharing a prefix)
	first := allKeys
	var late []int
	if nk >= 6 && verifsim.Chance(t, "lateKeys", 40) {
		// the late group: 3-6 keys under one 1-3 bit prefix (a sub-region that holds none of the early keys is the interesting case)
		kp := swkp()
		l := rapid.IntRange(1, 3).Draw(t, "latePrefixLen")
		pfx := ""
		for j := 0; j < l; j++ {
			pfx += string(rune('0' + rapid.IntRange(0, 1).Draw(t, "lateBit")))
		}
		first = nil
		for i, kidx := range sc.Keys {
			if strings.HasPrefix(verifsim.BitString(sha256.Sum256([]byte(kp.IDs[kidx])), 8), pfx) && len(late) < 6 {
				late = append(late, i)
			} else {
				first = append(first, i)
			}
		}
		if len(late) < 3 || len(first) == 0 {
			first, late = allKeys, nil
		}
	}
	sc.Events = append(sc.Events, swEv{AtMin: rapid.IntRange(0, 3).Draw(t, "startAt"), Ev: "start", Force: true, Keys: first})
	if sc.Workers == [3]int{1, 0, 0} && len(first) >= 6 && sc.Events[0].AtMin >= 1 && verifsim.Chance(t, "midAddr", 50) {
		sc.Events[0].MidAddr = true
	}
	// one event per minute at most: two events in one minute would share a virtual instant
	ats := rapid.SliceOfNDistinct(rapid.IntRange(4, sc.TotalMin-2), 0, 5, func(i int) int { return i }).Draw(t, "eventMinutes")
	lateDone := false
	for _, at := range ats {
		if len(late) > 0 && !lateDone && at >= sc.IntervalM/2 {
			// (after the first reprovides, so that the regions have been explored and possibly split)
			sc.Events = append(sc.Events, swEv{AtMin: at, Ev: "start", Force: true, Keys: late})
			lateDone = true
			continue
		}
		switch rapid.IntRange(0, 8).Draw(t, "kind") {
		case 8:
			ev := swEv{AtMin: at, Ev: "busy-restart", Force: rapid.Bool().Draw(t, "busyStart"), Keys: rapid.SliceOfN(rapid.IntRange(0, nk-1), 1, 8).Draw(t, "busyKeys"),
				DurMin: rapid.SampledFrom([]int{0, 1, 10, 100, 1000}).Draw(t, "busyMs")}
			sc.Events = append(sc.Events, ev)
		case 0:
			sc.Events = append(sc.Events, swEv{AtMin: at, Ev: "stop", Keys: rapid.SliceOfN(rapid.IntRange(0, nk-1), 1, 4).Draw(t, "stopKeys")})
		case 1:
			sc.Events = append(sc.Events, swEv{AtMin: at, Ev: "once", Keys: rapid.SliceOfN(rapid.IntRange(0, nk-1), 1, 3).Draw(t, "onceKeys")})
		case 2:
			if regime != "C" {
				sc.Events = append(sc.Events, swEv{AtMin: at, Ev: "grow", Peers: rapid.SliceOfN(rapid.IntRange(0, swPool-2), 1, max(1, len(sc.Swarm)/3)).Draw(t, "grow")})
			}
		case 3:
			if regime != "C" && len(sc.Swarm) > 3*sc.R {
				sc.Events = append(sc.Events, swEv{AtMin: at, Ev: "shrink", Peers: rapid.SliceOfN(rapid.IntRange(0, 1000), 1, max(1, len(sc.Swarm)/4)).Draw(t, "shrink")})
			}
		case 4:
			sc.Events = append(sc.Events, swEv{AtMin: at, Ev: "unreach", Peers: rapid.SliceOfN(rapid.IntRange(0, 1000), 0, 3).Draw(t, "unreach")})
		case 5:
			sc.Events = append(sc.Events, swEv{AtMin: at, Ev: "outage", DurMin: rapid.SampledFrom([]int{2, 10, 45}).Draw(t, "outageDur")})
		case 6:
			sc.Events = append(sc.Events, swEv{AtMin: at, Ev: "restart"})
		default:
			if rapid.Bool().Draw(t, "noAddr") {
				sc.Events = append(sc.Events, swEv{AtMin: at, Ev: "noaddr", DurMin: rapid.SampledFrom([]int{2, 10}).Draw(t, "noAddrDur")})
			} else {
				sc.Events = append(sc.Events, swEv{AtMin: at, Ev: "addr"})
			}
		}
	}
	return sc
}

func sweepCheck(part, regime, regimeText string) verifsim.Check[swSc] {
	return verifsim.Check[swSc]{
		Property: "C17", Part: part,
		Rule: "rapid, regime " + regimeText + ": swarms built by construction from the SHA-256 prefix-indexed peer pool (uniform + up to 3 clusters), 1-60 keys, r 1-8, reprovide interval 30/60 min and max delay 5/10 min, four worker configurations, closest-peers lookups costing 1-150 ms of virtual time (never 0), " +
			"1.2-3.3 intervals of virtual time stepped minute by minute to quiescence, with events at minute boundaries: StopProviding, ProvideOnce, swarm growth/shrink, per-peer unreachability, router outages (2/10/45 min), Close+restart on the same datastore, self-address change, windows of 2/10 min without any self address; " +
			"oracle over the ADD_PROVIDER log (key, recipient, virtual time, payload): recipients are swarm members, a start/provide-once is advertised by the next quiescence to every reachable member of the r nearest peers with the current address, kept keys are " +
			"re-advertised completely at most interval+delay (+1 min, catch-up allowance after outages) apart, nothing after StopProviding; non-trivial = at least one complete re-advertisement cycle observed with churn, an outage, a restart or a stop",
		Gen: func(t *rapid.T) swSc { return genSweep(t, regime) },
		Excluded: func(sc swSc, known map[string]bool) string {
			if sc.lopsided() && known["C17/sweep/exploration-stops-early"] {
				return "deep-clusters (known finding: exploration stops after two lookups without fresh peers although gaps remain)"
			}
			return ""
		},
		Run: func(t *testing.T, sc swSc) (res verifsim.Result) {
			obs := runSweep(t, &sc)
			cycles := judgeSweep(&sc, &obs, &res)
			events := 0
			for _, e := range sc.Events {
				if e.Ev != "start" {
					events++
				}
			}
			res.NonTrivial = cycles > 0 && events > 0
			res.Class("regime-" + regime)
			if cycles > 0 {
				res.Class("reprovide-cycle-observed")
			}
			return
		},
	}
}

func TestVerif_C17_SweepA(t *testing.T) {
	verifsim.RunCheck(t, sweepCheck("sweep-mainstream", "A", "A (router bucket = r, swarm >= 2r, the way provider/dual wires it)"))
}

func TestVerif_C17_SweepB(t *testing.T) {
	verifsim.RunCheck(t, sweepCheck("sweep-bucket-gt-r", "B", "B (router bucket > r, swarm >= 2r)"))
}

func TestVerif_C17_SweepC(t *testing.T) {
	verifsim.RunCheck(t, sweepCheck("sweep-tiny-swarm", "C", "C (swarm smaller than r)"))
}
