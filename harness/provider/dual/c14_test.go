//go:build verif

package dual

// C14 — the dual sweeping provider (the wrapper around one provider per swarm):
// Close returns only after both inner providers, their connectivity checkers
// and the keystore the wrapper created have stopped; 1-3 overlapping Close
// calls; a lookup of one of the two swarms held inside the simulated network.
//
// Real time with a gate inside the simulated network and a goroutine-state
// probe, as for the single provider (Close serialises through sync.Once).

import (
	"errors"
	"fmt"
	"strings"
	"sync"
	"testing"
	"time"

	"github.com/ipfs/go-datastore"
	dssync "github.com/ipfs/go-datastore/sync"
	dht "github.com/libp2p/go-libp2p-kad-dht"
	ddht "github.com/libp2p/go-libp2p-kad-dht/dual"
	"github.com/libp2p/go-libp2p-kad-dht/internal/verifnet"
	"github.com/libp2p/go-libp2p-kad-dht/internal/verifsim"
	pb "github.com/libp2p/go-libp2p-kad-dht/pb"
	"github.com/libp2p/go-libp2p-kad-dht/provider/keystore"
	"github.com/libp2p/go-libp2p/core/host"
	"github.com/libp2p/go-libp2p/core/peer"
	"github.com/libp2p/go-libp2p/core/protocol"
	ma "github.com/multiformats/go-multiaddr"
	mh "github.com/multiformats/go-multihash"
	"pgregory.net/rapid"
)

type dualProvCloseSc struct {
	NoSchedule bool   `json:"no_schedule"`  // reprovide interval 0 on both sides
	OwnKS      bool   `json:"own_keystore"` // no WithKeystore: the wrapper creates (and must close) its keystore
	Keys       int    `json:"keys"`
	WanPeers   int    `json:"wan_peers"` // members of the WAN routing table (0: the WAN side is offline)
	LanPeers   int    `json:"lan_peers"`
	HoldAt     int    `json:"hold_at"`    // the n-th request the simulated network receives is held (-1: none)
	HonourCtx  bool   `json:"honour_ctx"` // the held request ends with its context, or only when released
	NClose     int    `json:"n_close"`
	LateOps    []int  `json:"late_ops"`             // calls made after the first Close call was started: 0 start 1 stop 2 once 3 clear 4 refresh
	BadOption  string `json:"bad_option,omitempty"` // "" | nil-dht | workers | wan-bucket-0 | lan-bucket-0 (constructor failure; the last two: that half of the dual DHT was built with bucket size 0, which its provider refuses as replication factor - the failure comes after the keystore / the first provider were started)
}

var dualProvMu sync.Mutex

var dualProvSubs = []string{"provider.(*SweepingProvider)", "provider/dual.(*SweepingProvider)", "connectivity.(*ConnectivityChecker)", "provider/internal/", "keystore.(*keystore).worker"}

func TestVerif_C14_DualProvider(t *testing.T) {
	pp := verifsim.NewPool("peer", 64)
	kp := verifsim.NewPool("key", 64)
	verifsim.RunCheck(t, verifsim.Check[dualProvCloseSc]{
		Property: "C14", Part: "dual-provider",
		Rule: "rapid: provider/dual.New over a dual DHT (dual.New on a fake host, both swarms behind one simulated network with a gate; 0-6 WAN and 0-3 LAN routing-table members), with and without a reprovide schedule, with its own or a given " +
			"keystore, 0-4 keys started; optionally the n-th request reaching the simulated network (a probe's, a prefix-length measurement's or a provide's lookup on either swarm) is held, by a network that returns on context cancellation " +
			"or one that does not; 1-3 Close calls started one after the other (each once the previous one returned or is seen blocked), 0-3 further API calls in between, then the gate is released; failing constructors (nil DHT, invalid " +
			"option, one half of the dual DHT built with bucket size 0 so that its provider - the first or the second to be built - refuses the replication factor); real time; oracle: a Close call that has returned leaves no goroutine of either inner provider, their connectivity checkers, the wrapper or its own keystore, every call returns after the release, calls after Close do not " +
			"panic, a failed constructor leaves none of those goroutines; non-trivial = a request was held while a Close call was pending",
		Gen: func(t *rapid.T) dualProvCloseSc {
			sc := dualProvCloseSc{
				NoSchedule: verifsim.Chance(t, "noSchedule", 25),
				OwnKS:      rapid.Bool().Draw(t, "ownKS"),
				Keys:       rapid.SampledFrom([]int{0, 1, 2, 4, 4}).Draw(t, "keys"),
				WanPeers:   rapid.SampledFrom([]int{6, 4, 2, 6, 0}).Draw(t, "wanPeers"),
				LanPeers:   rapid.SampledFrom([]int{0, 0, 1, 3}).Draw(t, "lanPeers"),
				HoldAt:     []int{0, 1, 2, 3, 4, 5, 7, 9}[verifsim.Mix64(uint64(rapid.IntRange(0, 1<<16).Draw(t, "holdAt")))%8],
				HonourCtx:  rapid.Bool().Draw(t, "honourCtx"),
				NClose:     rapid.IntRange(1, 3).Draw(t, "nClose"),
				LateOps:    rapid.SliceOfN(rapid.IntRange(0, 4), 0, 3).Draw(t, "lateOps"),
			}
			if verifsim.Chance(t, "noHold", 15) {
				sc.HoldAt = -1
			}
			if verifsim.Chance(t, "bad", 15) {
				sc.BadOption = rapid.SampledFrom([]string{"nil-dht", "workers", "wan-bucket-0", "wan-bucket-0", "lan-bucket-0"}).Draw(t, "badOption")
			}
			return sc
		},
		Run: func(t *testing.T, sc dualProvCloseSc) (res verifsim.Result) {
			dualProvMu.Lock()
			defer dualProvMu.Unlock()
			h := verifnet.NewHost(peer.ID(pp.IDs[63]), []ma.Multiaddr{ma.StringCast("/ip4/8.1.1.1/tcp/4001"), ma.StringCast("/ip4/192.168.1.5/tcp/4001")})
			defer h.Close()
			sim := verifnet.NewSim()
			var mu sync.Mutex
			nReq, inside := 0, 0
			entered, release := make(chan struct{}), make(chan struct{})
			sim.Dial = func(p peer.ID, n int) (time.Duration, string) { return 0, "ok" }
			sim.OnConnected = func(p peer.ID) { h.Net().SetConnected(p, true) }
			sim.Respond = func(p peer.ID, n int, req *pb.Message) verifnet.Reply {
				mu.Lock()
				hold := nReq == sc.HoldAt
				nReq++
				if hold {
					inside++
				}
				mu.Unlock()
				if hold {
					close(entered)
					if !sc.HonourCtx {
						<-release // a peer whose answer the transport waits for regardless of the caller's context
						mu.Lock()
						inside--
						mu.Unlock()
						return verifnet.Reply{Resp: &pb.Message{Type: req.Type, Key: req.Key}}
					}
					go func() { <-release; mu.Lock(); inside--; mu.Unlock() }()
					return verifnet.Reply{Silent: true} // ends with the caller's context (or the read timeout)
				}
				return verifnet.Reply{Resp: &pb.Message{Type: req.Type, Key: req.Key}}
			}
			h.ConnectFn = sim.Connect
			sender := dht.WithCustomMessageSender(func(host.Host, []protocol.ID) pb.MessageSenderWithDisconnect { return sim })
			wanOpts, lanOpts := []dht.Option{dht.ProtocolPrefix("/simwan")}, []dht.Option{dht.ProtocolPrefix("/simlan")}
			switch sc.BadOption {
			case "wan-bucket-0":
				wanOpts = append(wanOpts, dht.BucketSize(0))
			case "lan-bucket-0":
				lanOpts = append(lanOpts, dht.BucketSize(0))
			}
			d, err := ddht.New(h, ddht.DHTOption(dht.DisableAutoRefresh(), dht.BucketSize(4), dht.Mode(dht.ModeClient), sender),
				ddht.WanDHTOption(wanOpts...), ddht.LanDHTOption(lanOpts...))
			if err != nil {
				res.Fail("constructs", "C14/dual-provider/dual-dht", "%v", err)
				return
			}
			defer d.Close()
			if sc.BadOption == "wan-bucket-0" {
				sc.WanPeers = 0 // (a routing table with bucket size 0 cannot take a member)
			}
			if sc.BadOption == "lan-bucket-0" {
				sc.LanPeers = 0
			}
			for i := 0; i < sc.WanPeers; i++ {
				id := peer.ID(pp.IDs[i])
				a := ma.StringCast(fmt.Sprintf("/ip4/8.%d.8.1/tcp/4001", i+8)) // (one /16 each: the WAN table's diversity filter)
				h.Peerstore().AddAddrs(id, []ma.Multiaddr{a}, time.Hour)
				h.Net().AddConn(id, a)
				if ok, err := d.WAN.RoutingTable().TryAddPeer(id, true, false); !ok || err != nil {
					res.Fail("constructs", "C14/dual-provider/rt", "WAN table refused peer %d: %v", i, err)
					return
				}
			}
			for i := 0; i < sc.LanPeers; i++ {
				id := peer.ID(pp.IDs[20+i])
				a := ma.StringCast(fmt.Sprintf("/ip4/192.168.1.%d/tcp/4001", i+10))
				h.Peerstore().AddAddrs(id, []ma.Multiaddr{a}, time.Hour)
				h.Net().AddConn(id, a)
				d.LAN.RoutingTable().TryAddPeer(id, true, false)
			}
			interval := time.Hour
			if sc.NoSchedule {
				interval = 0
			}
			opts := []Option{WithReprovideInterval(interval), WithMaxWorkers(3), WithDedicatedPeriodicWorkers(0), WithDedicatedBurstWorkers(0)}
			var ownKS keystore.Keystore
			if !sc.OwnKS {
				ownKS, err = keystore.NewKeystore(dssync.MutexWrap(datastore.NewMapDatastore()))
				if err != nil {
					res.Fail("constructs", "C14/dual-provider/keystore", "%v", err)
					return
				}
				defer ownKS.Close()
				opts = append(opts, WithKeystore(ownKS))
			}
			// the worker of a keystore that was handed in is not the wrapper's: told apart by goroutine id
			givenIDs := map[string]bool{}
			gid := func(g string) string {
				if i := strings.Index(g, " ["); i > 0 {
					return g[:i]
				}
				return g
			}
			if !sc.OwnKS {
				// (the worker was started a moment ago: wait until it has parked in its loop, the probe only lists blocked goroutines)
				for w := time.Now().Add(2 * time.Second); len(givenIDs) == 0 && time.Now().Before(w); time.Sleep(time.Millisecond) {
					for _, g := range verifsim.GoroutinesMatching(0, "keystore.(*keystore).worker") {
						givenIDs[gid(g)] = true
					}
				}
			}
			leftOver := func(settle time.Duration) []string {
				var out []string
				for _, g := range verifsim.GoroutinesMatching(settle, dualProvSubs...) {
					if !givenIDs[gid(g)] {
						out = append(out, g)
					}
				}
				return out
			}
			switch sc.BadOption {
			case "wan-bucket-0", "lan-bucket-0":
				// (the provider built first has already sent its start-up probe when the second one fails: the request may be the held
				// one, and New's clean-up then waits for it like a Close call does - so New runs beside the releaser, not in front of it)
				var nerr error
				nc := verifsim.RTGo(func() error { _, nerr = New(d, opts...); return nil })
				verifsim.RTSettle(10*time.Second, nc)
				heldNew := !nc.Done()
				close(release)
				if !verifsim.RTWait(30*time.Second, nc) {
					st := ""
					if g := verifsim.GoroutinesMatching(0, "verifsim.RTGo"); len(g) > 0 {
						st = g[0]
					}
					res.Fail("calls-return", "C14/dual-provider/failed-new-returns", "New (failing on the %s provider) did not return within 30 s after the network was released:\n%s", sc.BadOption[:3], st)
					return
				}
				if nc.Pan != nil {
					res.Fail("no-panic", "C14/dual-provider/panic", "panic in New: %v", nc.Pan)
				}
				if heldNew {
					res.Class("failed-constructor-waits-for-held-request")
				}
				err := nerr
				if err == nil {
					res.Fail("constructor-fails", "C14/dual-provider/bucket-0-accepted", "New over a dual DHT whose %s half has bucket size 0 returned no error", sc.BadOption[:3])
				}
				if left := leftOver(300 * time.Millisecond); len(left) > 0 {
					res.Fail("failed-constructor-clean", "C14/dual-provider/goroutine-left-after-failed-new", "%d goroutine(s) left after New failed on the %s provider (replication factor 0):\n%s", len(left), sc.BadOption[:3], left[0])
				}
				res.Class("failed-constructor")
				res.NonTrivial = true
				return
			case "nil-dht":
				_, err := New(nil, opts...)
				if err == nil {
					res.Fail("constructor-fails", "C14/dual-provider/nil-dht-accepted", "New(nil) returned no error")
				}
				if left := leftOver(200 * time.Millisecond); len(left) > 0 {
					res.Fail("failed-constructor-clean", "C14/dual-provider/goroutine-left-after-failed-new", "%d goroutine(s) left after New(nil) failed:\n%s", len(left), left[0])
				}
				res.Class("failed-constructor")
				return
			case "workers":
				_, err := New(d, append(opts, WithMaxWorkersWAN(1), WithDedicatedPeriodicWorkersWAN(1), WithDedicatedBurstWorkersWAN(1))...)
				if err == nil {
					res.Fail("constructor-fails", "C14/dual-provider/invalid-option-accepted", "New with more dedicated workers than workers returned no error")
				}
				if left := leftOver(200 * time.Millisecond); len(left) > 0 {
					res.Fail("failed-constructor-clean", "C14/dual-provider/goroutine-left-after-failed-new", "%d goroutine(s) left after New failed on an invalid option:\n%s", len(left), left[0])
				}
				res.Class("failed-constructor")
				return
			}
			prov, err := New(d, opts...)
			if err != nil {
				res.Fail("constructs", "C14/dual-provider/new-error", "%v", err)
				return
			}
			var keys []mh.Multihash
			for i := 0; i < sc.Keys; i++ {
				keys = append(keys, mh.Multihash(kp.IDs[i]))
			}
			if len(keys) > 0 {
				prov.StartProviding(true, keys...)
			}
			holding := false
			if sc.HoldAt >= 0 {
				select {
				case <-entered:
					holding = true
				case <-time.After(300 * time.Millisecond): // fewer requests than that reached the network
				}
			} else {
				time.Sleep(2 * time.Millisecond)
			}
			var calls []*verifsim.RTCall
			early := ""
			for i := 0; i < sc.NClose; i++ {
				c := verifsim.RTGo(prov.Close)
				calls = append(calls, c)
				if !verifsim.RTSettle(10*time.Second, c) {
					res.Fail("close-settles", "C14/dual-provider/close-spins", "Close call %d neither returned nor blocked within 10 s", i+1)
				}
				if i == 0 {
					for _, op := range sc.LateOps {
						op := op
						oc := verifsim.RTGo(func() error {
							k := mh.Multihash(kp.IDs[20+op])
							switch op {
							case 0:
								return prov.StartProviding(false, k)
							case 1:
								return prov.StopProviding(k)
							case 2:
								return prov.ProvideOnce(k)
							case 3:
								prov.Clear()
								return nil
							}
							return prov.RefreshSchedule()
						})
						calls = append(calls, oc)
						verifsim.RTSettle(10*time.Second, oc)
					}
				}
				if c.Done() && early == "" {
					if left := leftOver(150 * time.Millisecond); len(left) > 0 {
						mu.Lock()
						in := inside
						mu.Unlock()
						early = fmt.Sprintf("Close call %d returned while %d goroutine(s) of the instance were still there (a request held in the network: %v, network honours cancellation: %v):\n%s", i+1, len(left), in > 0, sc.HonourCtx, left[0])
					}
				}
			}
			if !holding {
				select {
				case <-entered:
					holding = true
				default:
				}
			}
			close(release)
			if !verifsim.RTWait(30*time.Second, calls...) {
				st := ""
				if g := verifsim.GoroutinesMatching(0, "verifsim.RTGo"); len(g) > 0 {
					st = g[0]
				}
				res.Fail("calls-return", "C14/dual-provider/calls-return", "a Close call (or a call made during Close) did not return within 30 s after the network was released:\n%s", st)
				return
			}
			for _, c := range calls {
				if c.Pan != nil {
					res.Fail("no-panic", "C14/dual-provider/panic", "panic: %v", c.Pan)
				}
			}
			if early != "" {
				res.Fail("close-waits", "C14/dual-provider/close-waits", "%s", early)
			}
			if left := leftOver(300 * time.Millisecond); len(left) > 0 {
				res.Fail("nothing-left", "C14/dual-provider/goroutine-left", "%d goroutine(s) of the instance left after every Close call returned:\n%s", len(left), left[0])
			}
			res.NonTrivial = holding
			if holding {
				res.Class("request-held-during-close")
				if !sc.HonourCtx {
					res.Class("network-ignores-cancellation")
				}
			}
			if sc.OwnKS {
				res.Class("own-keystore")
			}
			if sc.WanPeers == 0 {
				res.Class("wan-offline")
			}
			return
		},
	})
}

var _ = errors.New
