//go:build verif

package keyspace

// C18 — keyspace region planning is exact on every input.
// Differential checks of the trie algorithms against brute-force definitions
// over explicit bit strings: exhaustively for short keys, randomly (rapid) for
// 256-bit keys drawn from prefix-indexed pools.

import (
	"fmt"
	"sort"
	"strings"
	"testing"

	"github.com/ipfs/go-libdht/kad/key/bit256"
	"github.com/ipfs/go-libdht/kad/key/bitstr"
	"github.com/ipfs/go-libdht/kad/trie"
	"github.com/libp2p/go-libp2p-kad-dht/internal/verifsim"
	"github.com/libp2p/go-libp2p/core/peer"
	mh "github.com/multiformats/go-multihash"
	"pgregory.net/rapid"
)

// ---------- helpers over plain bit strings (reference side) ----------

func allStrings(maxLen int) []string {
	out := []string{""}
	for l, start := 1, 0; l <= maxLen; l++ {
		end := len(out)
		for _, s := range out[start:end] {
			out = append(out, s+"0", s+"1")
		}
		start = end
	}
	return out
}

func stringsOfLen(l int) []string {
	out := []string{""}
	for i := 0; i < l; i++ {
		var nx []string
		for _, s := range out {
			nx = append(nx, s+"0", s+"1")
		}
		out = nx
	}
	return out
}

func isPfx(a, b string) bool { return strings.HasPrefix(b, a) }

func related(a, b string) bool { return isPfx(a, b) || isPfx(b, a) }

// prefixFreeSets enumerates every prefix-free set of bit strings of length
// <= maxLen (including the empty set and {""}).
func prefixFreeSets(maxLen int) [][]string {
	// sets(p, d): all prefix-free sets of strings under prefix p with length <= maxLen
	var rec func(p string) [][]string
	rec = func(p string) [][]string {
		out := [][]string{{}, {p}}
		if len(p) == maxLen {
			return out
		}
		l, r := rec(p+"0"), rec(p+"1")
		for _, a := range l {
			for _, b := range r {
				if len(a) == 0 && len(b) == 0 {
					continue
				}
				s := append(append([]string{}, a...), b...)
				out = append(out, s)
			}
		}
		return out
	}
	return rec("")
}

// orderLess: a comes before b in the traversal order defined by `order`
// (first differing bit equal to the order bit comes first). Only defined for
// strings without prefix relation.
func orderLess(a, b, order string) bool {
	for i := 0; i < len(a) && i < len(b); i++ {
		if a[i] != b[i] {
			return a[i] == order[i]
		}
	}
	panic("orderLess on related strings " + a + " " + b)
}

func sortByOrder(xs []string, order string) []string {
	out := append([]string{}, xs...)
	sort.Slice(out, func(i, j int) bool { return orderLess(out[i], out[j], order) })
	return out
}

func bsTrie(keys []string) *trie.Trie[bitstr.Key, int] {
	t := trie.New[bitstr.Key, int]()
	for i, k := range keys {
		t.Add(bitstr.Key(k), i)
	}
	return t
}

func trieKeys[D any](t *trie.Trie[bitstr.Key, D]) []string {
	var out []string
	for _, k := range AllKeys(t, bitstr.Key(zeros64)) {
		out = append(out, string(k))
	}
	sort.Strings(out)
	return out
}

func sortedCopy(xs []string) []string {
	out := append([]string{}, xs...)
	sort.Strings(out)
	return out
}

func eqStrs(a, b []string) bool {
	if len(a) != len(b) {
		return false
	}
	for i := range a {
		if a[i] != b[i] {
			return false
		}
	}
	return true
}

func safely(f func()) (panicked any) {
	defer func() { panicked = recover() }()
	f()
	return nil
}

// ---------- part: alloc (exhaustive, short equal-length keys) ----------

type allocSc struct {
	L     int      `json:"len"`
	Items []string `json:"items"`
	Dests []string `json:"dests"`
	K     int      `json:"k"`
}

func xorDist(a, b string) int {
	d := 0
	for i := range a {
		d <<= 1
		if a[i] != b[i] {
			d |= 1
		}
	}
	return d
}

func checkAllocBitstr(s allocSc) (res verifsim.Result) {
	items := trie.New[bitstr.Key, string]()
	for _, k := range s.Items {
		items.Add(bitstr.Key(k), k)
	}
	dests := trie.New[bitstr.Key, string]()
	for _, k := range s.Dests {
		dests.Add(bitstr.Key(k), k)
	}
	var alloc map[string][][]string
	if p := safely(func() { alloc = AllocateToKClosest(items, dests, s.K) }); p != nil {
		res.Fail("alloc/no-panic", "C18/alloc/panic", "panic %v on %+v", p, s)
		return
	}
	got := map[string]map[string]int{} // item -> dest -> count
	for d, batches := range alloc {
		for _, b := range batches {
			for _, it := range b {
				if got[it] == nil {
					got[it] = map[string]int{}
				}
				got[it][d]++
			}
		}
	}
	want := min(s.K, len(s.Dests))
	for _, it := range s.Items {
		ds := append([]string{}, s.Dests...)
		sort.Slice(ds, func(i, j int) bool { return xorDist(it, ds[i]) < xorDist(it, ds[j]) })
		exp := ds[:want]
		g := got[it]
		if len(g) != want {
			res.Fail("alloc/count", "C18/alloc/count", "item %s assigned to %d dests %v, want %d (%v) in %+v", it, len(g), g, want, exp, s)
			return
		}
		for _, d := range exp {
			if g[d] != 1 {
				res.Fail("alloc/nearest", "C18/alloc/nearest", "item %s: dest %s count %d, want exactly the nearest %v, got %v in %+v", it, d, g[d], exp, g, s)
				return
			}
		}
	}
	for it := range got {
		found := false
		for _, x := range s.Items {
			if x == it {
				found = true
			}
		}
		if !found {
			res.Fail("alloc/invented", "C18/alloc/invented", "allocated unknown item %s in %+v", it, s)
		}
	}
	res.NonTrivial = len(s.Items) >= 2 && len(s.Dests) > s.K && s.K >= 1
	return
}

func subsets(xs []string) [][]string {
	n := len(xs)
	out := make([][]string, 0, 1<<n)
	for m := 0; m < 1<<n; m++ {
		var s []string
		for i := 0; i < n; i++ {
			if m&(1<<i) != 0 {
				s = append(s, xs[i])
			}
		}
		out = append(out, s)
	}
	return out
}

func TestVerif_C18_AllocExh(t *testing.T) {
	c := verifsim.Check[allocSc]{
		Property: "C18", Part: "alloc-exh",
		Rule: "exhaustive: every item subset x destination subset x k in 0..2^L+1 over equal-length bit strings of length L<=3 " +
			"(L<=2 plus a strided third of L=3 in quick); oracle = sort destinations by integer XOR distance; " +
			"non-trivial = >=2 items, more destinations than k, k>=1; distinct by scenario digest",
		Run: func(t *testing.T, s allocSc) verifsim.Result { return checkAllocBitstr(s) },
	}
	verifsim.RunEnum(t, c, func(yield func(allocSc) bool) {
		for L := 1; L <= 3; L++ {
			keys := stringsOfLen(L)
			subs := subsets(keys)
			n := 0
			for _, it := range subs {
				for _, de := range subs {
					for k := 0; k <= len(keys)+1; k++ {
						n++
						if L == 3 && !verifsim.Thorough() && n%3 != 0 {
							continue
						}
						if !yield(allocSc{L: L, Items: it, Dests: de, K: k}) {
							return
						}
					}
				}
			}
		}
	})
}

// ---------- part: alloc (random, 256-bit keys from clustered pools) ----------

type alloc256Sc struct {
	Items []int `json:"items"` // indices into the key pool
	Dests []int `json:"dests"` // indices into the peer pool
	K     int   `json:"k"`
}

const poolSize = 1 << 13

func peerPool() *verifsim.Pool { return verifsim.NewPool("peer", poolSize) }
func keyPool() *verifsim.Pool  { return verifsim.NewPool("key", poolSize) }

// drawClustered draws a duplicate-free list of pool indices: a mix of uniform
// picks and picks under a few drawn prefixes (clusters).
func drawClustered(t *rapid.T, p *verifsim.Pool, label string, minN, maxN int, under string) []int {
	n := rapid.IntRange(minN, maxN).Draw(t, label+"N")
	nClusters := rapid.IntRange(0, 3).Draw(t, label+"Clusters")
	var prefixes []string
	for i := 0; i < nClusters; i++ {
		l := rapid.IntRange(1, 9).Draw(t, label+"PfxLen")
		pf := under
		for len(pf) < len(under)+l {
			pf += string(rune('0' + rapid.IntRange(0, 1).Draw(t, label+"PfxBit")))
		}
		prefixes = append(prefixes, pf)
	}
	base := p.WithPrefix(under)
	seen := map[int]bool{}
	var out []int
	for len(out) < n && len(seen) < len(base) {
		var cand []int
		if len(prefixes) > 0 && rapid.IntRange(0, 2).Draw(t, label+"Mode") > 0 {
			cand = p.WithPrefix(prefixes[rapid.IntRange(0, len(prefixes)-1).Draw(t, label+"Which")])
		}
		if len(cand) == 0 {
			cand = base
		}
		if len(cand) == 0 {
			break
		}
		i := cand[rapid.IntRange(0, len(cand)-1).Draw(t, label+"Idx")]
		if seen[i] {
			// deterministic probe for the next free entry of the candidate list
			free := -1
			for _, j := range cand {
				if !seen[j] {
					free = j
					break
				}
			}
			if free < 0 {
				prefixes = nil
				continue
			}
			i = free
		}
		seen[i] = true
		out = append(out, i)
	}
	return out
}

func checkAlloc256(s alloc256Sc) (res verifsim.Result) {
	pp, kp := peerPool(), keyPool()
	items := trie.New[bit256.Key, int]()
	for _, i := range s.Items {
		items.Add(bit256.NewKeyFromArray(kp.Kad[i]), i)
	}
	dests := trie.New[bit256.Key, int]()
	for _, i := range s.Dests {
		dests.Add(bit256.NewKeyFromArray(pp.Kad[i]), i)
	}
	var alloc map[int][][]int
	if p := safely(func() { alloc = AllocateToKClosest(items, dests, s.K) }); p != nil {
		res.Fail("alloc/no-panic", "C18/alloc/panic", "panic %v", p)
		return
	}
	got := map[int]map[int]int{}
	for d, batches := range alloc {
		for _, b := range batches {
			for _, it := range b {
				if got[it] == nil {
					got[it] = map[int]int{}
				}
				got[it][d]++
			}
		}
	}
	want := min(s.K, len(s.Dests))
	for _, it := range s.Items {
		ds := append([]int{}, s.Dests...)
		sort.Slice(ds, func(a, b int) bool { return verifsim.XorLess(kp.Kad[it], pp.Kad[ds[a]], pp.Kad[ds[b]]) })
		g := got[it]
		if len(g) != want {
			res.Fail("alloc/count", "C18/alloc/count", "item %d assigned to %d dests, want %d", it, len(g), want)
			return
		}
		for _, d := range ds[:want] {
			if g[d] != 1 {
				res.Fail("alloc/nearest", "C18/alloc/nearest", "item %d (%s…): dest %d (%s…) count %d; want nearest %v got %v",
					it, kp.Bits(it)[:12], d, pp.Bits(d)[:12], g[d], ds[:want], g)
				return
			}
		}
	}
	if len(got) > len(s.Items) {
		res.Fail("alloc/invented", "C18/alloc/invented", "allocated %d items, given %d", len(got), len(s.Items))
	}
	res.NonTrivial = len(s.Items) >= 3 && len(s.Dests) > s.K
	if len(s.Dests) <= s.K {
		res.Class("dests<=k")
	}
	return
}

func TestVerif_C18_Alloc256(t *testing.T) { verifsim.RunCheck(t, c18Alloc256Check()) }

// the same generator and oracle driven by Go's coverage-guided fuzzer (thorough tier)
func FuzzVerif_C18_Alloc256(f *testing.F) {
	verifsim.RunFuzz(f, c18Alloc256Check(), "TestVerif_C18_Alloc256")
}

func c18Alloc256Check() verifsim.Check[alloc256Sc] {
	return verifsim.Check[alloc256Sc]{
		Property: "C18", Part: "alloc-256",
		Rule: "rapid: 1-80 keys and 1-60 peers drawn from SHA-256 prefix-indexed pools (uniform + up to 3 clusters with 1-9 bit prefixes), k in 1..25; " +
			"oracle = bytewise XOR sort; non-trivial = >=3 items and more peers than k",
		Gen: func(t *rapid.T) alloc256Sc {
			return alloc256Sc{
				Items: drawClustered(t, keyPool(), "item", 1, 80, ""),
				Dests: drawClustered(t, peerPool(), "dest", 1, 60, ""),
				K:     rapid.IntRange(1, 25).Draw(t, "k"),
			}
		},
		Run: func(t *testing.T, s alloc256Sc) verifsim.Result { return checkAlloc256(s) },
	}
}

// ---------- part: regions + key assignment ----------

type regionsSc struct {
	Covered string `json:"covered"`
	Peers   []int  `json:"peers"`
	Keys    []int  `json:"keys"`
	Size    int    `json:"size"`
	Order   int    `json:"order"` // pool index whose kad key is the order key
}

func checkRegions(s regionsSc) (res verifsim.Result) {
	pp, kp := peerPool(), keyPool()
	peers := make([]peer.ID, len(s.Peers))
	for i, idx := range s.Peers {
		peers[i] = peer.ID(pp.IDs[idx])
	}
	order := bit256.NewKeyFromArray(kp.Kad[s.Order])
	orderBits := kp.Bits(s.Order)
	var regions []Region
	if p := safely(func() { regions = RegionsFromPeers(peers, s.Size, order, bitstr.Key(s.Covered)) }); p != nil {
		res.Fail("regions/no-panic", "C18/regions/panic", "panic %v", p)
		return
	}
	// reference
	idxOf := map[peer.ID]int{}
	for _, idx := range s.Peers {
		idxOf[peer.ID(pp.IDs[idx])] = idx
	}
	seen := map[int]int{}
	var prefixes []string
	for ri, r := range regions {
		pf := string(r.Prefix)
		prefixes = append(prefixes, pf)
		if !isPfx(s.Covered, pf) {
			res.Fail("regions/under-covered", "C18/regions/outside-covered", "region %q outside covered prefix %q", pf, s.Covered)
		}
		n := 0
		for _, e := range AllEntries(r.Peers, order) {
			idx, ok := idxOf[e.Data]
			if !ok {
				res.Fail("regions/invented", "C18/regions/invented-peer", "region %q holds unknown peer", pf)
				continue
			}
			if !isPfx(pf, pp.Bits(idx)) {
				res.Fail("regions/member-matches", "C18/regions/member-mismatch", "peer %s… in region %q", pp.Bits(idx)[:16], pf)
			}
			seen[idx]++
			n++
		}
		if n < s.Size && len(s.Peers) >= s.Size {
			res.Fail("regions/min-size", "C18/regions/too-small", "region %q has %d < %d peers (total %d)", pf, n, s.Size, len(s.Peers))
		}
		// minimality: not splittable into two halves of >= size
		c0, c1 := 0, 0
		for _, idx := range s.Peers {
			b := pp.Bits(idx)
			if isPfx(pf+"0", b) {
				c0++
			} else if isPfx(pf+"1", b) {
				c1++
			}
		}
		if c0 >= s.Size && c1 >= s.Size {
			res.Fail("regions/minimal", "C18/regions/not-minimal", "region %q could be split (%d,%d >= %d)", pf, c0, c1, s.Size)
		}
		if ri > 0 {
			prev := prefixes[ri-1]
			if related(prev, pf) {
				res.Fail("regions/disjoint", "C18/regions/overlap", "regions %q and %q overlap", prev, pf)
			} else if !orderLess(prev, pf, orderBits) {
				res.Fail("regions/ordered", "C18/regions/order", "regions %q,%q not in order %s…", prev, pf, orderBits[:8])
			}
		}
	}
	for i := range prefixes {
		for j := i + 1; j < len(prefixes); j++ {
			if related(prefixes[i], prefixes[j]) {
				res.Fail("regions/disjoint", "C18/regions/overlap", "regions %q and %q overlap", prefixes[i], prefixes[j])
			}
		}
	}
	for _, idx := range s.Peers {
		if seen[idx] != 1 {
			res.Fail("regions/partition", "C18/regions/peer-not-once", "peer %s… appears in %d regions (covered %q, regions %v)", pp.Bits(idx)[:16], seen[idx], s.Covered, prefixes)
			break
		}
	}
	// union of region prefixes = covered prefix: total measure, in units of 2^-40
	if len(s.Peers) > 0 {
		var total, want uint64
		want = 1 << uint(40-len(s.Covered))
		for _, pf := range prefixes {
			if len(pf) > 40 {
				total = 0
				want = 1 // cannot measure; skip
				break
			}
			total += 1 << uint(40-len(pf))
		}
		if want != 1 && total != want {
			res.Fail("regions/cover", "C18/regions/cover", "regions %v do not tile covered prefix %q", prefixes, s.Covered)
		}
	}
	if len(res.Violations) > 0 {
		return
	}
	// --- AssignKeysToRegions
	keys := make([]mh.Multihash, len(s.Keys))
	for i, idx := range s.Keys {
		keys[i] = mh.Multihash(kp.IDs[idx])
	}
	var assigned []Region
	if p := safely(func() { assigned = AssignKeysToRegions(regions, keys) }); p != nil {
		res.Fail("assign/no-panic", "C18/assign/panic", "panic %v", p)
		return
	}
	keyIdx := map[string]int{}
	for _, idx := range s.Keys {
		keyIdx[kp.IDs[idx]] = idx
	}
	count := map[int]int{}
	for _, r := range assigned {
		pf := string(r.Prefix)
		if r.Keys == nil {
			continue
		}
		for _, e := range AllEntries(r.Keys, order) {
			idx, ok := keyIdx[string(e.Data)]
			if !ok {
				res.Fail("assign/invented", "C18/assign/invented-key", "unknown key in region %q", pf)
				continue
			}
			count[idx]++
			kb := kp.Bits(idx)
			if !isPfx(pf, kb) {
				// fallback allowed only if no region matches, and then the region must share the longest cpl
				best := -1
				for _, q := range prefixes {
					if isPfx(q, kb) {
						res.Fail("assign/matching", "C18/assign/wrong-region", "key %s… in region %q although %q matches", kb[:16], pf, q)
					}
					if c := cplStr(q, kb); c > best {
						best = c
					}
				}
				if cplStr(pf, kb) != best {
					res.Fail("assign/fallback-nearest", "C18/assign/fallback-not-nearest", "key %s… fell back to %q (cpl %d), best cpl %d", kb[:16], pf, cplStr(pf, kb), best)
				}
			}
		}
	}
	if len(regions) > 0 {
		for _, idx := range s.Keys {
			if count[idx] != 1 {
				res.Fail("assign/exactly-once", "C18/assign/key-not-once", "key %s… assigned %d times (regions %v)", kp.Bits(idx)[:16], count[idx], prefixes)
				break
			}
		}
	}
	res.NonTrivial = len(regions) >= 2 && len(s.Keys) >= 2
	if len(regions) >= 2 {
		res.Class("multi-region")
	}
	if len(s.Peers) < s.Size {
		res.Class("fewer-peers-than-size")
	}
	return
}

func cplStr(a, b string) int {
	n := 0
	for n < len(a) && n < len(b) && a[n] == b[n] {
		n++
	}
	return n
}

func TestVerif_C18_Regions(t *testing.T) { verifsim.RunCheck(t, c18RegionsCheck()) }

// the same generator and oracle driven by Go's coverage-guided fuzzer (thorough tier)
func FuzzVerif_C18_Regions(f *testing.F) {
	verifsim.RunFuzz(f, c18RegionsCheck(), "TestVerif_C18_Regions")
}

func c18RegionsCheck() verifsim.Check[regionsSc] {
	return verifsim.Check[regionsSc]{
		Property: "C18", Part: "regions",
		Rule: "rapid: covered prefix of 0-6 bits, 1-120 peers all under it (uniform + clusters, so lopsided tries), region size 1-20, 0-60 keys " +
			"(mostly under the covered prefix, some outside), order key drawn; oracle = partition/tiling/minimality/order by definition over bit strings; " +
			"non-trivial = >=2 regions and >=2 keys",
		Gen: func(t *rapid.T) regionsSc {
			cl := rapid.IntRange(0, 6).Draw(t, "coveredLen")
			cov := ""
			for i := 0; i < cl; i++ {
				cov += string(rune('0' + rapid.IntRange(0, 1).Draw(t, "covBit")))
			}
			s := regionsSc{Covered: cov}
			s.Peers = drawClustered(t, peerPool(), "peer", 1, 120, cov)
			s.Size = rapid.IntRange(1, 20).Draw(t, "size")
			s.Keys = drawClustered(t, keyPool(), "key", 0, 50, cov)
			if rapid.Bool().Draw(t, "outsideKeys") {
				extra := drawClustered(t, keyPool(), "okey", 1, 10, "")
				have := map[int]bool{}
				for _, k := range s.Keys {
					have[k] = true
				}
				for _, k := range extra {
					if !have[k] {
						s.Keys = append(s.Keys, k)
					}
				}
			}
			s.Order = rapid.IntRange(0, poolSize-1).Draw(t, "order")
			return s
		},
		Run: func(t *testing.T, s regionsSc) verifsim.Result {
			if len(s.Peers) == 0 {
				return verifsim.Result{}
			}
			return checkRegions(s)
		},
	}
}

// ---------- part: prefix-set operations (exhaustive + random) ----------

type prefixSc struct {
	Trie   []string `json:"trie"`            // prefix-free set
	Other  []string `json:"other,omitempty"` // second prefix-free set (subtract)
	Pruned string   `json:"pruned"`          // "-" = no prune step; else prune this prefix first (structure not normalised)
	MaxLen int      `json:"maxlen"`
}

func refGapsClauses(res *verifsim.Result, keys []string, target, order string, gaps []string, L int, ctx string) {
	// (iii) pairwise disjoint, (ii) no overlap with trie keys, (iv) sorted
	for i := range gaps {
		for j := i + 1; j < len(gaps); j++ {
			if related(gaps[i], gaps[j]) {
				res.Fail("gaps/disjoint", "C18/gaps/overlapping-gaps", "%s gaps %v overlap", ctx, gaps)
				return
			}
		}
		for _, k := range keys {
			if related(gaps[i], k) {
				res.Fail("gaps/no-trie-overlap", "C18/gaps/overlaps-trie", "%s gap %q overlaps trie key %q", ctx, gaps[i], k)
				return
			}
		}
		if i > 0 && !orderLess(gaps[i-1], gaps[i], order) {
			res.Fail("gaps/sorted", "C18/gaps/order", "%s gaps %v not sorted by %s", ctx, gaps, order)
			return
		}
	}
	// (i) every leaf under target covered exactly once by trie ∪ gaps
	for _, leaf := range stringsOfLen(L) {
		if !isPfx(target, leaf) {
			continue
		}
		n := 0
		for _, k := range keys {
			if isPfx(k, leaf) {
				n++
			}
		}
		for _, g := range gaps {
			if isPfx(g, leaf) {
				n++
			}
		}
		if n != 1 {
			res.Fail("gaps/cover-once", "C18/gaps/cover", "%s leaf %s covered %d times by trie %v + gaps %v (target %q)", ctx, leaf, n, keys, gaps, target)
			return
		}
	}
	// (v) every gap overlaps the target; (vi) empty iff covered
	covered := false
	for _, k := range keys {
		if isPfx(k, target) {
			covered = true
		}
	}
	if !covered {
		// covered also when the keys under target tile it completely
		all := true
		for _, leaf := range stringsOfLen(L) {
			if !isPfx(target, leaf) {
				continue
			}
			c := false
			for _, k := range keys {
				if isPfx(k, leaf) {
					c = true
				}
			}
			if !c {
				all = false
				break
			}
		}
		covered = all
	}
	for _, g := range gaps {
		if !isPfx(target, g) { // a gap is a part of the target that nothing covers: it lies inside it (a wider prefix claims keyspace nobody asked about)
			res.Fail("gaps/inside-target", "C18/gaps/outside-target", "%s gap %q lies outside target %q (trie %v)", ctx, g, target, keys)
			return
		}
	}
	if covered != (len(gaps) == 0) {
		res.Fail("gaps/empty-iff-covered", "C18/gaps/empty-iff-covered", "%s target %q covered=%v but gaps=%v (trie %v)", ctx, target, covered, gaps, keys)
	}
}

func refNext(keys []string, k, order string) (string, bool) {
	if len(keys) == 0 {
		return "", false
	}
	srt := sortByOrder(keys, order)
	for _, x := range srt {
		if x == k {
			continue
		}
		if orderLess(k, x, order) {
			return x, true
		}
	}
	return srt[0], true
}

func refCoalesce(keys []string) []string {
	set := map[string]bool{}
	for _, k := range keys {
		set[k] = true
	}
	for changed := true; changed; {
		changed = false
		for k := range set {
			if len(k) == 0 {
				continue
			}
			sib := k[:len(k)-1] + string(rune('0'+'1'-k[len(k)-1]))
			if set[sib] {
				delete(set, k)
				delete(set, sib)
				set[k[:len(k)-1]] = true
				changed = true
				break
			}
		}
	}
	var out []string
	for k := range set {
		out = append(out, k)
	}
	sort.Strings(out)
	return out
}

func checkPrefixOps(s prefixSc) (res verifsim.Result) {
	L := s.MaxLen + 1
	probes := allStrings(L)
	orders := stringsOfLen(L)
	if L > 5 {
		// random tier: a handful of orders derived from the scenario itself
		orders = nil
		for _, k := range append(append([]string{}, s.Trie...), s.Other...) {
			o := k
			for len(o) < L {
				o += "0"
			}
			orders = append(orders, o)
			if len(orders) >= 3 {
				break
			}
		}
		orders = append(orders, strings.Repeat("0", L), strings.Repeat("1", L))
		probes = nil
		for _, k := range append(append([]string{""}, s.Trie...), s.Other...) {
			for i := 0; i <= len(k); i++ {
				probes = append(probes, k[:i])
				if i < len(k) {
					probes = append(probes, k[:i]+string(rune('0'+'1'-k[i])))
				}
			}
			if len(k) < L {
				probes = append(probes, k+"0", k+"1")
			}
		}
	}
	build := func() (*trie.Trie[bitstr.Key, int], []string) {
		t := bsTrie(s.Trie)
		keys := sortedCopy(s.Trie)
		if s.Pruned != "-" {
			PruneSubtrie(t, bitstr.Key(s.Pruned))
			var kept []string
			for _, k := range keys {
				if !isPfx(s.Pruned, k) {
					kept = append(kept, k)
				}
			}
			keys = kept
		}
		return t, keys
	}
	t, keys := build()
	ctx := fmt.Sprintf("trie=%v pruned=%q", s.Trie, s.Pruned)
	evals := 0
	// content after (optional) prune
	if got := trieKeys(t); !eqStrs(got, keys) {
		res.Fail("prune/content", "C18/prune/content", "%s: content %v want %v", ctx, got, keys)
		return
	}
	if t.Size() != len(keys) {
		res.Fail("prune/size", "C18/prune/size", "%s: size %d want %d", ctx, t.Size(), len(keys))
		return
	}
	for _, k := range probes {
		evals++
		// FindPrefixOfKey
		var wantP string
		wantOK := false
		for _, x := range keys {
			if isPfx(x, k) {
				wantP, wantOK = x, true
			}
		}
		gotP, gotOK := FindPrefixOfKey(t, bitstr.Key(k))
		if gotOK != wantOK || (wantOK && string(gotP) != wantP) {
			res.Fail("findprefix", "C18/findprefix/mismatch", "%s: FindPrefixOfKey(%q) = %q,%v want %q,%v", ctx, k, gotP, gotOK, wantP, wantOK)
			return
		}
		// FindSubtrie
		var wantSub []string
		for _, x := range keys {
			if isPfx(k, x) {
				wantSub = append(wantSub, x)
			}
		}
		sub, ok := FindSubtrie(t, bitstr.Key(k))
		if ok != (len(wantSub) > 0) {
			res.Fail("findsubtrie/ok", "C18/findsubtrie/ok", "%s: FindSubtrie(%q) ok=%v want %v", ctx, k, ok, len(wantSub) > 0)
			return
		}
		if ok {
			if got := trieKeys(sub); !eqStrs(got, wantSub) {
				res.Fail("findsubtrie/content", "C18/findsubtrie/content", "%s: FindSubtrie(%q) = %v want %v", ctx, k, got, wantSub)
				return
			}
		}
		// PruneSubtrie on a copy
		cp := t.Copy()
		PruneSubtrie(cp, bitstr.Key(k))
		var wantKept []string
		for _, x := range keys {
			if !isPfx(k, x) {
				wantKept = append(wantKept, x)
			}
		}
		if got := trieKeys(cp); !eqStrs(got, wantKept) {
			res.Fail("prune/content", "C18/prune/content", "%s: PruneSubtrie(%q) left %v want %v", ctx, k, got, wantKept)
			return
		}
		// TrieGaps at target k, all orders
		for _, o := range orders {
			evals++
			var gaps []string
			if p := safely(func() {
				for _, g := range TrieGaps(t, bitstr.Key(k), bitstr.Key(o)) {
					gaps = append(gaps, string(g))
				}
			}); p != nil {
				res.Fail("gaps/no-panic", "C18/gaps/panic", "%s: TrieGaps(%q,%s) panicked: %v", ctx, k, o, p)
				return
			}
			n := len(res.Violations)
			if L <= 5 {
				refGapsClauses(&res, keys, k, o, gaps, L, ctx)
			} else {
				refGapsClausesLong(&res, keys, k, o, gaps, ctx)
			}
			if len(res.Violations) > n {
				return
			}
		}
		// NextNonEmptyLeaf on the caller domain: k in the trie or unrelated to every key
		inDomain := true
		member := false
		for _, x := range keys {
			if x == k {
				member = true
			} else if related(x, k) {
				inDomain = false
			}
		}
		_ = member
		for _, o := range orders {
			if !inDomain {
				// outside the domain the callers use (k related to a stored key): successor undefined, not called
				break
			}
			evals++
			var got *trie.Entry[bitstr.Key, int]
			if p := safely(func() { got = NextNonEmptyLeaf(t, bitstr.Key(k), bitstr.Key(o)) }); p != nil {
				res.Fail("next/no-panic", "C18/next/panic", "%s: NextNonEmptyLeaf(%q,%s) panicked: %v", ctx, k, o, p)
				return
			}
			if !inDomain {
				continue
			}
			want, ok := refNext(keys, k, o)
			if !ok {
				if got != nil {
					res.Fail("next/empty", "C18/next/empty", "%s: next on empty trie = %v", ctx, got.Key)
					return
				}
				continue
			}
			if got == nil || string(got.Key) != want {
				g := "<nil>"
				if got != nil {
					g = string(got.Key)
				}
				res.Fail("next/successor", "C18/next/successor", "%s: NextNonEmptyLeaf(%q, order %s) = %s want %q (keys %v)", ctx, k, o, g, want, keys)
				return
			}
		}
	}
	// KeyspaceCovered
	{
		evals++
		want := true
		if L <= 5 {
			for _, leaf := range stringsOfLen(L) {
				c := false
				for _, x := range keys {
					if isPfx(x, leaf) {
						c = true
					}
				}
				if !c {
					want = false
					break
				}
			}
		} else {
			// measure-based reference for long keys (prefix-free set)
			var tot uint64
			for _, x := range keys {
				tot += 1 << uint(40-len(x))
			}
			want = tot == 1<<40
		}
		if got := KeyspaceCovered(t); got != want {
			res.Fail("covered", "C18/covered/mismatch", "%s: KeyspaceCovered=%v want %v (keys %v)", ctx, got, want, keys)
			return
		}
	}
	// CoalesceTrie
	{
		evals++
		cp := t.Copy()
		CoalesceTrie(cp)
		if got, want := trieKeys(cp), refCoalesce(keys); !eqStrs(got, want) {
			res.Fail("coalesce", "C18/coalesce/mismatch", "%s: CoalesceTrie = %v want %v", ctx, got, want)
			return
		}
	}
	// SubtractTrie
	if s.Other != nil {
		evals++
		o := bsTrie(s.Other)
		var want []string
		for _, x := range keys {
			cov := false
			for _, y := range s.Other {
				if isPfx(y, x) {
					cov = true
				}
			}
			if !cov {
				want = append(want, x)
			}
		}
		sort.Strings(want)
		var got []string
		if p := safely(func() { got = trieKeys(SubtractTrie(t, o)) }); p != nil {
			res.Fail("subtract/no-panic", "C18/subtract/panic", "%s minus %v panicked: %v", ctx, s.Other, p)
			return
		}
		if !eqStrs(got, want) {
			res.Fail("subtract", "C18/subtract/mismatch", "%s minus %v = %v want %v", ctx, s.Other, got, want)
			return
		}
	}
	res.Weight = evals
	nEmptyBranch := false
	for _, k := range keys {
		for i := 1; i <= len(k); i++ {
			sib := k[:i-1] + string(rune('0'+'1'-k[i-1]))
			has := false
			for _, x := range keys {
				if related(x, sib) {
					has = true
				}
			}
			if !has {
				nEmptyBranch = true
			}
		}
	}
	res.NonTrivial = len(keys) >= 3 && nEmptyBranch
	if s.Pruned != "-" {
		res.Class("after-prune")
	}
	return
}

// refGapsClausesLong: clause checks for long keys without enumerating leaves
// (measure-based cover check in units of 2^-40).
func refGapsClausesLong(res *verifsim.Result, keys []string, target, order string, gaps []string, ctx string) {
	for i := range gaps {
		for j := i + 1; j < len(gaps); j++ {
			if related(gaps[i], gaps[j]) {
				res.Fail("gaps/disjoint", "C18/gaps/overlapping-gaps", "%s gaps %v overlap", ctx, gaps)
				return
			}
		}
		for _, k := range keys {
			if related(gaps[i], k) {
				res.Fail("gaps/no-trie-overlap", "C18/gaps/overlaps-trie", "%s gap %q overlaps trie key %q", ctx, gaps[i], k)
				return
			}
		}
		if i > 0 && !orderLess(gaps[i-1], gaps[i], order) {
			res.Fail("gaps/sorted", "C18/gaps/order", "%s gaps %v not sorted by %s", ctx, gaps, order)
			return
		}
		if !isPfx(target, gaps[i]) {
			res.Fail("gaps/inside-target", "C18/gaps/outside-target", "%s gap %q lies outside target %q (trie %v)", ctx, gaps[i], target, keys)
			return
		}
	}
	// measure of target covered by keys ∪ gaps must equal measure of target
	var tot uint64
	coveredByShorter := false
	for _, k := range keys {
		if isPfx(k, target) {
			coveredByShorter = true
		} else if isPfx(target, k) {
			tot += 1 << uint(40-len(k))
		}
	}
	keyTot := tot
	want := uint64(1) << uint(40-len(target))
	for _, g := range gaps {
		if isPfx(target, g) {
			tot += 1 << uint(40-len(g))
		} else if isPfx(g, target) {
			// an uncovered prefix broader than the target covers all of it (same as the leaf-based clause)
			tot += want
		}
	}
	if coveredByShorter {
		if len(gaps) != 0 {
			res.Fail("gaps/empty-iff-covered", "C18/gaps/empty-iff-covered", "%s target %q covered by a shorter key but gaps=%v", ctx, target, gaps)
		}
		return
	}
	if tot != want {
		res.Fail("gaps/cover-once", "C18/gaps/cover", "%s target %q: trie %v + gaps %v do not tile the target", ctx, target, keys, gaps)
		return
	}
	if (keyTot == want) != (len(gaps) == 0) {
		res.Fail("gaps/empty-iff-covered", "C18/gaps/empty-iff-covered", "%s target %q covered=%v but gaps=%v", ctx, target, keyTot == want, gaps)
	}
}

func TestVerif_C18_PrefixOpsExh(t *testing.T) {
	c := verifsim.Check[prefixSc]{
		Property: "C18", Part: "prefixops-exh",
		Rule: "exhaustive: every prefix-free set of bit strings of length <=3 (677 sets), fresh and after pruning each possible prefix " +
			"(un-normalised trie shapes), x every probe key of length <=4 x all 16 order keys for FindPrefixOfKey/FindSubtrie/PruneSubtrie/TrieGaps/" +
			"NextNonEmptyLeaf (caller domain)/KeyspaceCovered/CoalesceTrie, and every pair of sets for SubtractTrie (strided in quick); " +
			"non-trivial = >=3 keys and an empty branch on some key path",
		Run: func(t *testing.T, s prefixSc) verifsim.Result { return checkPrefixOps(s) },
	}
	sets := prefixFreeSets(3)
	verifsim.RunEnum(t, c, func(yield func(prefixSc) bool) {
		n := 0
		for _, set := range sets {
			if !yield(prefixSc{Trie: set, Pruned: "-", MaxLen: 3}) {
				return
			}
			for _, p := range allStrings(3) {
				// prune only when it removes something but not everything (else it is the fresh case of another set)
				rm := 0
				for _, k := range set {
					if isPfx(p, k) {
						rm++
					}
				}
				if rm == 0 || rm == len(set) {
					continue
				}
				n++
				if !verifsim.Thorough() && n%4 != 0 {
					continue
				}
				if !yield(prefixSc{Trie: set, Pruned: p, MaxLen: 3}) {
					return
				}
			}
		}
	})
}

func TestVerif_C18_SubtractExh(t *testing.T) {
	c := verifsim.Check[prefixSc]{
		Property: "C18", Part: "subtract-exh",
		Rule: "exhaustive: SubtractTrie over every ordered pair of prefix-free sets of strings of length <=3 (quick: every 5th pair); " +
			"oracle = set filter by prefix relation; non-trivial as prefixops",
		Run: func(t *testing.T, s prefixSc) (res verifsim.Result) {
			t0, t1 := bsTrie(s.Trie), bsTrie(s.Other)
			var want []string
			for _, x := range s.Trie {
				cov := false
				for _, y := range s.Other {
					if isPfx(y, x) {
						cov = true
					}
				}
				if !cov {
					want = append(want, x)
				}
			}
			sort.Strings(want)
			var got []string
			if p := safely(func() { got = trieKeys(SubtractTrie(t0, t1)) }); p != nil {
				res.Fail("subtract/no-panic", "C18/subtract/panic", "%v minus %v panicked: %v", s.Trie, s.Other, p)
				return
			}
			if !eqStrs(got, want) {
				res.Fail("subtract", "C18/subtract/mismatch", "%v minus %v = %v want %v", s.Trie, s.Other, got, want)
			}
			res.NonTrivial = len(s.Trie) >= 2 && len(s.Other) >= 1 && len(want) != len(s.Trie)
			return
		},
	}
	sets := prefixFreeSets(3)
	verifsim.RunEnum(t, c, func(yield func(prefixSc) bool) {
		n := 0
		for _, a := range sets {
			for _, b := range sets {
				n++
				if !verifsim.Thorough() && n%5 != 0 {
					continue
				}
				if !yield(prefixSc{Trie: a, Other: b, Pruned: "-", MaxLen: 3}) {
					return
				}
			}
		}
	})
}

// drawPrefixFree builds a prefix-free set the way the callers maintain one:
// skip a new prefix if a prefix of it is present, else prune its superstrings
// and add it.
func drawPrefixFree(t *rapid.T, label string, maxLen, maxN int) []string {
	n := rapid.IntRange(0, maxN).Draw(t, label+"N")
	var set []string
	for i := 0; i < n; i++ {
		l := rapid.IntRange(0, maxLen).Draw(t, label+"Len")
		var sb strings.Builder
		// extend an existing key's prefix with some probability to get deep lopsided tries
		if len(set) > 0 && rapid.IntRange(0, 2).Draw(t, label+"Ext") > 0 {
			base := set[rapid.IntRange(0, len(set)-1).Draw(t, label+"Base")]
			cut := rapid.IntRange(0, len(base)).Draw(t, label+"Cut")
			sb.WriteString(base[:cut])
		}
		for sb.Len() < l {
			sb.WriteByte(byte('0' + rapid.IntRange(0, 1).Draw(t, label+"Bit")))
		}
		k := sb.String()
		if len(k) > maxLen {
			k = k[:maxLen]
		}
		skip := false
		for _, x := range set {
			if isPfx(x, k) {
				skip = true
			}
		}
		if skip {
			continue
		}
		var kept []string
		for _, x := range set {
			if !isPfx(k, x) {
				kept = append(kept, x)
			}
		}
		set = append(kept, k)
	}
	sort.Strings(set)
	return set
}

func TestVerif_C18_PrefixOpsRand(t *testing.T) { verifsim.RunCheck(t, c18PrefixOpsRandCheck()) }

// the same generator and oracle driven by Go's coverage-guided fuzzer (thorough tier)
func FuzzVerif_C18_PrefixOpsRand(f *testing.F) {
	verifsim.RunFuzz(f, c18PrefixOpsRandCheck(), "TestVerif_C18_PrefixOpsRand")
}

func c18PrefixOpsRandCheck() verifsim.Check[prefixSc] {
	return verifsim.Check[prefixSc]{
		Property: "C18", Part: "prefixops-rand",
		Rule: "rapid: prefix-free sets of up to 14 bit strings of length <=12 built the way the callers maintain them (deep, lopsided), optional prune step, " +
			"probes = every prefix/sibling/child of every key, orders derived from keys; measure-based clause oracles; non-trivial as prefixops-exh",
		Gen: func(t *rapid.T) prefixSc {
			s := prefixSc{MaxLen: 12, Pruned: "-"}
			s.Trie = drawPrefixFree(t, "a", 12, 14)
			s.Other = drawPrefixFree(t, "b", 12, 8)
			if s.Other == nil {
				s.Other = []string{}
			}
			if len(s.Trie) > 1 && rapid.Bool().Draw(t, "prune") {
				k := s.Trie[rapid.IntRange(0, len(s.Trie)-1).Draw(t, "pruneKey")]
				s.Pruned = k[:rapid.IntRange(0, len(k)).Draw(t, "pruneCut")]
			}
			return s
		},
		Run: func(t *testing.T, s prefixSc) verifsim.Result { return checkPrefixOps(s) },
	}
}

// ---------- part: ShortestCoveredPrefix ----------

type scpSc struct {
	Target int   `json:"target"` // key pool index: the 256-bit target
	Peers  []int `json:"peers"`
	Short  int   `json:"short,omitempty"` // n > 0: the target is cut to its first n-1 bits (a prefix, as the exported signature allows)
}

func TestVerif_C18_ShortestCovered(t *testing.T) {
	verifsim.RunCheck(t, verifsim.Check[scpSc]{
		Property: "C18", Part: "shortest-covered",
		Rule: "rapid: 256-bit target (as the callers pass) or, in 30% of the cases, a prefix target of 0-9 bits (half of them with every peer under it: only no-panic is asked there), and 1-40 distinct peers, clustered around the target's prefix; oracle = " +
			"prefix target[:minCPL+1] and the peers with CPL>minCPL; non-trivial = >=3 peers with >=2 distinct CPLs",
		Gen: func(t *rapid.T) scpSc {
			s := scpSc{Target: rapid.IntRange(0, poolSize-1).Draw(t, "target")}
			if verifsim.Chance(t, "short", 30) {
				s.Short = 1 + rapid.IntRange(0, 9).Draw(t, "shortLen")
			}
			under := keyPool().Bits(s.Target)[:rapid.IntRange(0, 8).Draw(t, "nearBits")]
			if s.Short > 0 && rapid.Bool().Draw(t, "allInside") {
				// every peer under the short target
				s.Peers = drawClustered(t, peerPool(), "ipeer", 1, 12, keyPool().Bits(s.Target)[:s.Short-1])
				return s
			}
			s.Peers = drawClustered(t, peerPool(), "peer", 1, 40, "")
			if rapid.Bool().Draw(t, "near") {
				have := map[int]bool{}
				for _, p := range s.Peers {
					have[p] = true
				}
				for _, p := range drawClustered(t, peerPool(), "npeer", 0, 20, under) {
					if !have[p] {
						s.Peers = append(s.Peers, p)
					}
				}
			}
			return s
		},
		Run: func(t *testing.T, s scpSc) (res verifsim.Result) {
			pp, kp := peerPool(), keyPool()
			if len(s.Peers) == 0 {
				return
			}
			target := kp.Bits(s.Target)
			if s.Short > 0 {
				target = target[:s.Short-1]
			}
			peers := make([]peer.ID, len(s.Peers))
			for i, idx := range s.Peers {
				peers[i] = peer.ID(pp.IDs[idx])
			}
			var gotP bitstr.Key
			var gotPeers []peer.ID
			if p := safely(func() { gotP, gotPeers = ShortestCoveredPrefix(bitstr.Key(target), peers) }); p != nil {
				res.Fail("scp/no-panic", "C18/scp/panic", "panic %v", p)
				return
			}
			minCpl := 257
			cpls := map[int]bool{}
			cplOf := func(idx int) int {
				c := verifsim.CPL(kp.Kad[s.Target], pp.Kad[idx])
				if c > len(target) {
					c = len(target)
				}
				return c
			}
			for _, idx := range s.Peers {
				c := cplOf(idx)
				cpls[c] = true
				if c < minCpl {
					minCpl = c
				}
			}
			if s.Short > 0 {
				res.Class("prefix-target")
				if minCpl == len(target) {
					// every peer lies under the prefix target: the documentation does not say what is covered then; no panic is all that is asked
					res.Class("prefix-target-all-peers-inside")
					res.NonTrivial = len(s.Peers) >= 2
					return
				}
			}
			var wantPrefix string
			want := map[peer.ID]bool{}
			if len(s.Peers) == 1 {
				// documented: single peer => its full key if it matches target (never for a 256-bit target), else "" and no peers
				wantPrefix = ""
			} else {
				wantPrefix = target[:minCpl+1]
				for _, idx := range s.Peers {
					if cplOf(idx) > minCpl {
						want[peer.ID(pp.IDs[idx])] = true
					}
				}
			}
			if string(gotP) != wantPrefix {
				res.Fail("scp/prefix", "C18/scp/prefix", "covered prefix %q want %q", gotP, wantPrefix)
				return
			}
			if len(gotPeers) != len(want) {
				res.Fail("scp/peers", "C18/scp/peers", "covered peers %d want %d", len(gotPeers), len(want))
				return
			}
			for _, p := range gotPeers {
				if !want[p] {
					res.Fail("scp/peers", "C18/scp/peers", "covered peer outside prefix %q", wantPrefix)
					return
				}
			}
			res.NonTrivial = len(s.Peers) >= 3 && len(cpls) >= 2
			return
		},
	})
}

const zeros64 = "0000000000000000000000000000000000000000000000000000000000000000"
