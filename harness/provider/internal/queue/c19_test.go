//go:build verif

package queue

// C19 — provide and reprovide queues never lose, duplicate or misorder work.
// Model-based (state machine) test against a list-of-prefixes + key-set
// reference model, including persist -> drain round trips.

import (
	"context"
	"fmt"
	"sort"
	"strings"
	"testing"

	ds "github.com/ipfs/go-datastore"
	"github.com/ipfs/go-datastore/query"
	dssync "github.com/ipfs/go-datastore/sync"
	"github.com/ipfs/go-libdht/kad/key/bitstr"
	"github.com/libp2p/go-libp2p-kad-dht/internal/verifsim"
	"github.com/libp2p/go-libp2p-kad-dht/provider/internal/keyspace"
	mh "github.com/multiformats/go-multihash"
	"pgregory.net/rapid"
)

const c19Pool = 1 << 12

func kpool() *verifsim.Pool { return verifsim.NewPool("key", c19Pool) }

type pqOp struct {
	Op     string `json:"op"` // enq deq deqm rm clear restart
	Prefix string `json:"prefix,omitempty"`
	Keys   []int  `json:"keys,omitempty"`  // enq: ranks among pool keys under Prefix; rm: ranks among queued keys (or pool index if Raw)
	Raw    bool   `json:"raw,omitempty"`   // rm: Keys are pool indices (possibly not queued)
	Batch  int    `json:"batch,omitempty"` // restart: persist batch size
	Pre    []pqOp `json:"pre,omitempty"`   // restart: enqueues applied to the fresh queue before draining (additive drain)
	Twice  bool   `json:"twice,omitempty"` // restart: persist twice (second persist must replace the first)
}

type pqSc struct {
	Ops []pqOp `json:"ops"`
}

type pqModel struct {
	order []string
	keys  map[int]bool
}

func (m *pqModel) under(p string) []int {
	kp := kpool()
	var out []int
	for k := range m.keys {
		if strings.HasPrefix(kp.Bits(k), p) {
			out = append(out, k)
		}
	}
	sort.Ints(out)
	return out
}

func (m *pqModel) push(p string) {
	first := -1
	var kept []string
	for i, e := range m.order {
		if strings.HasPrefix(e, p) {
			if first < 0 {
				first = i
			}
			continue
		}
		kept = append(kept, e)
	}
	if first >= 0 {
		// insert at position of the first removed superstring (index among the original list)
		// position among kept = number of kept entries that were before `first`
		pos := 0
		for i, e := range m.order {
			if i >= first {
				break
			}
			if !strings.HasPrefix(e, p) {
				pos++
			}
		}
		out := append([]string{}, kept[:pos]...)
		out = append(out, p)
		out = append(out, kept[pos:]...)
		m.order = out
		return
	}
	for _, e := range m.order {
		if strings.HasPrefix(p, e) {
			return
		}
	}
	m.order = append(m.order, p)
}

func (m *pqModel) enqueue(p string, ks []int) {
	if len(ks) == 0 {
		return
	}
	m.push(p)
	for _, k := range ks {
		m.keys[k] = true
	}
}

func (m *pqModel) removeSuper(p string) bool {
	removed := false
	var kept []string
	for _, e := range m.order {
		if strings.HasPrefix(e, p) {
			removed = true
			continue
		}
		kept = append(kept, e)
	}
	m.order = kept
	return removed
}

func (m *pqModel) dequeue() (string, []int, bool) {
	if len(m.order) == 0 {
		return "", nil, false
	}
	p := m.order[0]
	m.order = m.order[1:]
	ks := m.under(p)
	for _, k := range ks {
		delete(m.keys, k)
	}
	return p, ks, true
}

func (m *pqModel) dequeueMatching(p string) []int {
	ks := m.under(p)
	if len(ks) == 0 {
		return nil
	}
	for _, k := range ks {
		delete(m.keys, k)
	}
	if !m.removeSuper(p) {
		for _, e := range m.order {
			if strings.HasPrefix(p, e) {
				if len(m.under(e)) == 0 {
					m.removeSuper(e)
				}
				break
			}
		}
	}
	return ks
}

func (m *pqModel) remove(ks []int) {
	kp := kpool()
	touched := map[string]bool{}
	for _, k := range ks {
		delete(m.keys, k)
		for _, e := range m.order {
			if strings.HasPrefix(kp.Bits(k), e) {
				touched[e] = true
			}
		}
	}
	var kept []string
	for _, e := range m.order {
		if touched[e] && len(m.under(e)) == 0 {
			continue
		}
		kept = append(kept, e)
	}
	m.order = kept
}

// invariants of the abstract state (the statement of the property)
func (m *pqModel) invariants() string {
	kp := kpool()
	for i, a := range m.order {
		for j, b := range m.order {
			if i != j && strings.HasPrefix(a, b) {
				return fmt.Sprintf("overlapping prefixes %q %q", a, b)
			}
		}
		if len(m.under(a)) == 0 {
			return fmt.Sprintf("prefix %q without keys", a)
		}
	}
	for k := range m.keys {
		n := 0
		for _, e := range m.order {
			if strings.HasPrefix(kp.Bits(k), e) {
				n++
			}
		}
		if n != 1 {
			return fmt.Sprintf("key %d under %d prefixes", k, n)
		}
	}
	return ""
}

func mhsOf(ks []int) []mh.Multihash {
	kp := kpool()
	out := make([]mh.Multihash, len(ks))
	for i, k := range ks {
		out[i] = mh.Multihash(kp.IDs[k])
	}
	return out
}

func idxOf(hs []mh.Multihash) ([]int, bool) {
	kp := kpool()
	pos := poolIndex()
	out := make([]int, 0, len(hs))
	for _, h := range hs {
		i, ok := pos[string(h)]
		if !ok || kp.IDs[i] != string(h) {
			return nil, false
		}
		out = append(out, i)
	}
	sort.Ints(out)
	return out, true
}

var poolIdx map[string]int

func poolIndex() map[string]int {
	if poolIdx == nil {
		kp := kpool()
		poolIdx = make(map[string]int, len(kp.IDs))
		for i, id := range kp.IDs {
			poolIdx[id] = i
		}
	}
	return poolIdx
}

func eqInts(a, b []int) bool {
	if len(a) != len(b) {
		return false
	}
	for i := range a {
		if a[i] != b[i] {
			return false
		}
	}
	return true
}

// resolve enqueue ranks to distinct pool indices under the prefix
func resolveEnq(p string, ranks []int) []int {
	cand := kpool().WithPrefix(p)
	if len(cand) == 0 {
		return nil
	}
	seen := map[int]bool{}
	var out []int
	for _, r := range ranks {
		k := cand[r%len(cand)]
		if !seen[k] {
			seen[k] = true
			out = append(out, k)
		}
	}
	return out
}

func compareState(res *verifsim.Result, q *ProvideQueue, m *pqModel, step string) bool {
	// internal order
	var got []string
	for p := range q.queue.queue.Iter() {
		got = append(got, string(p))
	}
	if strings.Join(got, ",") != strings.Join(m.order, ",") {
		res.Fail("queue/order", "C19/provide/order", "%s: prefix order %v, model %v", step, got, m.order)
		return false
	}
	if q.NumRegions() != len(m.order) {
		res.Fail("queue/regions", "C19/provide/numregions", "%s: NumRegions %d, model %d", step, q.NumRegions(), len(m.order))
		return false
	}
	if q.Size() != len(m.keys) {
		res.Fail("queue/size", "C19/provide/size", "%s: Size %d, model %d", step, q.Size(), len(m.keys))
		return false
	}
	if q.IsEmpty() != (len(m.keys) == 0) {
		res.Fail("queue/empty", "C19/provide/isempty", "%s: IsEmpty %v, model has %d keys", step, q.IsEmpty(), len(m.keys))
		return false
	}
	all, ok := idxOf(keyspace.AllValues(q.keys, zeroKey))
	var want []int
	for k := range m.keys {
		want = append(want, k)
	}
	sort.Ints(want)
	if !ok || !eqInts(all, want) {
		res.Fail("queue/keys", "C19/provide/keys", "%s: keys %v, model %v", step, all, want)
		return false
	}
	// the prefix trie must mirror the deque
	var tk []string
	for _, k := range keyspace.AllKeys(q.queue.prefixes, zeroKey) {
		tk = append(tk, string(k))
	}
	sort.Strings(tk)
	so := append([]string{}, m.order...)
	sort.Strings(so)
	if strings.Join(tk, ",") != strings.Join(so, ",") {
		res.Fail("queue/prefix-trie", "C19/provide/prefix-trie", "%s: prefix trie %v, deque %v", step, tk, so)
		return false
	}
	if msg := m.invariants(); msg != "" {
		res.Fail("queue/invariant", "C19/provide/invariant", "%s: %s (order %v)", step, msg, m.order)
		return false
	}
	return true
}

func runPQ(s pqSc) (res verifsim.Result) {
	ctx := context.Background()
	q := NewProvideQueue()
	m := &pqModel{keys: map[int]bool{}}
	absorbed, restarts, emptyPfx, deqNonEmpty, widePersist := 0, 0, 0, 0, 0
	for i, op := range s.Ops {
		step := fmt.Sprintf("step %d %s(%q)", i, op.Op, op.Prefix)
		switch op.Op {
		case "enq":
			ks := resolveEnq(op.Prefix, op.Keys)
			before := len(m.order)
			hadSuper := false
			for _, e := range m.order {
				if e != op.Prefix && strings.HasPrefix(e, op.Prefix) {
					hadSuper = true
				}
			}
			q.Enqueue(bitstr.Key(op.Prefix), mhsOf(ks)...)
			m.enqueue(op.Prefix, ks)
			if hadSuper && len(ks) > 0 {
				absorbed++
			}
			_ = before
			if op.Prefix == "" && len(ks) > 0 {
				emptyPfx++
			}
		case "deq":
			gp, gk, gok := q.Dequeue()
			wp, wk, wok := m.dequeue()
			gi, ok := idxOf(gk)
			if gok != wok || (wok && (string(gp) != wp || !ok || !eqInts(gi, wk))) {
				res.Fail("dequeue", "C19/provide/dequeue", "%s: got (%q,%v,%v) want (%q,%v,%v)", step, gp, gi, gok, wp, wk, wok)
				return
			}
			if wok {
				deqNonEmpty++
			}
		case "deqm":
			gk := q.DequeueMatching(bitstr.Key(op.Prefix))
			wk := m.dequeueMatching(op.Prefix)
			gi, ok := idxOf(gk)
			if !ok || !eqInts(gi, wk) {
				res.Fail("dequeue-matching", "C19/provide/dequeue-matching", "%s: got %v want %v", step, gi, wk)
				return
			}
		case "rm":
			var ks []int
			if op.Raw {
				for _, k := range op.Keys {
					ks = append(ks, k%c19Pool)
				}
			} else {
				var cur []int
				for k := range m.keys {
					cur = append(cur, k)
				}
				sort.Ints(cur)
				for _, r := range op.Keys {
					if len(cur) > 0 {
						ks = append(ks, cur[r%len(cur)])
					}
				}
			}
			q.Remove(mhsOf(ks)...)
			m.remove(ks)
		case "clear":
			n := q.Clear()
			if n != len(m.keys) {
				res.Fail("clear", "C19/provide/clear", "%s: Clear returned %d, model %d", step, n, len(m.keys))
				return
			}
			m.order, m.keys = nil, map[int]bool{}
		case "restart":
			restarts++
			if len(m.order) > 10 {
				widePersist++
			}
			d := dssync.MutexWrap(ds.NewMapDatastore())
			batch := op.Batch
			if batch < 1 {
				batch = 1
			}
			if op.Twice {
				// a stale earlier persist of a different state must be replaced
				stale := NewProvideQueue()
				stale.Enqueue("0110", mhsOf(resolveEnq("0110", []int{1, 2, 3}))...)
				stale.Enqueue("", mhsOf(resolveEnq("", []int{5}))...)
				stale.Enqueue("111", mhsOf(resolveEnq("111", []int{9}))...)
				if err := stale.Persist(ctx, d, batch); err != nil {
					res.Fail("persist/error", "C19/persist/error", "%s: %v", step, err)
					return
				}
			}
			if err := q.Persist(ctx, d, batch); err != nil {
				res.Fail("persist/error", "C19/persist/error", "%s: %v", step, err)
				return
			}
			if !compareState(&res, q, m, step+" after persist (must not modify the queue)") {
				return
			}
			nq := NewProvideQueue()
			nm := &pqModel{keys: map[int]bool{}}
			for _, pre := range op.Pre {
				ks := resolveEnq(pre.Prefix, pre.Keys)
				nq.Enqueue(bitstr.Key(pre.Prefix), mhsOf(ks)...)
				nm.enqueue(pre.Prefix, ks)
			}
			// model of an additive drain: enqueue each persisted (prefix, keys) in order
			for _, p := range m.order {
				nm.enqueue(p, m.under(p))
			}
			if err := nq.DrainDatastore(ctx, d); err != nil {
				res.Fail("drain/error", "C19/drain/error", "%s: %v", step, err)
				return
			}
			sig := "C19/persist-drain/mismatch"
			for _, p := range m.order {
				if p == "" {
					sig = "C19/persist-drain/empty-prefix"
				}
			}
			var r2 verifsim.Result
			if !compareState(&r2, nq, nm, step+" after drain") {
				res.Fail("persist-drain/restores", sig, "%s: persisted order %q; %s", step, m.order, r2.Violations[0].Detail)
				return
			}
			// drained entries are deleted from the datastore
			qr, err := d.Query(ctx, query.Query{KeysOnly: true})
			if err == nil {
				es, _ := qr.Rest()
				if len(es) != 0 {
					res.Fail("drain/deletes", "C19/drain/leftover", "%s: %d datastore entries left after drain, first %q", step, len(es), es[0].Key)
					return
				}
			}
			q, m = nq, nm
		}
		if !compareState(&res, q, m, step) {
			return
		}
	}
	// final: drain by Dequeue and compare the full sequence
	for {
		gp, gk, gok := q.Dequeue()
		wp, wk, wok := m.dequeue()
		gi, ok := idxOf(gk)
		if gok != wok || (wok && (string(gp) != wp || !ok || !eqInts(gi, wk))) {
			res.Fail("dequeue", "C19/provide/dequeue", "final drain: got (%q,%v,%v) want (%q,%v,%v)", gp, gi, gok, wp, wk, wok)
			return
		}
		if !wok {
			break
		}
		deqNonEmpty++
	}
	res.NonTrivial = absorbed > 0 || restarts > 0
	if absorbed > 0 {
		res.Class("absorption")
	}
	if restarts > 0 {
		res.Class("persist-drain")
	}
	if emptyPfx > 0 {
		res.Class("empty-prefix")
	}
	if deqNonEmpty > 1 {
		res.Class("multi-dequeue")
	}
	if widePersist > 0 {
		res.Class("persist-drain-of-more-than-10-regions")
	}
	return
}

func drawPrefix(t *rapid.T, label string) string {
	l := rapid.IntRange(0, 6).Draw(t, label+"Len")
	if l == 0 && rapid.IntRange(0, 3).Draw(t, label+"EmptyOK") != 0 {
		l = rapid.IntRange(1, 6).Draw(t, label+"Len2")
	}
	var sb strings.Builder
	for i := 0; i < l; i++ {
		// biased bits: prefixes cluster so that nesting is common
		b := 0
		if rapid.IntRange(0, 3).Draw(t, label+"Bit") == 0 {
			b = 1
		}
		sb.WriteByte(byte('0' + b))
	}
	return sb.String()
}

func drawEnq(t *rapid.T, label string) pqOp {
	return pqOp{Op: "enq", Prefix: drawPrefix(t, label), Keys: rapid.SliceOfN(rapid.IntRange(0, 40), 0, 4).Draw(t, label+"Keys")}
}

func drawPQOp(t *rapid.T) pqOp {
	switch rapid.IntRange(0, 11).Draw(t, "kind") {
	case 0, 1, 2, 3, 4:
		return drawEnq(t, "enq")
	case 5, 6:
		return pqOp{Op: "deq"}
	case 7:
		return pqOp{Op: "deqm", Prefix: drawPrefix(t, "deqm")}
	case 8:
		return pqOp{Op: "rm", Keys: rapid.SliceOfN(rapid.IntRange(0, 1<<20), 1, 4).Draw(t, "rmKeys"), Raw: rapid.IntRange(0, 4).Draw(t, "raw") == 0}
	case 9:
		if rapid.IntRange(0, 3).Draw(t, "clearOK") == 0 {
			return pqOp{Op: "clear"}
		}
		return drawEnq(t, "enq")
	default:
		op := pqOp{Op: "restart", Batch: rapid.IntRange(1, 4).Draw(t, "batch"), Twice: rapid.IntRange(0, 3).Draw(t, "twice") == 0}
		op.Pre = rapid.SliceOfN(rapid.Custom(func(t *rapid.T) pqOp { return drawEnq(t, "pre") }), 0, 2).Draw(t, "pre")
		return op
	}
}

func genPQ(t *rapid.T) pqSc {
	ops := rapid.SliceOfN(rapid.Custom(drawPQOp), 1, 30).Draw(t, "ops")
	if verifsim.Chance(t, "wide", 12) {
		// a wide queue: 11-24 disjoint regions of one depth enqueued in a drawn order and persisted soon after (positions with
		// more than one digit, in any base; more entries than any batch size)
		l := rapid.IntRange(4, 6).Draw(t, "wideLen")
		vals := rapid.Permutation(seqInts(1 << l)).Draw(t, "wideVals")
		n := rapid.IntRange(11, min(1<<l, 24)).Draw(t, "wideN")
		var burst []pqOp
		for _, v := range vals[:n] {
			burst = append(burst, pqOp{Op: "enq", Prefix: fmt.Sprintf("%0*b", l, v), Keys: []int{v}})
		}
		burst = append(burst, pqOp{Op: "restart", Batch: rapid.SampledFrom([]int{1, 2, 3, 4, 7, 10, 16, 50}).Draw(t, "wideBatch"), Twice: verifsim.Chance(t, "wideTwice", 25)})
		at := rapid.IntRange(0, len(ops)).Draw(t, "wideAt")
		ops = append(append(append([]pqOp{}, ops[:at]...), burst...), ops[at:]...)
	}
	return pqSc{Ops: ops}
}

func seqInts(n int) []int {
	out := make([]int, n)
	for i := range out {
		out[i] = i
	}
	return out
}

func pqHasEmptyPrefixPersist(s pqSc) bool {
	// true when some restart persists a queue that holds the empty prefix
	m := &pqModel{keys: map[int]bool{}}
	for _, op := range s.Ops {
		switch op.Op {
		case "enq":
			m.enqueue(op.Prefix, resolveEnq(op.Prefix, op.Keys))
		case "deq":
			m.dequeue()
		case "deqm":
			m.dequeueMatching(op.Prefix)
		case "rm":
			var ks []int
			if op.Raw {
				for _, k := range op.Keys {
					ks = append(ks, k%c19Pool)
				}
			} else {
				var cur []int
				for k := range m.keys {
					cur = append(cur, k)
				}
				sort.Ints(cur)
				for _, r := range op.Keys {
					if len(cur) > 0 {
						ks = append(ks, cur[r%len(cur)])
					}
				}
			}
			m.remove(ks)
		case "clear":
			m.order, m.keys = nil, map[int]bool{}
		case "restart":
			for _, p := range m.order {
				if p == "" {
					return true
				}
			}
			nm := &pqModel{keys: map[int]bool{}}
			for _, pre := range op.Pre {
				nm.enqueue(pre.Prefix, resolveEnq(pre.Prefix, pre.Keys))
			}
			for _, p := range m.order {
				nm.enqueue(p, m.under(p))
			}
			m = nm
		}
	}
	return false
}

func TestVerif_C19_ProvideQueue(t *testing.T) { verifsim.RunCheck(t, c19ProvideQueueCheck()) }

// the same generator and oracle driven by Go's coverage-guided fuzzer (thorough tier)
func FuzzVerif_C19_ProvideQueue(f *testing.F) {
	verifsim.RunFuzz(f, c19ProvideQueueCheck(), "TestVerif_C19_ProvideQueue")
}

func c19ProvideQueueCheck() verifsim.Check[pqSc] {
	return verifsim.Check[pqSc]{
		Property: "C19", Part: "provide-queue",
		Rule: "rapid state machine: 1-30 operations, in 12% of the cases with a burst of 11-24 disjoint one-key regions and a persist (batch 1-50) inserted (enqueue under prefixes of 0-6 biased bits incl. the empty prefix, with 0-4 pooled keys matching the prefix; " +
			"dequeue; dequeue-matching; remove queued or foreign keys; clear; persist(batch 1-4, optionally over a stale earlier persist)+drain into a fresh or " +
			"pre-filled queue) compared after every step with a list+set reference model (order, regions, size, emptiness, key set, prefix trie) and by a final full drain; " +
			"non-trivial = a shorter prefix absorbed longer ones, or a persist/drain round trip happened",
		Gen: genPQ,
		Run: func(t *testing.T, s pqSc) verifsim.Result { return runPQ(s) },
		Excluded: func(s pqSc, known map[string]bool) string {
			if known["C19/persist-drain/empty-prefix"] && pqHasEmptyPrefixPersist(s) {
				return "persist-with-empty-prefix"
			}
			return ""
		},
	}
}

// ---------- reprovide queue ----------

type rqOp struct {
	Op       string   `json:"op"` // enq deq rm clear
	Prefixes []string `json:"prefixes,omitempty"`
}

type rqSc struct {
	Ops []rqOp `json:"ops"`
}

func runRQ(s rqSc) (res verifsim.Result) {
	q := NewReprovideQueue()
	m := &pqModel{keys: map[int]bool{}}
	absorbed := 0
	for i, op := range s.Ops {
		step := fmt.Sprintf("step %d %s%v", i, op.Op, op.Prefixes)
		switch op.Op {
		case "enq":
			ps := make([]bitstr.Key, len(op.Prefixes))
			for j, p := range op.Prefixes {
				ps[j] = bitstr.Key(p)
				for _, e := range m.order {
					if e != p && strings.HasPrefix(e, p) {
						absorbed++
					}
				}
				m.push(p)
			}
			q.Enqueue(ps...)
		case "deq":
			gp, gok := q.Dequeue()
			wok := len(m.order) > 0
			wp := ""
			if wok {
				wp = m.order[0]
				m.order = m.order[1:]
			}
			if gok != wok || string(gp) != wp {
				res.Fail("reprovide/dequeue", "C19/reprovide/dequeue", "%s: got (%q,%v) want (%q,%v)", step, gp, gok, wp, wok)
				return
			}
		case "rm":
			for _, p := range op.Prefixes {
				g := q.Remove(bitstr.Key(p))
				w := m.removeSuper(p)
				if g != w {
					res.Fail("reprovide/remove", "C19/reprovide/remove", "%s: Remove(%q)=%v want %v", step, p, g, w)
					return
				}
			}
		case "clear":
			if n := q.Clear(); n != len(m.order) {
				res.Fail("reprovide/clear", "C19/reprovide/clear", "%s: Clear=%d want %d", step, n, len(m.order))
				return
			}
			m.order = nil
		}
		var got []string
		for p := range q.queue.queue.Iter() {
			got = append(got, string(p))
		}
		if strings.Join(got, ",") != strings.Join(m.order, ",") || q.Size() != len(m.order) || q.IsEmpty() != (len(m.order) == 0) {
			res.Fail("reprovide/order", "C19/reprovide/order", "%s: queue %v size %d empty %v, model %v", step, got, q.Size(), q.IsEmpty(), m.order)
			return
		}
		for a := range m.order {
			for b := range m.order {
				if a != b && strings.HasPrefix(m.order[a], m.order[b]) {
					res.Fail("reprovide/non-overlap", "C19/reprovide/overlap", "%s: overlapping %q %q", step, m.order[a], m.order[b])
					return
				}
			}
		}
		var tk []string
		for _, k := range keyspace.AllKeys(q.queue.prefixes, zeroKey) {
			tk = append(tk, string(k))
		}
		sort.Strings(tk)
		so := append([]string{}, m.order...)
		sort.Strings(so)
		if strings.Join(tk, ",") != strings.Join(so, ",") {
			res.Fail("reprovide/prefix-trie", "C19/reprovide/prefix-trie", "%s: prefix trie %v, deque %v", step, tk, so)
			return
		}
	}
	res.NonTrivial = absorbed > 0 && len(s.Ops) >= 3
	if absorbed > 0 {
		res.Class("absorption")
	}
	return
}

func TestVerif_C19_ReprovideQueue(t *testing.T) { verifsim.RunCheck(t, c19ReprovideQueueCheck()) }

// the same generator and oracle driven by Go's coverage-guided fuzzer (thorough tier)
func FuzzVerif_C19_ReprovideQueue(f *testing.F) {
	verifsim.RunFuzz(f, c19ReprovideQueueCheck(), "TestVerif_C19_ReprovideQueue")
}

func c19ReprovideQueueCheck() verifsim.Check[rqSc] {
	return verifsim.Check[rqSc]{
		Property: "C19", Part: "reprovide-queue",
		Rule: "rapid state machine: 1-40 operations (enqueue 1-3 prefixes of 0-6 biased bits, dequeue, remove prefix, clear) against a list model with the documented " +
			"absorption rule; order, size, emptiness, non-overlap and the internal prefix trie compared after every step; non-trivial = some absorption and >=3 operations",
		Gen: func(t *rapid.T) rqSc {
			return rqSc{Ops: rapid.SliceOfN(rapid.Custom(func(t *rapid.T) rqOp {
				switch rapid.IntRange(0, 9).Draw(t, "kind") {
				case 0, 1, 2, 3, 4, 5:
					op := rqOp{Op: "enq"}
					op.Prefixes = rapid.SliceOfN(rapid.Custom(func(t *rapid.T) string { return drawPrefix(t, "p") }), 1, 3).Draw(t, "prefixes")
					return op
				case 6, 7:
					return rqOp{Op: "deq"}
				case 8:
					return rqOp{Op: "rm", Prefixes: []string{drawPrefix(t, "rm")}}
				default:
					if rapid.IntRange(0, 2).Draw(t, "clearOK") == 0 {
						return rqOp{Op: "clear"}
					}
					return rqOp{Op: "deq"}
				}
			}), 1, 40).Draw(t, "ops")}
		},
		Run: func(t *testing.T, s rqSc) verifsim.Result { return runRQ(s) },
	}
}
