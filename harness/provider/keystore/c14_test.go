//go:build verif

package keystore

// C14 — Close of the keystores (plain and resettable): returns only after the
// worker has exited, repeatedly and concurrently, while an operation (Put, Get,
// Delete, Size, a reset) is held inside a datastore call; a constructor that
// fails leaves no worker behind.
//
// Real time with a gate inside the datastore and a goroutine-state probe (see
// the buffered wrapper's part for why not a bubble).

import (
	"context"
	"fmt"
	"sync"
	"testing"
	"time"

	"github.com/ipfs/go-cid"
	"github.com/libp2p/go-libp2p-kad-dht/internal/verifsim"
	mh "github.com/multiformats/go-multihash"
	"pgregory.net/rapid"
)

type ksCloseSc struct {
	Kind     string `json:"kind"`      // plain | resettable
	Pre      int    `json:"pre"`       // keys put before anything else (0-4)
	Op       string `json:"op"`        // "" | put | get | delete | size | reset : the operation held inside its HoldAt-th datastore call
	HoldAt   int    `json:"hold_at"`   // which datastore call of the operation is held (0 = first)
	NClose   int    `json:"n_close"`   // 1-3 Close calls, each started once the previous one returned or is seen blocked
	LateOp   string `json:"late_op"`   // "" | put | get | size : issued after the first Close call was started
	FailOpen bool   `json:"fail_open"` // the constructor's first datastore call fails
}

var ksCloseMu sync.Mutex // real-time cases share the process' goroutine space: one at a time

const ksWorker = "keystore.(*keystore).worker"
const ksRWorker = "keystore.(*ResettableKeystore).worker"

func TestVerif_C14_Keystore(t *testing.T) {
	kp := verifsim.NewPool("key", 64)
	key := func(i int) mh.Multihash { return mh.Multihash(kp.IDs[i%16]) }
	verifsim.RunCheck(t, verifsim.Check[ksCloseSc]{
		Property: "C14", Part: "keystore",
		Rule: "rapid: a plain or resettable keystore over a gateable datastore, 0-4 keys stored, optionally one Put/Get/Delete/Size/ResetCids held inside its 1st-4th datastore call, 1-3 Close calls started one after the other (each once the " +
			"previous one returned or is seen blocked by a goroutine-state probe), optionally an operation issued during Close, then the gate is released; a constructor whose first datastore call fails; real time, schedule owned through the gate; " +
			"oracle: a Close call that has returned leaves no worker goroutine of the instance, every call returns after the release, a failed constructor leaves no worker, no panic; non-trivial = an operation held during Close, or several Close calls",
		Gen: func(t *rapid.T) ksCloseSc {
			return ksCloseSc{
				Kind:     rapid.SampledFrom([]string{"plain", "resettable"}).Draw(t, "kind"),
				Pre:      rapid.IntRange(0, 4).Draw(t, "pre"),
				Op:       rapid.SampledFrom([]string{"", "put", "put", "get", "delete", "size", "reset", "reset"}).Draw(t, "op"),
				HoldAt:   rapid.IntRange(0, 3).Draw(t, "holdAt"),
				NClose:   rapid.IntRange(1, 3).Draw(t, "nClose"),
				LateOp:   rapid.SampledFrom([]string{"", "", "put", "get", "size"}).Draw(t, "lateOp"),
				FailOpen: verifsim.Chance(t, "failOpen", 8),
			}
		},
		Run: func(t *testing.T, sc ksCloseSc) (res verifsim.Result) {
			ksCloseMu.Lock()
			defer ksCloseMu.Unlock()
			jd := verifsim.NewJournalDS("ds")
			var gmu sync.Mutex
			holdIn := -1 // hold the n-th next datastore call (counted down); -1 = none
			entered, release := make(chan struct{}), make(chan struct{})
			inside := 0
			jd.Gate = func(c verifsim.Call) {
				gmu.Lock()
				h := false
				if holdIn == 0 {
					h = true
				}
				if holdIn >= 0 {
					holdIn--
				}
				if h {
					inside++
				}
				gmu.Unlock()
				if h {
					close(entered)
					<-release
					gmu.Lock()
					inside--
					gmu.Unlock()
				}
			}
			held := func() bool { gmu.Lock(); defer gmu.Unlock(); return inside > 0 }
			if sc.FailOpen {
				jd.FailCall = func(c verifsim.Call) bool { return c.N == 1 }
			}
			workerSub := ksWorker
			var ks Keystore
			var rks *ResettableKeystore
			var err error
			if sc.Kind == "plain" {
				ks, err = NewKeystore(jd)
			} else {
				rks, err = NewResettableKeystore(jd)
				ks = rks
			}
			if err != nil {
				if !sc.FailOpen {
					res.Fail("constructs", "C14/keystore/new-error", "%v", err)
				}
				if left := verifsim.GoroutinesMatching(200*time.Millisecond, ksWorker, ksRWorker); len(left) > 0 {
					res.Fail("failed-ctor-leaves-nothing", "C14/keystore/goroutine-left-after-failed-constructor", "%d worker goroutine(s) left by a constructor that returned an error:\n%s", len(left), left[0])
				}
				res.NonTrivial = true
				res.Class("failed-constructor")
				return
			}
			jd.FailCall = nil
			ctx := context.Background()
			for i := 0; i < sc.Pre; i++ {
				ks.Put(ctx, key(i))
			}
			do := func(kind string) error {
				switch kind {
				case "put":
					_, err := ks.Put(ctx, key(7), key(8), key(0))
					return err
				case "get":
					_, err := ks.Get(ctx, "")
					return err
				case "delete":
					return ks.Delete(ctx, key(0), key(1))
				case "size":
					_, err := ks.Size(ctx)
					return err
				case "reset":
					if rks == nil {
						_, err := ks.Put(ctx, key(9))
						return err
					}
					ch := make(chan cid.Cid, 3)
					for i := 0; i < 3; i++ {
						ch <- cid.NewCidV1(cid.Raw, key(10+i))
					}
					close(ch)
					return rks.ResetCids(ctx, ch)
				}
				return nil
			}
			var calls []*verifsim.RTCall
			holding := false
			if sc.Op != "" {
				gmu.Lock()
				holdIn = sc.HoldAt
				gmu.Unlock()
				oc := verifsim.RTGo(func() error { return do(sc.Op) })
				calls = append(calls, oc)
				select {
				case <-entered:
					holding = true
				case <-oc.DoneCh(): // the operation made fewer datastore calls than HoldAt
				case <-time.After(10 * time.Second):
				}
				if !holding {
					gmu.Lock()
					holdIn = -1
					gmu.Unlock()
					select {
					case <-entered:
						holding = true
					default:
					}
				}
			}
			early := ""
			for i := 0; i < sc.NClose; i++ {
				c := verifsim.RTGo(ks.Close)
				calls = append(calls, c)
				if !verifsim.RTSettle(10*time.Second, c) {
					res.Fail("close-settles", "C14/keystore/close-spins", "Close call %d neither returned nor blocked within 10 s", i+1)
				}
				if i == 0 && sc.LateOp != "" {
					oc := verifsim.RTGo(func() error { return do(sc.LateOp) })
					calls = append(calls, oc)
					verifsim.RTSettle(10*time.Second, oc)
				}
				if c.Done() && early == "" {
					if left := verifsim.GoroutinesMatching(100*time.Millisecond, ksWorker, ksRWorker); len(left) > 0 {
						early = fmt.Sprintf("Close call %d returned while the worker goroutine was still there (operation held in the datastore: %v):\n%s", i+1, held(), left[0])
					}
				}
			}
			if holding {
				close(release)
			}
			if !verifsim.RTWait(15*time.Second, calls...) {
				st := ""
				if g := verifsim.GoroutinesMatching(0, "verifsim.RTGo"); len(g) > 0 {
					st = g[0]
				}
				res.Fail("calls-return", "C14/keystore/calls-return", "a Close call (or an operation in flight) did not return within 15 s after the datastore gate was released:\n%s", st)
				if !holding {
					close(release)
				}
				return
			}
			for _, c := range calls {
				if c.Pan != nil {
					res.Fail("no-panic", "C14/keystore/panic", "panic: %v", c.Pan)
				}
			}
			if early != "" {
				res.Fail("close-waits", "C14/keystore/close-waits", "%s", early)
			}
			if left := verifsim.GoroutinesMatching(200*time.Millisecond, ksWorker, ksRWorker); len(left) > 0 {
				res.Fail("nothing-left", "C14/keystore/goroutine-left", "%d worker goroutine(s) left after every Close call returned:\n%s", len(left), left[0])
			}
			_ = workerSub
			res.NonTrivial = holding || sc.NClose > 1
			res.Class("kind-" + sc.Kind)
			if holding {
				res.Class("operation-held-during-close")
			}
			if holding && sc.NClose > 1 {
				res.Class("overlapping-close-calls-while-held")
			}
			return
		},
	})
}
