//go:build verif

package keystore

// C20 - "Size equals the number of stored keys across every history": operations whose context ends while they run.
// Put, Delete and Empty work in batches; a context that ends between two batches leaves a part of the operation
// applied, and the keystore has to take its bookkeeping from what is really stored then.

import (
	"context"
	"fmt"
	"testing"

	"github.com/libp2p/go-libp2p-kad-dht/internal/verifsim"
	"pgregory.net/rapid"
)

type ksCancelOp struct {
	Op       string `json:"op"` // put del empty
	Keys     []int  `json:"keys,omitempty"`
	CancelAt int    `json:"cancel_at"` // the operation's context is cancelled when it makes its n-th datastore call (0: never)
}

type ksCancelSc struct {
	Mode      string       `json:"mode"` // plain | shared | factory
	BatchSize int          `json:"batch_size"`
	Ops       []ksCancelOp `json:"ops"`
	Restart   bool         `json:"restart"` // a clean restart at the end
}

func TestVerif_C20_CancelledOps(t *testing.T) {
	verifsim.RunCheck(t, verifsim.Check[ksCancelSc]{
		Property: "C20", Part: "cancelled-ops",
		Rule: "rapid: histories of 1-8 Put / Delete / Empty operations over 24 keys on a plain or resettable keystore (shared / factory datastores), batch size 1-4, where an operation's context is cancelled when it makes its n-th " +
			"datastore call (n drawn 1-12, or never), optionally a clean restart at the end; oracle after every operation and after the restart: Size equals the number of keys Get(\"\") returns, no key is listed twice, " +
			"a key the model knows to be stored (put and never touched by a cancelled delete / empty) is listed, a key never put is not; non-trivial = a cancellation landed inside an operation that had already written something",
		Gen: func(t *rapid.T) ksCancelSc {
			sc := ksCancelSc{Mode: rapid.SampledFrom([]string{"plain", "shared", "factory"}).Draw(t, "mode"), BatchSize: rapid.IntRange(1, 4).Draw(t, "batch"), Restart: rapid.Bool().Draw(t, "restart")}
			sc.Ops = rapid.SliceOfN(rapid.Custom(func(t *rapid.T) ksCancelOp {
				op := ksCancelOp{Op: rapid.SampledFrom([]string{"put", "put", "put", "del", "empty"}).Draw(t, "op")}
				if op.Op != "empty" {
					n := rapid.IntRange(1, 12).Draw(t, "nKeys")
					op.Keys = rapid.SliceOfNDistinct(rapid.IntRange(0, 23), n, n, func(i int) int { return i }).Draw(t, "keys")
				}
				if verifsim.Chance(t, "cancel", 50) {
					op.CancelAt = rapid.IntRange(1, 12).Draw(t, "cancelAt")
				}
				return op
			}), 1, 8).Draw(t, "ops")
			return sc
		},
		Run: func(t *testing.T, sc ksCancelSc) (res verifsim.Result) {
			st := newStores()
			s := ksSc{Mode: sc.Mode, PrefixBits: 8, BatchSize: sc.BatchSize}
			k, _, err := openKS(s, st)
			if err != nil {
				res.Fail("open", "C20/open/error", "open: %v", err)
				return
			}
			defer func() { k.Close() }()
			bg := context.Background()
			sure := map[int]bool{}  // certainly stored
			maybe := map[int]bool{} // possibly stored (touched by an operation that was cut)
			judge := func(step string) bool {
				ks, n, err := contentsOf(bg, k)
				if err != nil {
					res.Fail("get/error", "C20/cancelled/get-error", "%s: %v", step, err)
					return false
				}
				if n != len(ks) {
					res.Fail("size", "C20/size/mismatch", "%s: Size() = %d but Get(\"\") lists %d keys", step, n, len(ks))
					return false
				}
				listed := map[int]bool{}
				for _, x := range ks {
					listed[x] = true
					if !sure[x] && !maybe[x] {
						res.Fail("get/exact", "C20/get/never-put", "%s: key %d is listed but was never put", step, x)
						return false
					}
				}
				for x := range sure {
					if !listed[x] {
						res.Fail("get/exact", "C20/get/missing", "%s: key %d was put (acknowledged, not touched since) but is not listed", step, x)
						return false
					}
				}
				return true
			}
			for i, op := range sc.Ops {
				step := fmt.Sprintf("step %d %s", i, op.Op)
				ctx, cancel := context.WithCancel(bg)
				calls, cancelled := 0, false
				writesBefore := 0
				hook := func(c verifsim.Call) bool {
					calls++
					if op.CancelAt > 0 && calls == op.CancelAt {
						cancelled = true
						if c.Op == "commit" || calls > 2 {
							writesBefore++
						}
						cancel()
					}
					return false
				}
				st.meta.FailCall = hook
				for _, d := range st.slot {
					d.FailCall = hook
				}
				var opErr error
				keys := resolveKeys(op.Keys)
				switch op.Op {
				case "put":
					_, opErr = k.Put(ctx, mhsOf(keys)...)
					for _, x := range keys {
						if opErr == nil {
							sure[x] = true
							delete(maybe, x)
						} else if !sure[x] {
							maybe[x] = true
						}
					}
				case "del":
					opErr = k.Delete(ctx, mhsOf(keys)...)
					for _, x := range keys {
						if opErr == nil {
							delete(sure, x)
							delete(maybe, x)
						} else if sure[x] {
							delete(sure, x)
							maybe[x] = true
						}
					}
				case "empty":
					opErr = k.Empty(ctx)
					if opErr == nil {
						sure, maybe = map[int]bool{}, map[int]bool{}
					} else {
						for x := range sure {
							maybe[x] = true
						}
						sure = map[int]bool{}
					}
				}
				cancel()
				st.meta.FailCall = nil
				for _, d := range st.slot {
					d.FailCall = nil
				}
				if cancelled && opErr != nil && writesBefore > 0 {
					res.NonTrivial = true
				}
				if !judge(step) {
					return
				}
			}
			if sc.Restart {
				if err := k.Close(); err != nil {
					res.Fail("close/error", "C20/close/error", "%v", err)
					return
				}
				k, _, err = openKS(s, st)
				if err != nil {
					res.Fail("open", "C20/open/error", "reopen: %v", err)
					return
				}
				if !judge("after a clean restart") {
					return
				}
			}
			return
		},
	})
}
