//go:build verif

package keystore

// C20 — keystore contents are exact, durable, and replaced atomically by reset.
//
// Part "history": generated operation histories against a set model, with
// clean restarts, complete and cancelled resets; then every crash point of the
// history is enumerated (journal cut per physical datastore, respecting Sync)
// and the keystore reopened on the reconstructed datastore(s).

import (
	"context"
	"errors"
	"fmt"
	"sort"
	"strings"
	"sync"
	"testing"
	"time"

	"github.com/ipfs/go-cid"
	ds "github.com/ipfs/go-datastore"
	"github.com/ipfs/go-libdht/kad/key/bitstr"
	"github.com/libp2p/go-libp2p-kad-dht/internal/verifsim"
	mh "github.com/multiformats/go-multihash"
	"pgregory.net/rapid"
)

const c20Pool = 1 << 13

func kpool() *verifsim.Pool { return verifsim.NewPool("key", c20Pool) }

var (
	uniOnce sync.Once
	uni     []int // the key universe: small, with keys sharing 8, 10 and >=16 leading bits
	uniPos  map[string]int
)

func universe() []int {
	uniOnce.Do(func() {
		kp := kpool()
		seen := map[int]bool{}
		add := func(i int) {
			if !seen[i] {
				seen[i] = true
				uni = append(uni, i)
			}
		}
		for i := 0; i < 16; i++ {
			add(i)
		}
		p8 := kp.Bits(3)[:8]
		for i, k := range kp.WithPrefix(p8) {
			if i < 10 {
				add(k)
			}
		}
		// pairs sharing at least 16 bits
		pairs := 0
		prev := -1
		all := kp.WithPrefix("")
		for _, k := range all {
			if prev >= 0 && verifsim.CPL(kp.Kad[prev], kp.Kad[k]) >= 16 && pairs < 5 {
				add(prev)
				add(k)
				pairs++
			}
			prev = k
		}
		uniPos = map[string]int{}
		for _, k := range uni {
			uniPos[kp.IDs[k]] = k
		}
	})
	return uni
}

func mhsOf(ks []int) []mh.Multihash {
	kp := kpool()
	out := make([]mh.Multihash, len(ks))
	for i, k := range ks {
		out[i] = mh.Multihash(kp.IDs[k])
	}
	return out
}

func idxOf(hs []mh.Multihash) ([]int, error) {
	universe()
	out := make([]int, 0, len(hs))
	for _, h := range hs {
		k, ok := uniPos[string(h)]
		if !ok {
			return nil, fmt.Errorf("unknown multihash %x", []byte(h))
		}
		out = append(out, k)
	}
	sort.Ints(out)
	return out, nil
}

type ksOp struct {
	Op     string `json:"op"`               // put del get count has empty size restart reset resetcancel
	Keys   []int  `json:"keys,omitempty"`   // ranks into the universe
	Prefix string `json:"prefix,omitempty"` // explicit bit string
	Limit  int    `json:"limit,omitempty"`
	Feed   int    `json:"feed,omitempty"` // resetcancel: keys fed before cancelling
}

type ksSc struct {
	Mode       string `json:"mode"` // plain | shared | factory
	PrefixBits int    `json:"prefix_bits"`
	BatchSize  int    `json:"batch_size"`
	Ops        []ksOp `json:"ops"`
}

func resolveKeys(ranks []int) []int {
	u := universe()
	out := make([]int, len(ranks))
	for i, r := range ranks {
		out[i] = u[r%len(u)]
	}
	return out
}

func setOf(ks []int) map[int]bool {
	m := map[int]bool{}
	for _, k := range ks {
		m[k] = true
	}
	return m
}

func sortedKeys(m map[int]bool) []int {
	out := make([]int, 0, len(m))
	for k := range m {
		out = append(out, k)
	}
	sort.Ints(out)
	return out
}

func under(m map[int]bool, prefix string) []int {
	kp := kpool()
	var out []int
	for k := range m {
		if strings.HasPrefix(kp.Bits(k), prefix) {
			out = append(out, k)
		}
	}
	sort.Ints(out)
	return out
}

func eqInts(a, b []int) bool {
	if len(a) != len(b) {
		return false
	}
	for i := range a {
		if a[i] != b[i] {
			return false
		}
	}
	return true
}

// stores is the set of physical datastores behind one keystore instance.
type stores struct {
	clock *verifsim.SeqClock
	meta  *verifsim.JournalDS
	slot  map[string]*verifsim.JournalDS // factory mode
}

func newStores() *stores {
	c := &verifsim.SeqClock{}
	m := verifsim.NewJournalDS("meta")
	m.Clock = c
	return &stores{clock: c, meta: m, slot: map[string]*verifsim.JournalDS{}}
}

func (st *stores) factory() (func(string) (ds.Batching, error), func(string) error) {
	create := func(suffix string) (ds.Batching, error) {
		d, ok := st.slot[suffix]
		if !ok {
			d = verifsim.NewJournalDS("slot" + suffix)
			d.Clock = st.clock
			st.slot[suffix] = d
		}
		return d, nil
	}
	destroy := func(suffix string) error {
		if d, ok := st.slot[suffix]; ok {
			d.Destroy()
		}
		return nil
	}
	return create, destroy
}

func openKS(s ksSc, st *stores) (Keystore, *ResettableKeystore, error) {
	opts := []Option{WithPrefixBits(s.PrefixBits), WithBatchSize(s.BatchSize)}
	switch s.Mode {
	case "plain":
		k, err := NewKeystore(st.meta, opts...)
		return k, nil, err
	case "shared":
		k, err := NewResettableKeystore(st.meta, KeystoreOption(opts...))
		return k, k, err
	default:
		c, d := st.factory()
		k, err := NewResettableKeystore(st.meta, KeystoreOption(opts...), WithDatastoreFactory(c, d))
		return k, k, err
	}
}

type opRecord struct {
	op         ksOp
	tStart     int
	tEnd       int
	before     []int
	after      []int
	resolved   []int
	resetDone  bool
	resetError bool
}

func contentsOf(ctx context.Context, k Keystore) ([]int, int, error) {
	hs, err := k.Get(ctx, "")
	if err != nil {
		return nil, 0, err
	}
	ks, err := idxOf(hs)
	if err != nil {
		return nil, 0, err
	}
	for i := 1; i < len(ks); i++ {
		if ks[i] == ks[i-1] {
			return nil, 0, fmt.Errorf("duplicate key %d in Get", ks[i])
		}
	}
	n, err := k.Size(ctx)
	return ks, n, err
}

func doReset(ctx context.Context, rk *ResettableKeystore, keys []int, cancelAfter int) error {
	ch := make(chan cid.Cid)
	rctx, cancel := context.WithCancel(ctx)
	defer cancel()
	errc := make(chan error, 1)
	go func() { errc <- rk.ResetCids(rctx, ch) }()
	for i, h := range mhsOf(keys) {
		if cancelAfter >= 0 && i >= cancelAfter {
			break
		}
		select {
		case ch <- cid.NewCidV1(cid.Raw, h):
		case err := <-errc:
			return err
		}
	}
	if cancelAfter >= 0 {
		cancel()
		return <-errc
	}
	close(ch)
	return <-errc
}

func runKS(t *testing.T, s ksSc) (res verifsim.Result) {
	var recs []opRecord
	var st *stores
	lastOp := "open"
	restarts, resets, longPfx := 0, 0, 0
	out := verifsim.Bubble(t, func() {
		recs, st = runKSHistory(&res, s, &lastOp, &restarts, &resets, &longPfx)
	})
	if out.Deadlock != "" {
		res.Fail("no-deadlock", "C20/"+lastOp+"/deadlock", "history wedged during %s: %s\n%s", lastOp, out.Deadlock, out.Stacks)
		return
	}
	if out.Panic != "" {
		res.Fail("no-panic", "C20/"+lastOp+"/panic", "panic during %s: %s", lastOp, out.Panic)
		return
	}
	if len(res.Violations) > 0 {
		return
	}
	// ---- crash enumeration ----
	crashPoints := 0
	out = verifsim.Bubble(t, func() { crashPoints = enumerateCrashes(&res, s, st, recs) })
	if !out.OK() {
		res.Fail("crash/reopen-terminates", "C20/crash/reopen-hang-or-panic", "reopen after crash: %s %s\n%s", out.Deadlock, out.Panic, out.Stacks)
		return
	}
	res.Weight = 1 + crashPoints
	res.NonTrivial = crashPoints > 3 && (restarts > 0 || resets > 0 || longPfx > 0)
	if restarts > 0 {
		res.Class("clean-restart")
	}
	if resets > 0 {
		res.Class("reset")
	}
	if longPfx > 0 {
		res.Class("prefix-longer-than-prefixbits")
	}
	res.Class("mode-" + s.Mode)
	return
}

func runKSHistory(resp *verifsim.Result, s ksSc, lastOp *string, restartsP, resetsP, longPfxP *int) (recs []opRecord, st *stores) {
	res := verifsim.Result{}
	defer func() { resp.Violations = append(resp.Violations, res.Violations...) }()
	restarts, resets, longPfx := 0, 0, 0
	defer func() { *restartsP, *resetsP, *longPfxP = restarts, resets, longPfx }()
	ctx := context.Background()
	st = newStores()
	k, rk, err := openKS(s, st)
	if err != nil {
		res.Fail("open", "C20/open/error", "open: %v", err)
		return
	}
	defer func() { k.Close() }()
	model := map[int]bool{}
	for i, op := range s.Ops {
		*lastOp = op.Op
		step := fmt.Sprintf("step %d %s", i, op.Op)
		rec := opRecord{op: op, tStart: st.clock.Now(), before: sortedKeys(model)}
		keys := resolveKeys(op.Keys)
		rec.resolved = keys
		switch op.Op {
		case "put":
			got, err := k.Put(ctx, mhsOf(keys)...)
			if err != nil {
				res.Fail("put/error", "C20/put/error", "%s: %v", step, err)
				return
			}
			var want []int
			seen := map[int]bool{}
			for _, x := range keys {
				if !model[x] && !seen[x] {
					want = append(want, x)
				}
				seen[x] = true
				model[x] = true
			}
			sort.Ints(want)
			gi, err := idxOf(got)
			if err != nil || !eqInts(gi, want) {
				res.Fail("put/returns-new", "C20/put/returns-new", "%s: Put(%v) returned %v (%v) want %v", step, keys, gi, err, want)
				return
			}
		case "del":
			if err := k.Delete(ctx, mhsOf(keys)...); err != nil {
				res.Fail("delete/error", "C20/delete/error", "%s: %v", step, err)
				return
			}
			for _, x := range keys {
				delete(model, x)
			}
		case "get", "count", "has":
			want := under(model, op.Prefix)
			if len(op.Prefix) > s.PrefixBits {
				longPfx++
			}
			switch op.Op {
			case "get":
				hs, err := k.Get(ctx, bitstr.Key(op.Prefix))
				gi, err2 := idxOf(hs)
				if err != nil || err2 != nil || !eqInts(gi, want) {
					res.Fail("get/prefix", "C20/get/prefix", "%s: Get(%q) = %v (%v %v) want %v (prefixBits %d)", step, op.Prefix, gi, err, err2, want, s.PrefixBits)
					return
				}
			case "count":
				n, err := k.CountKeysUpTo(ctx, bitstr.Key(op.Prefix), op.Limit)
				w := len(want)
				if op.Limit > 0 && w > op.Limit {
					w = op.Limit
				}
				if err != nil || n != w {
					res.Fail("count/prefix", "C20/count/prefix", "%s: CountKeysUpTo(%q,%d) = %d (%v) want %d", step, op.Prefix, op.Limit, n, err, w)
					return
				}
			case "has":
				ok, err := k.ContainsPrefix(ctx, bitstr.Key(op.Prefix))
				if err != nil || ok != (len(want) > 0) {
					res.Fail("contains/prefix", "C20/contains/prefix", "%s: ContainsPrefix(%q) = %v (%v) want %v", step, op.Prefix, ok, err, len(want) > 0)
					return
				}
			}
		case "empty":
			if err := k.Empty(ctx); err != nil {
				res.Fail("empty/error", "C20/empty/error", "%s: %v", step, err)
				return
			}
			model = map[int]bool{}
		case "size":
		case "restart":
			restarts++
			if err := k.Close(); err != nil {
				res.Fail("close/error", "C20/close/error", "%s: %v", step, err)
				return
			}
			k, rk, err = openKS(s, st)
			if err != nil {
				res.Fail("open", "C20/open/error", "%s: reopen: %v", step, err)
				return
			}
		case "reset":
			if rk == nil {
				break
			}
			resets++
			if err := doReset(ctx, rk, keys, -1); err != nil {
				res.Fail("reset/error", "C20/reset/error", "%s: %v", step, err)
				return
			}
			model = setOf(keys)
			rec.resetDone = true
		case "resetcancel":
			if rk == nil {
				break
			}
			resets++
			feed := 0
			if len(keys) > 0 {
				feed = op.Feed % (len(keys) + 1)
			}
			err := doReset(ctx, rk, keys, feed)
			if err == nil {
				res.Fail("reset/cancel-reports", "C20/reset/cancel-no-error", "%s: cancelled reset returned nil", step)
				return
			}
		}
		// full comparison after every step
		got, size, err := contentsOf(ctx, k)
		want := sortedKeys(model)
		if err != nil || !eqInts(got, want) {
			res.Fail("contents", "C20/contents/mismatch", "%s: contents %v (%v) want %v", step, got, err, want)
			return
		}
		if size != len(want) {
			res.Fail("size", "C20/size/mismatch", "%s: Size %d, stored %d", step, size, len(want))
			return
		}
		rec.tEnd = st.clock.Now()
		rec.after = want
		recs = append(recs, rec)
	}
	return
}

// allowedAfterCrash decides whether contents is an admissible state for a
// crash at global instant T.
func allowedAfterCrash(recs []opRecord, T int, contents []int) (bool, string) {
	cs := setOf(contents)
	subsetOf := func(a map[int]bool, b []int) bool {
		bs := setOf(b)
		for k := range a {
			if !bs[k] {
				return false
			}
		}
		return true
	}
	superOf := func(a map[int]bool, b []int) bool {
		for _, k := range b {
			if !a[k] {
				return false
			}
		}
		return true
	}
	var state []int
	for _, r := range recs {
		if r.tEnd <= T {
			state = r.after
			continue
		}
		if r.tStart > T {
			break
		}
		// r.tStart <= T < r.tEnd : r is in flight
		switch r.op.Op {
		case "put":
			// before ⊆ contents ⊆ before ∪ keys
			if superOf(cs, r.before) && subsetOf(cs, append(append([]int{}, r.before...), r.resolved...)) {
				return true, ""
			}
			return false, fmt.Sprintf("in-flight put %v over %v", r.resolved, r.before)
		case "del":
			rem := setOf(r.before)
			for _, k := range r.resolved {
				delete(rem, k)
			}
			if superOf(cs, sortedKeys(rem)) && subsetOf(cs, r.before) {
				return true, ""
			}
			return false, fmt.Sprintf("in-flight delete %v over %v", r.resolved, r.before)
		case "empty":
			if subsetOf(cs, r.before) {
				return true, ""
			}
			return false, fmt.Sprintf("in-flight empty over %v", r.before)
		case "reset":
			if eqInts(contents, r.before) || eqInts(contents, r.after) {
				return true, ""
			}
			return false, fmt.Sprintf("in-flight reset: old %v new %v", r.before, r.after)
		default:
			if eqInts(contents, r.before) {
				return true, ""
			}
			return false, fmt.Sprintf("in-flight %s over %v", r.op.Op, r.before)
		}
	}
	if eqInts(contents, state) {
		return true, ""
	}
	return false, fmt.Sprintf("acknowledged state %v", state)
}

func enumerateCrashes(res *verifsim.Result, s ksSc, st *stores, recs []opRecord) int {
	ctx := context.Background()
	total := st.clock.Now()
	ps := []physJ{{"meta", st.meta.Journal()}}
	for _, name := range []string{"0", "1"} {
		if d, ok := st.slot[name]; ok {
			ps = append(ps, physJ{name, d.Journal()})
		}
	}
	points := 0
	for T := 0; T <= total; T++ {
		// admissible cut ranges per physical datastore
		lo := make([]int, len(ps))
		hi := make([]int, len(ps))
		combos := 1
		for i, p := range ps {
			hi[i] = verifsim.EntriesUpTo(p.j, T)
			lo[i] = verifsim.LastSyncBefore(p.j, hi[i])
			combos *= hi[i] - lo[i] + 1
		}
		if combos > 64 {
			// keep the extremes and the diagonal when the product is large
			combos = 64
		}
		cut := make([]int, len(ps))
		var rec func(i int) bool
		n := 0
		rec = func(i int) bool {
			if n >= combos {
				return true
			}
			if i == len(ps) {
				n++
				points++
				return checkCrash(res, s, ps[0].j, cut, ps[1:], T, recs, ctx)
			}
			for c := hi[i]; c >= lo[i]; c-- {
				cut[i] = c
				if !rec(i + 1) {
					return false
				}
			}
			return true
		}
		if !rec(0) {
			return points
		}
	}
	return points
}

type physJ struct {
	name string
	j    []verifsim.JEntry
}

func checkCrash(res *verifsim.Result, s ksSc, metaJ []verifsim.JEntry, cut []int, slots []physJ, T int, recs []opRecord, ctx context.Context) bool {
	st2 := newStores()
	st2.meta = verifsim.NewJournalDSFrom("meta", verifsim.StateAt(nil, metaJ, cut[0]))
	st2.meta.Clock = st2.clock
	for i, sl := range slots {
		d := verifsim.NewJournalDSFrom("slot"+sl.name, verifsim.StateAt(nil, sl.j, cut[i+1]))
		d.Clock = st2.clock
		st2.slot[sl.name] = d
	}
	k, _, err := openKS(s, st2)
	if err != nil {
		res.Fail("crash/reopen", "C20/crash/reopen-error", "crash T=%d cuts=%v: reopen failed: %v", T, cut, err)
		return false
	}
	defer k.Close()
	got, size, err := contentsOf(ctx, k)
	if err != nil {
		res.Fail("crash/read", "C20/crash/read-error", "crash T=%d cuts=%v: %v", T, cut, err)
		return false
	}
	if ok, why := allowedAfterCrash(recs, T, got); !ok {
		sig := "C20/crash/contents"
		for _, r := range recs {
			if r.tStart <= T && T < r.tEnd && r.op.Op == "reset" {
				sig = "C20/crash/reset-not-atomic"
			}
		}
		res.Fail("crash/contents", sig, "crash at instant %d (cuts %v, mode %s): reopened keystore holds %v; expected per %s", T, cut, s.Mode, got, why)
		return false
	}
	if size != len(got) {
		res.Fail("crash/size", "C20/crash/size", "crash at instant %d (cuts %v, mode %s): Size %d but %d keys stored", T, cut, s.Mode, size, len(got))
		return false
	}
	return true
}

func drawKeyRanks(t *rapid.T, label string, minN, maxN int) []int {
	return rapid.SliceOfN(rapid.IntRange(0, 63), minN, maxN).Draw(t, label)
}

func drawQueryPrefix(t *rapid.T) string {
	u := universe()
	k := u[rapid.IntRange(0, len(u)-1).Draw(t, "pfxKey")]
	l := rapid.IntRange(0, 20).Draw(t, "pfxLen")
	if verifsim.Chance(t, "longPfx", 12) {
		l = rapid.SampledFrom([]int{256, 255, 64, 256}).Draw(t, "longPfxLen") // up to the whole identifier of a key
	}
	p := kpool().Bits(k)[:l]
	if l > 0 && rapid.IntRange(0, 3).Draw(t, "pfxFlip") == 0 {
		b := []byte(p)
		b[l-1] = '0' + '1' - b[l-1]
		p = string(b)
	}
	return p
}

func drawKSOp(t *rapid.T) ksOp {
	switch rapid.IntRange(0, 15).Draw(t, "kind") {
	case 0, 1, 2, 3:
		return ksOp{Op: "put", Keys: drawKeyRanks(t, "putKeys", 1, 5)}
	case 4, 5:
		return ksOp{Op: "del", Keys: drawKeyRanks(t, "delKeys", 1, 4)}
	case 6, 7:
		return ksOp{Op: "get", Prefix: drawQueryPrefix(t)}
	case 8:
		return ksOp{Op: "count", Prefix: drawQueryPrefix(t), Limit: rapid.IntRange(-1, 4).Draw(t, "limit")}
	case 9:
		return ksOp{Op: "has", Prefix: drawQueryPrefix(t)}
	case 10:
		if rapid.IntRange(0, 2).Draw(t, "emptyOK") == 0 {
			return ksOp{Op: "empty"}
		}
		return ksOp{Op: "size"}
	case 11, 12:
		return ksOp{Op: "restart"}
	case 13, 14:
		return ksOp{Op: "reset", Keys: drawKeyRanks(t, "resetKeys", 0, 8)}
	default:
		return ksOp{Op: "resetcancel", Keys: drawKeyRanks(t, "resetKeys", 0, 6), Feed: rapid.IntRange(0, 6).Draw(t, "feed")}
	}
}

func TestVerif_C20_History(t *testing.T) {
	verifsim.RunCheck(t, verifsim.Check[ksSc]{
		Property: "C20", Part: "history-crash",
		Rule: "rapid state machine over keystore / ResettableKeystore (shared and factory mode): 1-14 operations (put/delete of 1-5 keys from a 40-key universe with keys sharing " +
			"8 and >=16 leading bits, get/count/contains on prefixes of 0-20 bits taken from stored keys, empty, clean restart, complete reset, cancelled reset) with prefixBits in " +
			"{0,8,16} and batch size 1-4, compared with a set model after every step; then EVERY crash instant of the history is enumerated with every admissible journal cut " +
			"per physical datastore (cut >= last Sync; factory mode cuts the three datastores independently) and the keystore is reopened on the reconstructed state " +
			"(oracle_evaluations counts crash points); non-trivial = >3 crash points and a restart, a reset or a query prefix longer than prefixBits",
		Assumptions: []string{
			"crash model: each physical datastore keeps a prefix of its write journal that contains everything up to its last Sync; batch commits are atomic; destroy of a factory datastore is immediate and durable",
		},
		Gen: func(t *rapid.T) ksSc {
			s := ksSc{
				Mode:       rapid.SampledFrom([]string{"plain", "shared", "factory"}).Draw(t, "mode"),
				PrefixBits: rapid.SampledFrom([]int{0, 8, 16}).Draw(t, "prefixBits"),
				BatchSize:  rapid.IntRange(1, 4).Draw(t, "batchSize"),
			}
			s.Ops = rapid.SliceOfN(rapid.Custom(drawKSOp), 1, 14).Draw(t, "ops")
			return s
		},
		Run: func(t *testing.T, s ksSc) verifsim.Result { return runKS(t, s) },
	})
}

// ---------- part: error injection at every datastore call of a reset ----------

type ksFaultSc struct {
	Mode       string `json:"mode"` // shared | factory
	PrefixBits int    `json:"prefix_bits"`
	BatchSize  int    `json:"batch_size"`
	Initial    []int  `json:"initial"`
	Reset      []int  `json:"reset"`
	OnlyFault  int    `json:"only_fault"` // -1: enumerate every call; >=0: just that one (replay of a shrunk case)
}

func runFaultOnce(t *testing.T, s ksFaultSc, failAt int) (calls int, v *verifsim.Violation) {
	base := ksSc{Mode: s.Mode, PrefixBits: s.PrefixBits, BatchSize: s.BatchSize}
	old := sortedKeys(setOf(resolveKeys(s.Initial)))
	nw := sortedKeys(setOf(resolveKeys(s.Reset)))
	var viol *verifsim.Violation
	fail := func(clause, sig, f string, a ...any) {
		if viol == nil {
			viol = &verifsim.Violation{Clause: clause, Signature: sig, Detail: fmt.Sprintf(f, a...)}
		}
	}
	out := verifsim.Bubble(t, func() {
		ctx := context.Background()
		st := newStores()
		// pre-create factory slots so that fault hooks can be installed on them
		if s.Mode == "factory" {
			c, _ := st.factory()
			c("0")
			c("1")
		}
		k, rk, err := openKS(base, st)
		if err != nil {
			fail("open", "C20/open/error", "open: %v", err)
			return
		}
		if _, err := k.Put(ctx, mhsOf(resolveKeys(s.Initial))...); err != nil && len(s.Initial) > 0 {
			fail("put/error", "C20/put/error", "%v", err)
			return
		}
		var mu sync.Mutex
		n := 0
		var failed verifsim.Call
		hook := func(name string) func(c verifsim.Call) bool {
			return func(c verifsim.Call) bool {
				mu.Lock()
				defer mu.Unlock()
				if c.Op == "close" {
					return false
				}
				hit := n == failAt
				n++
				if hit {
					failed = c
					failed.GID = name
				}
				return hit
			}
		}
		st.meta.FailCall = hook("meta")
		for name, d := range st.slot {
			d.FailCall = hook("slot" + name)
		}
		resetErr := doReset(ctx, rk, resolveKeys(s.Reset), -1)
		mu.Lock()
		calls = n
		st.meta.FailCall = nil
		for _, d := range st.slot {
			d.FailCall = nil
		}
		mu.Unlock()
		desc := fmt.Sprintf("mode %s, failing call #%d (%s %s %s) of the reset; ResetCids returned %v", s.Mode, failAt, failed.GID, failed.Op, failed.Key, resetErr)
		check := func(when string, k Keystore) bool {
			got, size, err := contentsOf(ctx, k)
			if err != nil {
				fail("fault/read", "C20/fault/read-error", "%s: %s: %v", desc, when, err)
				return false
			}
			if !eqInts(got, old) && !eqInts(got, nw) {
				fail("fault/old-or-new", "C20/fault/"+when+"/neither-old-nor-new:"+failed.GID+"-"+failed.Op, "%s: %s keystore holds %v; old %v new %v", desc, when, got, old, nw)
				return false
			}
			if size != len(got) {
				fail("fault/size", "C20/fault/"+when+"/size:"+failed.GID+"-"+failed.Op, "%s: %s Size %d but %d keys", desc, when, size, len(got))
				return false
			}
			return true
		}
		if !check("running", k) {
			k.Close()
			return
		}
		if err := k.Close(); err != nil {
			fail("close/error", "C20/close/error", "%s: Close: %v", desc, err)
			return
		}
		k2, _, err := openKS(base, st)
		if err != nil {
			fail("open", "C20/open/error", "%s: reopen: %v", desc, err)
			return
		}
		check("restarted", k2)
		k2.Close()
	})
	if !out.OK() {
		return calls, &verifsim.Violation{Clause: "fault/terminates", Signature: "C20/fault/hang-or-panic", Detail: fmt.Sprintf("failing call #%d: %s %s\n%s", failAt, out.Deadlock, out.Panic, out.Stacks)}
	}
	return calls, viol
}

func TestVerif_C20_ResetFaults(t *testing.T) {
	verifsim.RunCheck(t, verifsim.Check[ksFaultSc]{
		Property: "C20", Part: "reset-faults",
		Rule: "rapid draws (mode shared/factory, prefixBits, batch size 1-4, 0-6 initial keys, 0-8 reset keys); a fault-free dry run counts the datastore calls of the reset, then " +
			"EVERY call (Get/Has/Put/Delete/Query/Batch/Commit/Sync on every physical datastore) is failed in turn in a fresh instance (oracle_evaluations counts injected faults); after the reset " +
			"returns, and again after a clean restart, contents must be exactly the old or exactly the new set and Size must equal the count; non-trivial = old and new sets differ and are both non-empty",
		Assumptions: []string{"a failed datastore call has no effect; after the single injected failure the datastore works again; restart after fault injection is clean (no crash)"},
		Gen: func(t *rapid.T) ksFaultSc {
			return ksFaultSc{
				Mode:       rapid.SampledFrom([]string{"shared", "factory"}).Draw(t, "mode"),
				PrefixBits: rapid.SampledFrom([]int{0, 8, 16}).Draw(t, "prefixBits"),
				BatchSize:  rapid.IntRange(1, 4).Draw(t, "batchSize"),
				Initial:    drawKeyRanks(t, "initial", 0, 6),
				Reset:      drawKeyRanks(t, "reset", 0, 8),
				OnlyFault:  -1,
			}
		},
		Run: func(t *testing.T, s ksFaultSc) (res verifsim.Result) {
			calls, v := runFaultOnce(t, s, -1)
			if v != nil {
				res.Violations = append(res.Violations, *v)
				return
			}
			lo, hi := 0, calls
			if s.OnlyFault >= 0 {
				lo, hi = s.OnlyFault, s.OnlyFault+1
			}
			known := verifsim.Known()
			for n := lo; n < hi; n++ {
				res.Weight++
				if _, v := runFaultOnce(t, s, n); v != nil {
					if known[v.Signature] {
						res.Class("known:" + v.Signature)
						continue
					}
					res.Violations = append(res.Violations, *v)
					return
				}
			}
			old, nw := sortedKeys(setOf(resolveKeys(s.Initial))), sortedKeys(setOf(resolveKeys(s.Reset)))
			res.NonTrivial = len(old) > 0 && len(nw) > 0 && !eqInts(old, nw)
			res.Class("mode-" + s.Mode)
			return
		},
	})
}

// ---------- part: reset interleaved with concurrent puts (every datastore call is a yield point) ----------

type ksIlSc struct {
	Mode       string  `json:"mode"` // shared | factory
	PrefixBits int     `json:"prefix_bits"`
	BatchSize  int     `json:"batch_size"`
	BufCap     int     `json:"buf_cap"`
	Initial    []int   `json:"initial"`
	Reset      []int   `json:"reset"` // >= 1 key
	Puts       [][]int `json:"puts"`  // concurrent Put calls (each 1-2 keys), started only after the first reset key was consumed
	Schedule   []int   `json:"schedule"`
	CancelAt   int     `json:"cancel_at"`              // >0: cancel the reset's context at that step
	Second     bool    `json:"second_reset,omitempty"` // a second ResetCids (same keys) may be started while the first one runs; it has to be refused
}

type gateReq struct {
	c      verifsim.Call
	resume chan struct{}
}

func runKSInterleave(t *testing.T, s ksIlSc) (res verifsim.Result) {
	base := ksSc{Mode: s.Mode, PrefixBits: s.PrefixBits, BatchSize: s.BatchSize}
	old := sortedKeys(setOf(resolveKeys(s.Initial)))
	nw := sortedKeys(setOf(resolveKeys(s.Reset)))
	putsDuring := 0
	var st *stores
	type putRec struct {
		keys   []int
		ackT   int // clock value when acknowledged (-1: never)
		err    error
		startT int
	}
	var puts []*putRec
	secondStarted, secondDone, secondRan := false, false, false
	var secondErr error
	resetDone := false
	cancelFired := false // the reset's context was cancelled before ResetCids returned
	var resetErr error
	out := verifsim.Bubble(t, func() {
		ctx := context.Background()
		st = newStores()
		if s.Mode == "factory" {
			c, _ := st.factory()
			c("0")
			c("1")
		}
		opts := []ResettableKeystoreOption{KeystoreOption(WithPrefixBits(s.PrefixBits), WithBatchSize(s.BatchSize)), WithResetBufferCapacity(max(1, s.BufCap))}
		if s.Mode == "factory" {
			c, d := st.factory()
			opts = append(opts, WithDatastoreFactory(c, d))
		}
		rk, err := NewResettableKeystore(st.meta, opts...)
		if err != nil {
			res.Fail("open", "C20/open/error", "%v", err)
			return
		}
		closed := false
		defer func() {
			if !closed {
				rk.Close()
			}
		}()
		if len(s.Initial) > 0 {
			if _, err := rk.Put(ctx, mhsOf(resolveKeys(s.Initial))...); err != nil {
				res.Fail("put/error", "C20/put/error", "%v", err)
				return
			}
		}
		verifsim.Quiesce()
		t0 := st.clock.Now() // crash instants before this one belong to the (sequential) set-up
		// install gates
		gateCh := make(chan gateReq, 64)
		gate := func(c verifsim.Call) {
			r := gateReq{c, make(chan struct{})}
			gateCh <- r
			<-r.resume
		}
		st.meta.Gate = gate
		for _, d := range st.slot {
			d.Gate = gate
		}
		keysCh := make(chan cid.Cid)
		rctx, cancel := context.WithCancel(ctx)
		defer cancel()
		resetC := make(chan error, 1)
		go func() { resetC <- rk.ResetCids(rctx, keysCh) }()
		fed := 0
		feedTok := make(chan struct{})
		feedDone := make(chan struct{})
		go func() {
			defer close(feedDone)
			for _, h := range mhsOf(resolveKeys(s.Reset)) {
				select {
				case <-feedTok:
				case <-rctx.Done():
					return
				}
				select {
				case keysCh <- cid.NewCidV1(cid.Raw, h):
				case <-rctx.Done():
					return
				}
			}
			select {
			case <-feedTok:
			case <-rctx.Done():
				return
			}
			close(keysCh)
		}()
		second := make(chan error, 1)
		var parked []gateReq
		nextPut := 0
		putDone := make(chan int, len(s.Puts))
		running := 0
		feedLeft := len(s.Reset) + 1
		for step := 0; step < 3000; step++ {
			verifsim.Quiesce()
		drain:
			for {
				select {
				case r := <-gateCh:
					parked = append(parked, r)
				case i := <-putDone:
					_ = i
					running--
				case err := <-resetC:
					resetDone, resetErr = true, err
				case err := <-second:
					secondDone, secondErr = true, err
					secondRan = err == nil
				default:
					break drain
				}
			}
			if resetDone && nextPut >= len(s.Puts) && running == 0 && len(parked) == 0 && (!secondStarted || secondDone) {
				break
			}
			if s.CancelAt > 0 && step == s.CancelAt {
				if !resetDone {
					cancelFired = true
				}
				cancel()
				continue
			}
			type action struct {
				kind string
				i    int
			}
			var acts []action
			for i := range parked {
				acts = append(acts, action{"release", i})
			}
			if feedLeft > 0 && !resetDone {
				acts = append(acts, action{"feed", 0})
			}
			if nextPut < len(s.Puts) && (fed >= 1 || resetDone) {
				acts = append(acts, action{"put", 0})
			}
			if s.Second && !secondStarted && !resetDone && fed >= 1 {
				acts = append(acts, action{"reset2", 0})
			}
			if len(acts) == 0 {
				// nothing to choose: let virtual time pass (phase A ticker, back-pressure waits)
				time.Sleep(100 * time.Millisecond)
				continue
			}
			ch := 0
			if step < len(s.Schedule) {
				ch = s.Schedule[step]
			}
			a := acts[ch%len(acts)]
			switch a.kind {
			case "release":
				r := parked[a.i]
				parked = append(parked[:a.i], parked[a.i+1:]...)
				close(r.resume)
			case "feed":
				select {
				case feedTok <- struct{}{}:
					feedLeft--
					fed++
				default:
					// the feeder is still handing over the previous key: let time pass
					time.Sleep(time.Millisecond)
				}
			case "reset2":
				secondStarted = true
				ks := mhsOf(resolveKeys(s.Reset))
				ch2 := make(chan cid.Cid, len(ks))
				for _, h := range ks {
					ch2 <- cid.NewCidV1(cid.Raw, h)
				}
				close(ch2)
				go func() { second <- rk.ResetCids(ctx, ch2) }()
			case "put":
				p := &putRec{keys: resolveKeys(s.Puts[nextPut]), ackT: -1, startT: st.clock.Now()}
				puts = append(puts, p)
				if !resetDone {
					putsDuring++
				}
				idx := nextPut
				nextPut++
				running++
				go func() {
					_, err := rk.Put(ctx, mhsOf(p.keys)...)
					p.err = err
					if err == nil {
						p.ackT = st.clock.Now()
					}
					putDone <- idx
				}()
			}
		}
		st.meta.Gate = nil
		for _, d := range st.slot {
			d.Gate = nil
		}
		for _, r := range parked {
			close(r.resume)
		}
		cancel()
		<-feedDone
		if !resetDone {
			select {
			case resetErr = <-resetC:
				resetDone = true
			case <-time.After(10 * time.Minute):
				res.Fail("reset-returns", "C20/interleave/reset-hangs", "ResetCids did not return")
				return
			}
		}
		if secondStarted && !secondDone {
			select {
			case secondErr = <-second:
				secondDone, secondRan = true, secondErr == nil
			case <-time.After(10 * time.Minute):
				res.Fail("reset-returns", "C20/interleave/second-reset-hangs", "the second ResetCids call did not return")
				return
			}
		}
		if secondStarted && secondErr != nil && !errors.Is(secondErr, ErrResetInProgress) && !errors.Is(secondErr, context.Canceled) {
			res.Fail("second-reset-refused", "C20/interleave/second-reset-error", "the second ResetCids call returned %v", secondErr)
		}
		time.Sleep(time.Second)
		verifsim.Quiesce()
		// ---- final contents
		var must []int
		for _, p := range puts {
			if p.err == nil {
				must = append(must, p.keys...)
			}
		}
		check := func(when string, k Keystore) bool {
			got, size, err := contentsOf(ctx, k)
			if err != nil {
				res.Fail("read", "C20/interleave/read-error", "%s: %v", when, err)
				return false
			}
			gs := setOf(got)
			if secondRan {
				// the second call was not refused: it came to run as a reset of its own after the first one had finished, which
				// legitimately drops keys put between the two; only the size clause is kept for such a case
				if size != len(got) {
					res.Fail("size", "C20/interleave/size", "%s: Size %d but %d keys stored (after two resets)", when, size, len(got))
					return false
				}
				return true
			}
			for _, m := range must {
				if !gs[m] {
					res.Fail("acked-puts-kept", "C20/interleave/acked-put-lost", "%s: key %d whose Put was acknowledged during the reset is missing (reset err %v); contents %v, old %v, new %v, puts %v", when, m, resetErr, got, old, nw, must)
					return false
				}
			}
			rest := map[int]bool{}
			ms := setOf(must)
			for _, g := range got {
				if !ms[g] {
					rest[g] = true
				}
			}
			// what remains besides the concurrent puts must be exactly old-minus-puts or new-minus-puts
			eq := func(ref []int) bool {
				r := map[int]bool{}
				for _, x := range ref {
					if !ms[x] {
						r[x] = true
					}
				}
				if len(r) != len(rest) {
					return false
				}
				for x := range r {
					if !rest[x] {
						return false
					}
				}
				return true
			}
			// A reset that returns nil has replaced the contents - unless its context was cancelled while it ran: the property allows
			// "the complete previous set" after a cancellation, and a cancellation that lands in the final (worker-side) step aborts
			// the swap there although ResetCids itself has already decided to return nil (it does not look at that step's answer).
			wantNew := resetErr == nil && !cancelFired
			if !(eq(nw) || (!wantNew && eq(old))) {
				res.Fail("old-or-new", "C20/interleave/mixture", "%s: contents %v are neither new∪puts nor (reset failed: %v) old∪puts; old %v new %v puts %v", when, got, resetErr, old, nw, must)
				return false
			}
			if size != len(got) {
				res.Fail("size", "C20/interleave/size", "%s: Size %d but %d keys stored (reset err %v)", when, size, len(got), resetErr)
				return false
			}
			return true
		}
		if !check("running instance", rk) {
			return
		}
		rk.Close()
		closed = true
		// ---- crash enumeration over this (schedule-dependent) history
		if secondRan {
			return // two resets ran one after the other: the crash oracle below is written for one
		}
		allPut := map[int]bool{}
		for _, p := range puts {
			for _, x := range p.keys {
				allPut[x] = true
			}
		}
		ps := []physJ{{"meta", st.meta.Journal()}}
		for _, name := range []string{"0", "1"} {
			if d, ok := st.slot[name]; ok {
				ps = append(ps, physJ{name, d.Journal()})
			}
		}
		total := st.clock.Now()
		for T := t0; T <= total; T++ {
			lo := make([]int, len(ps))
			hi := make([]int, len(ps))
			for i, p := range ps {
				hi[i] = verifsim.EntriesUpTo(p.j, T)
				lo[i] = verifsim.LastSyncBefore(p.j, hi[i])
			}
			// extremes only (all lowest, all highest, each datastore lowest while the others are highest): the product can be large
			var combos [][]int
			combos = append(combos, append([]int(nil), hi...), append([]int(nil), lo...))
			for i := range ps {
				c := append([]int(nil), hi...)
				c[i] = lo[i]
				combos = append(combos, c)
				c2 := append([]int(nil), lo...)
				c2[i] = hi[i]
				combos = append(combos, c2)
			}
			for _, cut := range combos {
				res.Weight++
				st2 := newStores()
				st2.meta = verifsim.NewJournalDSFrom("meta", verifsim.StateAt(nil, ps[0].j, cut[0]))
				st2.meta.Clock = st2.clock
				for i, sl := range ps[1:] {
					d := verifsim.NewJournalDSFrom("slot"+sl.name, verifsim.StateAt(nil, sl.j, cut[i+1]))
					d.Clock = st2.clock
					st2.slot[sl.name] = d
				}
				k3, _, err := openKS(base, st2)
				if err != nil {
					res.Fail("crash/reopen", "C20/interleave/crash-reopen", "crash T=%d cuts %v: %v", T, cut, err)
					return
				}
				got, size, err := contentsOf(ctx, k3)
				k3.Close()
				if err != nil {
					res.Fail("crash/read", "C20/interleave/crash-read", "crash T=%d: %v", T, err)
					return
				}
				gs := setOf(got)
				for _, p := range puts {
					if p.ackT >= 0 && p.ackT <= T {
						for _, x := range p.keys {
							if !gs[x] {
								res.Fail("crash/acked-puts-kept", "C20/interleave/crash-acked-put-lost", "crash at instant %d (cuts %v, mode %s): key %d whose Put was acknowledged at instant %d is missing; contents %v old %v new %v", T, cut, s.Mode, x, p.ackT, got, old, nw)
								return
							}
						}
					}
				}
				rest := map[int]bool{}
				for _, g := range got {
					if !allPut[g] {
						rest[g] = true
					}
				}
				eqRef := func(ref []int) bool {
					n := 0
					for _, x := range ref {
						if !allPut[x] {
							if !rest[x] {
								return false
							}
							n++
						}
					}
					return n == len(rest)
				}
				if !eqRef(old) && !eqRef(nw) {
					res.Fail("crash/old-or-new", "C20/interleave/crash-mixture", "crash at instant %d (cuts %v, mode %s): contents %v are a mixture/partial set; old %v new %v concurrent puts %v", T, cut, s.Mode, got, old, nw, sortedKeys(allPut))
					return
				}
				if size != len(got) {
					res.Fail("crash/size", "C20/interleave/crash-size", "crash at instant %d: Size %d but %d keys", T, size, len(got))
					return
				}
			}
		}
		k2, _, err := openKS(base, st)
		if err != nil {
			res.Fail("open", "C20/open/error", "reopen: %v", err)
			return
		}
		check("after clean restart", k2)
		k2.Close()
	})
	if !out.OK() && len(res.Violations) == 0 {
		res.Fail("terminates", "C20/interleave/hang-or-panic", "%s %s\n%s", out.Deadlock, out.Panic, out.Stacks)
	}
	res.NonTrivial = putsDuring > 0
	if s.CancelAt > 0 {
		res.Class("cancelled")
	}
	if putsDuring > 0 {
		res.Class("puts-during-reset")
	}
	res.Class("mode-" + s.Mode)
	return
}

func TestVerif_C20_ResetInterleave(t *testing.T) {
	verifsim.RunCheck(t, verifsim.Check[ksIlSc]{
		Property: "C20", Part: "reset-interleave",
		Rule: "rapid: ResettableKeystore (shared/factory, prefixBits 0/8/16, batch size 1-3, reset buffer capacity 1-4) with 0-4 initial keys, a reset of 1-6 keys fed one by one, and 0-4 concurrent Put calls, optionally a second ResetCids call started while the first one runs (it has to be refused and to leave the running reset alone); EVERY datastore call of every goroutine is a " +
			"yield point, feeding the next reset key and starting the next Put are steps too, and a drawn choice list decides which step happens next (quiescence by synctest.Wait, virtual time for the phase-A ticker and back-pressure); optional cancellation at a drawn step; " +
			"oracle: ResetCids returns, afterwards and after a clean restart the contents are exactly new∪(acknowledged concurrent puts) (or old∪puts if the reset failed), never a mixture, no acknowledged put lost, Size equals the count; non-trivial = a Put was started while the reset was running",
		Gen: func(t *rapid.T) ksIlSc {
			s := ksIlSc{
				Mode:       rapid.SampledFrom([]string{"shared", "factory"}).Draw(t, "mode"),
				PrefixBits: rapid.SampledFrom([]int{0, 8, 16}).Draw(t, "prefixBits"),
				BatchSize:  rapid.IntRange(1, 3).Draw(t, "batchSize"),
				BufCap:     rapid.IntRange(1, 4).Draw(t, "bufCap"),
				Initial:    drawKeyRanks(t, "initial", 0, 4),
				Reset:      drawKeyRanks(t, "reset", 1, 6),
			}
			s.Puts = rapid.SliceOfN(rapid.SliceOfN(rapid.IntRange(0, 63), 1, 2), 0, 4).Draw(t, "puts")
			s.Schedule = rapid.SliceOfN(rapid.IntRange(0, 7), 0, 120).Draw(t, "schedule")
			if rapid.IntRange(0, 5).Draw(t, "cancel") == 0 {
				s.CancelAt = rapid.IntRange(1, 60).Draw(t, "cancelAt")
			}
			s.Second = rapid.IntRange(0, 2).Draw(t, "second") == 0
			return s
		},
		Run: func(t *testing.T, s ksIlSc) verifsim.Result { return runKSInterleave(t, s) },
	})
}
