//go:build verif

package records

// C05 — stored value records are always valid and never downgraded.
//
// Part "history": ValueStore over a journaling datastore under virtual time
// (synctest): puts, gets, clock advances around the maximum record age, GC
// ticks, planted garbage, restarts. Oracle = invariants over the datastore
// write log + read results.
//
// Part "interleave": 2-4 actors doing Put/Get on 1-2 keys with every datastore
// call a yield point released by a drawn schedule. Oracle = per-key write log
// is monotone under Select, all stored records valid and correctly keyed,
// final Get = best acknowledged value.

import (
	"bytes"
	"context"
	"errors"
	"fmt"
	"sort"
	"strconv"
	"strings"
	"testing"
	"time"

	ds "github.com/ipfs/go-datastore"
	"github.com/libp2p/go-libp2p-kad-dht/internal"
	"github.com/libp2p/go-libp2p-kad-dht/internal/verifsim"
	record "github.com/libp2p/go-libp2p-record"
	recpb "github.com/libp2p/go-libp2p-record/pb"
	"google.golang.org/protobuf/proto"
	"pgregory.net/rapid"
)

// test values: "<rank>|<tag>|<junk>"; valid for key iff tag == keyTag(key).
func keyTag(key string) string {
	_, rest, err := record.SplitKey(key)
	if err != nil {
		return "#" + key
	}
	return rest
}

func mkValue(rank int, tag, junk string) []byte {
	return []byte(fmt.Sprintf("%d|%s|%s", rank, tag, junk))
}

func parseValue(v []byte) (rank int, tag, junk string, ok bool) {
	parts := strings.SplitN(string(v), "|", 3)
	if len(parts) != 3 {
		return 0, "", "", false
	}
	r, err := strconv.Atoi(parts[0])
	if err != nil {
		return 0, "", "", false
	}
	return r, parts[1], parts[2], true
}

type rankValidator struct{}

func (rankValidator) Validate(key string, value []byte) error {
	_, tag, _, ok := parseValue(value)
	if !ok {
		return errors.New("malformed value")
	}
	if tag != keyTag(key) {
		return errors.New("value not for this key")
	}
	return nil
}

// better reports whether a is strictly preferred over b (total order: rank,
// then junk).
func better(a, b []byte) bool {
	ra, _, ja, _ := parseValue(a)
	rb, _, jb, _ := parseValue(b)
	if ra != rb {
		return ra > rb
	}
	return ja > jb
}

func (rankValidator) Select(key string, vals [][]byte) (int, error) {
	if len(vals) == 0 {
		return 0, errors.New("no values")
	}
	best := 0
	for i := 1; i < len(vals); i++ {
		if better(vals[i], vals[best]) {
			best = i
		}
	}
	return best, nil
}

func testValidator() record.Validator {
	return record.NamespacedValidator{"v": rankValidator{}, "w": rankValidator{}, "providers": rankValidator{}}
}

var c05Keys = []string{"/v/a", "/v/b", "/v/ca", "/w/a", "/v/xa", "/providers/a"} // several share the last byte (same lock stripe)

type vsOp struct {
	Op    string `json:"op"` // put get advance plant restart
	Key   int    `json:"key"`
	Rank  int    `json:"rank,omitempty"`
	Junk  string `json:"junk,omitempty"`
	Bad   string `json:"bad,omitempty"`   // put: "" | "tag" (value for another key) | "malformed"
	Stamp string `json:"stamp,omitempty"` // put: receive time the caller's record carries: "" none | now | past | future | garbage
	Dur   int    `json:"dur,omitempty"`   // advance: seconds
	Kind  string `json:"kind,omitempty"`  // plant: corrupt | misfiled | notime | invalid | foreign | provider
}

type vsSc struct {
	MaxAgeS int    `json:"max_age_s"` // 0 disables expiry
	GCS     int    `json:"gc_s"`      // GC interval seconds, 0 = no GC
	Ops     []vsOp `json:"ops"`
}

type wlEntry struct {
	dskey  string
	del    bool
	value  []byte // raw bytes written
	at     time.Time
	plant  bool
	jindex int
}

func decodeRec(b []byte) *recpb.Record {
	r := new(recpb.Record)
	if proto.Unmarshal(b, r) != nil {
		return nil
	}
	return r
}

// scanJournal appends new journal entries to the write log and checks the
// write invariants of every store-originated write.
func scanJournal(res *verifsim.Result, d *verifsim.JournalDS, from int, wl *[]wlEntry, now time.Time, maxAge time.Duration, protected map[string][]byte, ctxs string) int {
	val := testValidator()
	j := d.Journal()
	for i := from; i < len(j); i++ {
		for _, w := range j[i].Writes {
			e := wlEntry{dskey: w.Key, del: w.Del, value: w.Value, at: now, jindex: i}
			if _, prot := protected[w.Key]; prot {
				res.Fail("foreign-untouched", "C05/foreign/modified", "%s: the store wrote/deleted foreign key %s", ctxs, w.Key)
			}
			// previous state of this dskey
			var prev *wlEntry
			for k := len(*wl) - 1; k >= 0; k-- {
				if (*wl)[k].dskey == w.Key {
					prev = &(*wl)[k]
					break
				}
			}
			if w.Del {
				// deletes are allowed only for planted garbage or expired records
				if prev == nil || prev.del {
					// deleting nothing: harmless
				} else if !prev.plant {
					r := decodeRec(prev.value)
					t, err := internal.ParseRFC3339(r.GetTimeReceived())
					if maxAge <= 0 || (err == nil && now.Sub(t) <= maxAge) {
						res.Fail("delete-only-expired", "C05/delete/live-record", "%s: deleted a live record under %s (age %v, max %v)", ctxs, w.Key, now.Sub(t), maxAge)
					}
				}
			} else {
				r := decodeRec(w.Value)
				if r == nil {
					res.Fail("stored-valid", "C05/stored/undecodable", "%s: stored undecodable bytes under %s", ctxs, w.Key)
				} else {
					key := string(r.GetKey())
					if valueDsKey(key).String() != w.Key {
						res.Fail("stored-keyed", "C05/stored/wrong-key", "%s: record with embedded key %q stored under %s", ctxs, key, w.Key)
					}
					if err := val.Validate(key, r.GetValue()); err != nil {
						res.Fail("stored-valid", "C05/stored/invalid", "%s: stored a record the validator rejects (%v): key %q value %q", ctxs, err, key, r.GetValue())
					}
					if t, err := internal.ParseRFC3339(r.GetTimeReceived()); err != nil || !t.Equal(now.UTC()) {
						res.Fail("stored-stamped", "C05/stored/timestamp", "%s: stored record stamped %q, now %v", ctxs, r.GetTimeReceived(), now.UTC())
					}
					// never downgrade: previous live store-written (or valid planted) record must not be better
					if prev != nil && !prev.del {
						if pr := decodeRec(prev.value); pr != nil && val.Validate(string(pr.GetKey()), pr.GetValue()) == nil {
							if better(pr.GetValue(), r.GetValue()) {
								res.Fail("never-downgraded", "C05/stored/downgrade", "%s: %s: value %q replaced by worse %q", ctxs, w.Key, pr.GetValue(), r.GetValue())
							}
						}
					}
				}
			}
			*wl = append(*wl, e)
		}
	}
	return len(j)
}

func lastWrite(wl []wlEntry, dskey string) *wlEntry {
	for k := len(wl) - 1; k >= 0; k-- {
		if wl[k].dskey == dskey {
			return &wl[k]
		}
	}
	return nil
}

func runVS(t *testing.T, s vsSc) (res verifsim.Result) {
	expiries, worseAfterBetter, restarts, plants := 0, 0, 0, 0
	out := verifsim.Bubble(t, func() {
		ctx := context.Background()
		d := verifsim.NewJournalDS("values")
		maxAge := time.Duration(s.MaxAgeS) * time.Second
		val := testValidator()
		protected := map[string][]byte{}
		var wl []wlEntry
		jpos := 0
		var vs *ValueStore
		open := func() {
			vs = NewValueStore(d, val, maxAge)
			if s.GCS > 0 {
				vs.StartGC(ctx, time.Duration(s.GCS)*time.Second)
			}
		}
		open()
		defer func() { vs.Close() }()
		for i, op := range s.Ops {
			key := c05Keys[op.Key%len(c05Keys)]
			dskey := valueDsKey(key).String()
			step := fmt.Sprintf("step %d %s %s", i, op.Op, key)
			switch op.Op {
			case "put":
				tag := keyTag(key)
				if op.Bad == "tag" {
					tag = "other"
				}
				v := mkValue(op.Rank, tag, op.Junk)
				if op.Bad == "malformed" {
					v = []byte("garbage")
				}
				rec := record.MakePutRecord(key, v)
				// the receive time is a wire field: whatever the sender put there must not survive into the store
				switch op.Stamp {
				case "now":
					rec.TimeReceived = internal.FormatRFC3339(time.Now())
				case "past":
					rec.TimeReceived = internal.FormatRFC3339(time.Now().Add(-1000 * time.Hour))
				case "future":
					rec.TimeReceived = internal.FormatRFC3339(time.Now().Add(1000 * time.Hour))
				case "garbage":
					rec.TimeReceived = "attacker-supplied"
				}
				if op.Stamp == "past" || op.Stamp == "future" {
					res.Class("put-with-foreign-stamp")
				}
				prev := lastWrite(wl, dskey)
				err := vs.Put(ctx, key, rec)
				n0 := len(wl)
				jpos = scanJournal(&res, d, jpos, &wl, time.Now(), maxAge, protected, step)
				wrote := false
				for _, e := range wl[n0:] {
					if e.dskey == dskey && !e.del {
						wrote = true
					}
				}
				valid := val.Validate(key, v) == nil
				var existing []byte
				if prev != nil && !prev.del {
					if pr := decodeRec(prev.value); pr != nil && val.Validate(string(pr.GetKey()), pr.GetValue()) == nil {
						existing = pr.GetValue()
					}
				}
				switch {
				case !valid:
					if err == nil || wrote {
						res.Fail("put/invalid-rejected", "C05/put/invalid-accepted", "%s: invalid value %q: err=%v wrote=%v", step, v, err, wrote)
					}
				case existing != nil && better(existing, v):
					worseAfterBetter++
					if !errors.Is(err, ErrOldRecord) || wrote {
						res.Fail("put/worse-refused", "C05/put/worse-accepted", "%s: %q over better %q: err=%v wrote=%v", step, v, existing, err, wrote)
					}
				default:
					if errors.Is(err, ErrOldRecord) && existing != nil && bytes.Equal(existing, v) {
						// storing the identical value again: either outcome is fine
					} else if err != nil || !wrote {
						res.Fail("put/accepted", "C05/put/rejected-good", "%s: %q (existing %q): err=%v wrote=%v", step, v, existing, err, wrote)
					} else {
						// acknowledged put immediately readable
						got, gerr := vs.Get(ctx, key)
						if gerr != nil || got == nil || !bytes.Equal(got.GetValue(), v) {
							res.Fail("put/readable", "C05/put/not-readable", "%s: acknowledged %q but Get = %v, %v", step, v, got, gerr)
						}
					}
				}
			case "get":
				prev := lastWrite(wl, dskey)
				got, err := vs.Get(ctx, key)
				now := time.Now()
				if err != nil {
					res.Fail("get/error", "C05/get/error", "%s: %v", step, err)
					break
				}
				// expectation from the write log
				var want []byte
				if prev != nil && !prev.del {
					if r := decodeRec(prev.value); r != nil && string(r.GetKey()) == key {
						tr, terr := internal.ParseRFC3339(r.GetTimeReceived())
						if maxAge <= 0 || (terr == nil && now.Sub(tr) <= maxAge) {
							want = r.GetValue()
							if prev.plant && val.Validate(key, r.GetValue()) != nil {
								want = nil // planted invalid record: either outcome accepted below
								if got != nil {
									// Get does not re-validate (documented); served to callers who validate. Not asserted.
									got = nil
								}
							}
						} else {
							expiries++
						}
					}
				}
				if want == nil && got != nil {
					res.Fail("get/absent", "C05/get/served-stale-or-bad", "%s: Get returned %q (received %s) but no live record is stored (max age %v)", step, got.GetValue(), got.GetTimeReceived(), maxAge)
				}
				if want != nil && (got == nil || !bytes.Equal(got.GetValue(), want)) {
					res.Fail("get/present", "C05/get/missing", "%s: Get = %v, want value %q", step, got, want)
				}
				if got != nil && string(got.GetKey()) != key {
					res.Fail("get/keyed", "C05/get/wrong-key", "%s: Get returned record for key %q", step, got.GetKey())
				}
				jpos = scanJournal(&res, d, jpos, &wl, now, maxAge, protected, step)
			case "advance":
				// advance in chunks of the GC interval so that every sweep is observed at its own instant
				left := time.Duration(op.Dur) * time.Second
				chunk := left
				if s.GCS > 0 {
					chunk = time.Duration(s.GCS) * time.Second
				}
				for left > 0 {
					c := min(chunk, left)
					time.Sleep(c)
					left -= c
					verifsim.Quiesce() // let a GC tick that became due run to completion
					jpos = scanJournal(&res, d, jpos, &wl, time.Now(), maxAge, protected, step)
				}
			case "plant":
				plants++
				var raw []byte
				target := dskey
				switch op.Kind {
				case "corrupt":
					raw = []byte{0xff, 0x01, 0x02}
				case "misfiled":
					other := c05Keys[(op.Key+1)%len(c05Keys)]
					r := record.MakePutRecord(other, mkValue(op.Rank, keyTag(other), "m"))
					r.TimeReceived = internal.FormatRFC3339(time.Now())
					raw, _ = proto.Marshal(r)
				case "notime":
					r := record.MakePutRecord(key, mkValue(op.Rank, keyTag(key), "n"))
					raw, _ = proto.Marshal(r)
				case "invalid":
					r := record.MakePutRecord(key, mkValue(op.Rank, "other", "i"))
					r.TimeReceived = internal.FormatRFC3339(time.Now())
					raw, _ = proto.Marshal(r)
				case "provider":
					target = ProvidersKeyPrefix + "AAAA/BBBB"
					raw = []byte{1, 2, 3}
					protected[target] = raw
				default: // foreign
					target = "/other/data" + strconv.Itoa(op.Key)
					r := record.MakePutRecord("/zz/q", mkValue(1, "q", "f"))
					raw, _ = proto.Marshal(r)
					protected[target] = raw
				}
				d.PlantRaw(target, raw)
				wl = append(wl, wlEntry{dskey: target, value: raw, at: time.Now(), plant: true})
			case "restart":
				restarts++
				vs.Close()
				open()
			}
			if len(res.Violations) > 0 {
				return
			}
		}
		// foreign data must have survived every sweep
		snap := d.Snapshot()
		for k, v := range protected {
			if !bytes.Equal(snap[k], v) {
				res.Fail("foreign-untouched", "C05/foreign/modified", "foreign key %s changed or deleted", k)
			}
		}
	})
	if !out.OK() {
		res.Fail("terminates", "C05/history/hang-or-panic", "%s %s\n%s", out.Deadlock, out.Panic, out.Stacks)
	}
	res.NonTrivial = worseAfterBetter > 0 || expiries > 0
	if worseAfterBetter > 0 {
		res.Class("worse-after-better")
	}
	if expiries > 0 {
		res.Class("expiry-crossing")
	}
	if restarts > 0 {
		res.Class("restart")
	}
	if plants > 0 {
		res.Class("planted")
	}
	if s.GCS > 0 {
		res.Class("gc")
	}
	return
}

func c05HistoryCheck() verifsim.Check[vsSc] {
	return verifsim.Check[vsSc]{
		Property: "C05", Part: "history",
		Rule: "rapid state machine under synctest virtual time: 1-25 operations on 6 keys (shared lock stripes, two namespaces, the reserved providers namespace): put of valid/" +
			"mis-tagged/malformed values with ranks 0-4 whose record carries no / the current / a past / a future / a garbage receive time, get, clock advance of fractions/multiples of the max record age (age disabled, 60 s, 3600 s), GC ticks, planted corrupt/" +
			"mis-filed/untimed/invalid/foreign/provider-subtree bytes, restart; oracle = invariants over the datastore write log (every stored record decodes, validates, is filed " +
			"under its embedded key and stamped now; a replacement is never worse; only expired or planted entries are deleted; foreign keys untouched) and Get/Put outcomes derived " +
			"from the log; non-trivial = a worse-after-better put or a read across an expiry",
		Gen: func(t *rapid.T) vsSc {
			s := vsSc{MaxAgeS: rapid.SampledFrom([]int{0, 60, 3600}).Draw(t, "maxAge"), GCS: rapid.SampledFrom([]int{0, 0, 7, 45, 600}).Draw(t, "gc")}
			s.Ops = rapid.SliceOfN(rapid.Custom(func(t *rapid.T) vsOp {
				key := rapid.IntRange(0, len(c05Keys)-1).Draw(t, "key")
				switch rapid.IntRange(0, 11).Draw(t, "kind") {
				case 0, 1, 2, 3, 4:
					bad := ""
					switch rapid.IntRange(0, 7).Draw(t, "bad") {
					case 0:
						bad = "tag"
					case 1:
						bad = "malformed"
					}
					return vsOp{Op: "put", Key: key, Rank: rapid.IntRange(0, 4).Draw(t, "rank"), Junk: rapid.SampledFrom([]string{"", "a", "b"}).Draw(t, "junk"), Bad: bad,
						Stamp: rapid.SampledFrom([]string{"", "", "", "now", "past", "future", "garbage"}).Draw(t, "stamp")}
				case 5, 6, 7:
					return vsOp{Op: "get", Key: key}
				case 8, 9:
					base := s.MaxAgeS
					if base == 0 {
						base = 100
					}
					f := rapid.SampledFrom([]int{1, 10, 50, 99, 101, 150, 300}).Draw(t, "frac")
					return vsOp{Op: "advance", Dur: max(1, base*f/100)}
				case 10:
					return vsOp{Op: "plant", Key: key, Rank: rapid.IntRange(0, 4).Draw(t, "rank"), Kind: rapid.SampledFrom([]string{"corrupt", "misfiled", "notime", "invalid", "foreign", "provider"}).Draw(t, "plantKind")}
				default:
					return vsOp{Op: "restart"}
				}
			}), 1, 25).Draw(t, "ops")
			return s
		},
		Run: func(t *testing.T, s vsSc) verifsim.Result { return runVS(t, s) },
	}
}

func TestVerif_C05_History(t *testing.T) { verifsim.RunCheck(t, c05HistoryCheck()) }

// the same generator and oracle driven by Go's coverage-guided fuzzer (thorough tier)
func FuzzVerif_C05_History(f *testing.F) {
	verifsim.RunFuzz(f, c05HistoryCheck(), "TestVerif_C05_History")
}

// ---------- part: interleavings ----------

type ilOp struct {
	Op   string `json:"op"` // put get
	Key  int    `json:"key"`
	Rank int    `json:"rank,omitempty"`
	Junk string `json:"junk,omitempty"`
}

type ilSc struct {
	Keys     []int    `json:"keys"` // indices into c05Keys actually used (1-2)
	Actors   [][]ilOp `json:"actors"`
	Schedule []int    `json:"schedule"`
	Plant    string   `json:"plant,omitempty"` // "", "expired", "corrupt": initial content of key 0
}

func runIL(t *testing.T, s ilSc) (res verifsim.Result) {
	ctx := context.Background()
	d := verifsim.NewJournalDS("values")
	val := testValidator()
	maxAge := time.Hour
	vs := NewValueStore(d, val, maxAge)
	sch := verifsim.NewSched()
	key := func(i int) string { return c05Keys[s.Keys[i%len(s.Keys)]%len(c05Keys)] }
	switch s.Plant {
	case "expired":
		r := record.MakePutRecord(key(0), mkValue(9, keyTag(key(0)), "old"))
		r.TimeReceived = internal.FormatRFC3339(time.Now().Add(-2 * time.Hour))
		raw, _ := proto.Marshal(r)
		d.PlantRaw(valueDsKey(key(0)).String(), raw)
	case "corrupt":
		d.PlantRaw(valueDsKey(key(0)).String(), []byte{0xff, 0, 1})
	}
	type ack struct {
		key   string
		value []byte
		err   error
	}
	acks := make([][]ack, len(s.Actors))
	gets := 0
	for ai, ops := range s.Actors {
		ai, ops := ai, ops
		sch.Go(fmt.Sprintf("a%d", ai), func() {
			for _, op := range ops {
				k := key(op.Key)
				if op.Op == "put" {
					v := mkValue(op.Rank, keyTag(k), op.Junk)
					err := vs.Put(ctx, k, record.MakePutRecord(k, v))
					acks[ai] = append(acks[ai], ack{k, v, err})
				} else {
					got, err := vs.Get(ctx, k)
					if err == nil && got != nil {
						acks[ai] = append(acks[ai], ack{k, append([]byte("GET:"), got.GetValue()...), nil})
					}
				}
			}
		})
	}
	d.Gate = sch.Gate
	bothPastValidation := 0
	trace, err := sch.Drive(func(step, n int) int {
		// count decision points at which >=2 actors are parked inside a Put
		inPut := 0
		for _, a := range sch.Parked() {
			if a.At.Op == "get" || a.At.Op == "put" {
				inPut++
			}
		}
		if inPut >= 2 {
			bothPastValidation++
		}
		if step < len(s.Schedule) {
			return s.Schedule[step] % n
		}
		return 0
	}, 400)
	d.Gate = nil
	if err != nil {
		if strings.HasPrefix(err.Error(), "deadlock") {
			res.Fail("no-deadlock", "C05/interleave/deadlock", "%v; trace %v", err, trace)
		} else {
			// scheduler could not settle: inconclusive, reported as a panic to stop the run
			panic("C05 scheduler: " + err.Error())
		}
		return
	}
	for _, p := range sch.Panics() {
		res.Fail("no-panic", "C05/interleave/panic", "%s", p)
	}
	// write log per datastore key
	perKey := map[string][][]byte{}
	for _, e := range d.Journal() {
		for _, w := range e.Writes {
			if w.Del {
				perKey[w.Key] = append(perKey[w.Key], nil)
				continue
			}
			r := decodeRec(w.Value)
			if r == nil {
				res.Fail("stored-valid", "C05/stored/undecodable", "undecodable bytes stored under %s", w.Key)
				continue
			}
			k := string(r.GetKey())
			if valueDsKey(k).String() != w.Key {
				res.Fail("stored-keyed", "C05/stored/wrong-key", "record for %q stored under %s", k, w.Key)
			}
			if val.Validate(k, r.GetValue()) != nil {
				res.Fail("stored-valid", "C05/stored/invalid", "invalid record %q stored under %s", r.GetValue(), w.Key)
			}
			perKey[w.Key] = append(perKey[w.Key], r.GetValue())
		}
	}
	for dk, seq := range perKey {
		var prev []byte
		for _, v := range seq {
			if v == nil {
				// deletes may only hit the planted expired/corrupt entry: no store-written record may be deleted (max age 1h, no time passes)
				if prev != nil {
					res.Fail("delete-only-expired", "C05/delete/live-record", "%s: live record %q deleted; trace %v", dk, prev, trace)
				}
				prev = nil
				continue
			}
			if prev != nil && better(prev, v) {
				res.Fail("never-downgraded", "C05/stored/downgrade", "%s: write log %q: %q replaced by worse %q; trace %v", dk, seq, prev, v, trace)
			}
			prev = v
		}
	}
	// final Get = best acknowledged value per key
	for i := range s.Keys {
		k := key(i)
		var best []byte
		for _, as := range acks {
			for _, a := range as {
				if a.key == k && a.err == nil && !bytes.HasPrefix(a.value, []byte("GET:")) {
					if best == nil || better(a.value, best) {
						best = a.value
					}
				}
			}
		}
		got, err := vs.Get(ctx, k)
		if err != nil {
			res.Fail("get/error", "C05/get/error", "%v", err)
			continue
		}
		if best != nil && (got == nil || !bytes.Equal(got.GetValue(), best)) {
			res.Fail("final-best", "C05/interleave/final-not-best", "key %s: final Get = %v, best acknowledged put %q; trace %v", k, got, best, trace)
		}
		if best == nil && got != nil && s.Plant == "" {
			res.Fail("final-best", "C05/interleave/final-invented", "key %s: final Get = %q but no put was acknowledged", k, got.GetValue())
		}
	}
	// every value returned by a concurrent Get was stored at some point
	for _, as := range acks {
		for _, a := range as {
			if bytes.HasPrefix(a.value, []byte("GET:")) {
				gets++
				v := a.value[4:]
				found := false
				for _, seq := range perKey {
					for _, w := range seq {
						if bytes.Equal(w, v) {
							found = true
						}
					}
				}
				if !found {
					res.Fail("get/stored", "C05/interleave/get-never-stored", "Get returned %q which was never stored", v)
				}
			}
		}
	}
	res.NonTrivial = bothPastValidation > 0
	if bothPastValidation > 0 {
		res.Class("two-writers-parked")
	}
	if s.Plant != "" {
		res.Class("planted-" + s.Plant)
	}
	sort.Strings(trace)
	return
}

func TestVerif_C05_Interleave(t *testing.T) {
	verifsim.RunCheck(t, verifsim.Check[ilSc]{
		Property: "C05", Part: "interleave",
		Rule: "rapid: 2-4 actors each running 1-3 Put/Get operations on 1-2 keys (same or different lock stripe), optional planted expired/corrupt record; every datastore call is a " +
			"yield point and a drawn choice list decides which parked actor proceeds (goroutine-state probe detects actors blocked on the stripe lock); oracle = per-key write log " +
			"monotone under the validator's order, stored records valid/keyed, no live record deleted, final Get = best acknowledged put, concurrent Gets only return stored values; " +
			"non-trivial = a decision point with >=2 actors parked inside datastore calls",
		Gen: func(t *rapid.T) ilSc {
			s := ilSc{}
			nk := rapid.IntRange(1, 2).Draw(t, "nKeys")
			s.Keys = rapid.SliceOfNDistinct(rapid.IntRange(0, len(c05Keys)-1), nk, nk, func(i int) int { return i }).Draw(t, "keys")
			na := rapid.IntRange(2, 4).Draw(t, "nActors")
			for a := 0; a < na; a++ {
				ops := rapid.SliceOfN(rapid.Custom(func(t *rapid.T) ilOp {
					if rapid.IntRange(0, 3).Draw(t, "isGet") == 0 {
						return ilOp{Op: "get", Key: rapid.IntRange(0, nk-1).Draw(t, "k")}
					}
					return ilOp{Op: "put", Key: rapid.IntRange(0, nk-1).Draw(t, "k"), Rank: rapid.IntRange(0, 3).Draw(t, "rank"), Junk: rapid.SampledFrom([]string{"", "x"}).Draw(t, "junk")}
				}), 1, 3).Draw(t, "ops")
				s.Actors = append(s.Actors, ops)
			}
			s.Schedule = rapid.SliceOfN(rapid.IntRange(0, 3), 0, 40).Draw(t, "schedule")
			s.Plant = rapid.SampledFrom([]string{"", "", "expired", "corrupt"}).Draw(t, "plant")
			return s
		},
		Run: func(t *testing.T, s ilSc) verifsim.Result { return runIL(t, s) },
	})
}

var _ = ds.ErrNotFound
