//go:build verif

package records

// C07 — provider records are served exactly while valid and survive restarts.
//
// Part "history": ProviderManager with a tiny LRU over a journaling datastore
// under virtual time, against a (key,peer)->last-addition model.
// Part "interleave": adders, readers and the expiry sweep interleaved at
// datastore-call granularity; the documented lost-re-addition exception is
// implemented literally, nothing else may be lost.

import (
	"context"
	"errors"
	"fmt"
	"sort"
	"strings"
	"testing"
	"time"

	lru "github.com/hashicorp/golang-lru/simplelru"
	"github.com/libp2p/go-libp2p-kad-dht/internal/verifsim"
	"github.com/libp2p/go-libp2p/core/peer"
	"github.com/libp2p/go-libp2p/p2p/host/peerstore/pstoremem"
	"github.com/multiformats/go-base32"
	ma "github.com/multiformats/go-multiaddr"
	"pgregory.net/rapid"
)

const c07Validity = 1000 * time.Second

// keys include byte-prefix pairs: base32("ab") is a string prefix of base32 of some longer keys only by accident, so we
// construct pairs whose raw base32 encodings are string prefixes of each other (5-byte blocks encode independently).
var c07Keys = [][]byte{
	[]byte("abcde"), []byte("abcdefghij"), []byte("abcdefghijk"), []byte("x"), []byte("xy"), []byte("\x00\x01"), []byte("abcdf"),
}

func c07Peer(i int) peer.ID { return peer.ID(verifsim.NewPool("peer", 64).IDs[i%64]) }

var c07Addr = ma.StringCast("/ip4/10.1.2.3/tcp/4001")

type pmOp struct {
	Op      string `json:"op"` // add get advance restart closelate cancelget plant
	Key     int    `json:"key"`
	Peer    int    `json:"peer"`
	Addr    bool   `json:"addr,omitempty"`
	DurS    int    `json:"dur_s,omitempty"`
	Kind    string `json:"kind,omitempty"`     // plant: badtime | badpeer
	FailPut bool   `json:"fail_put,omitempty"` // add: the datastore refuses the write (the add returns an error and does not count as an addition)
}

type pmSc struct {
	Cache int    `json:"cache"`
	GCS   int    `json:"gc_s"`
	Ops   []pmOp `json:"ops"`
}

type kp struct {
	k string
	p peer.ID
}

func idsOf(infos []peer.AddrInfo) ([]string, bool) {
	var out []string
	seen := map[peer.ID]bool{}
	dup := false
	for _, ai := range infos {
		if seen[ai.ID] {
			dup = true
		}
		seen[ai.ID] = true
		out = append(out, string(ai.ID))
	}
	sort.Strings(out)
	return out, dup
}

func runPM(t *testing.T, s pmSc) (res verifsim.Result) {
	afterEvict, afterRestart, expiryCross, failedAdds, failedReAdds := 0, 0, 0, 0, 0
	out := verifsim.Bubble(t, func() {
		ctx := context.Background()
		d := verifsim.NewJournalDS("providers")
		pstore, err := pstoremem.NewPeerstore()
		if err != nil {
			panic(err)
		}
		defer pstore.Close()
		self := c07Peer(0)
		var pm *ProviderManager
		open := func() {
			c, _ := lru.NewLRU(s.Cache, nil)
			pm, err = NewProviderManager(self, pstore, d, Cache(c), ProvideValidity(c07Validity), CleanupInterval(time.Duration(s.GCS)*time.Second))
			if err != nil {
				panic(err)
			}
			d.MarkReopened()
		}
		open()
		defer func() { pm.Close() }()
		model := map[kp]time.Time{}
		attempt := map[kp]time.Time{} // additions whose write the datastore refused
		touched := map[string]bool{}  // keys read since last restart (may be cached)
		keysSinceRead := map[string]int{}
		restartedSince := map[string]bool{}
		for i, op := range s.Ops {
			key := c07Keys[op.Key%len(c07Keys)]
			p := c07Peer(op.Peer)
			step := fmt.Sprintf("step %d %s key=%q peer=%d", i, op.Op, key, op.Peer%64)
			switch op.Op {
			case "add":
				ai := peer.AddrInfo{ID: p}
				if op.Addr {
					ai.Addrs = []ma.Multiaddr{c07Addr}
				}
				if op.FailPut {
					// the write is refused: the call must say so; the refused addition is no addition (earlier ones keep counting),
					// though the provider may be served on the strength of it while its key stays cached
					d.FailCall = func(c verifsim.Call) bool { return c.Op == "put" || c.Op == "batch-put" || c.Op == "commit" }
					err := pm.AddProvider(ctx, key, ai)
					d.FailCall = nil
					if err == nil {
						res.Fail("add/error", "C07/add/refused-write-acknowledged", "%s: the datastore refused the write, AddProvider returned no error", step)
						return
					}
					attempt[kp{string(key), p}] = time.Now()
					failedAdds++
					if _, ok := model[kp{string(key), p}]; ok {
						failedReAdds++
					}
					continue
				}
				if err := pm.AddProvider(ctx, key, ai); err != nil {
					res.Fail("add/error", "C07/add/error", "%s: %v", step, err)
					return
				}
				model[kp{string(key), p}] = time.Now()
				// durability: the acknowledged add is in the datastore with the right time
				snap := d.Snapshot()
				raw, ok := snap[mkProvKeyFor(key, p)]
				tm, terr := readTimeValue(raw)
				if !ok || terr != nil || !tm.Equal(time.Now()) {
					res.Fail("add/durable", "C07/add/not-in-datastore", "%s: datastore entry missing or wrong time (%v %v %v)", step, ok, terr, tm)
					return
				}
			case "get":
				got, err := pm.GetProviders(ctx, key)
				if err != nil {
					res.Fail("get/error", "C07/get/error", "%s: %v", step, err)
					return
				}
				ids, dup := idsOf(got)
				if dup {
					res.Fail("get/no-duplicates", "C07/get/duplicate", "%s: duplicates in %d results", step, len(got))
					return
				}
				now := time.Now()
				var must, may []string
				for x, tAdd := range model {
					if x.k != string(key) {
						continue
					}
					age := now.Sub(tAdd)
					switch {
					case age < c07Validity:
						must = append(must, string(x.p))
					case age == c07Validity:
						may = append(may, string(x.p))
					default:
						expiryCross++
					}
				}
				sort.Strings(must)
				gotSet := map[string]bool{}
				for _, id := range ids {
					gotSet[id] = true
				}
				for _, m := range must {
					if !gotSet[m] {
						sig := "C07/get/missing"
						if restartedSince[string(key)] {
							sig = "C07/get/missing-after-restart"
						}
						res.Fail("get/complete", sig, "%s: valid provider %x… missing; got %d want %d", step, m[2:6], len(ids), len(must))
						return
					}
					delete(gotSet, m)
				}
				for _, m := range may {
					delete(gotSet, m)
				}
				for extra := range gotSet {
					if at, ok := attempt[kp{string(key), peer.ID(extra)}]; ok && now.Sub(at) <= c07Validity {
						continue // (served from the cache on the strength of a refused addition: tolerated)
					}
					_, ever := model[kp{string(key), peer.ID(extra)}]
					if ever {
						res.Fail("get/no-expired", "C07/get/expired-served", "%s: provider %x… served after its validity elapsed", step, extra[2:6])
					} else {
						res.Fail("get/no-invented", "C07/get/never-added", "%s: provider %x… was never added for this key", step, extra[2:6])
					}
					return
				}
				if restartedSince[string(key)] && len(must) > 0 {
					afterRestart++
					delete(restartedSince, string(key))
				}
				if n, ok := keysSinceRead[string(key)]; ok && n >= s.Cache && len(must) > 0 {
					afterEvict++
				}
				for k := range keysSinceRead {
					keysSinceRead[k]++
				}
				keysSinceRead[string(key)] = 0
				touched[string(key)] = true
			case "advance":
				time.Sleep(time.Duration(op.DurS)*time.Second + 100*time.Millisecond)
				verifsim.Quiesce()
			case "restart":
				pm.Close()
				open()
				for x := range model {
					restartedSince[x.k] = true
				}
				keysSinceRead = map[string]int{}
			case "closelate":
				if err := pm.Close(); err != nil {
					res.Fail("close/error", "C07/close/error", "%s: %v", step, err)
					return
				}
				d.MarkClosed()
				if err := pm.AddProvider(ctx, key, peer.AddrInfo{ID: p}); !errors.Is(err, ErrClosed) {
					res.Fail("closed/add", "C07/closed/add-not-refused", "%s: AddProvider after Close returned %v", step, err)
					return
				}
				if _, err := pm.GetProviders(ctx, key); !errors.Is(err, ErrClosed) {
					res.Fail("closed/get", "C07/closed/get-not-refused", "%s: GetProviders after Close returned %v", step, err)
					return
				}
				pm.Close() // idempotent
				time.Sleep(time.Duration(2*s.GCS+1) * time.Second)
				verifsim.Quiesce()
				if late := d.LateCalls(); len(late) > 0 {
					res.Fail("closed/no-datastore-access", "C07/closed/datastore-touched", "%s: %d datastore calls after Close returned, first %s %s", step, len(late), late[0].Op, late[0].Key)
					return
				}
				open()
				for x := range model {
					restartedSince[x.k] = true
				}
				keysSinceRead = map[string]int{}
			case "cancelget":
				cctx, cancel := context.WithCancel(ctx)
				cancel()
				if _, err := pm.GetProviders(cctx, key); !errors.Is(err, context.Canceled) {
					res.Fail("get/cancelled", "C07/get/cancelled-ctx", "%s: GetProviders with cancelled ctx returned %v", step, err)
					return
				}
			case "plant":
				switch op.Kind {
				case "badtime":
					d.PlantRaw(mkProvKeyFor(key, c07Peer(40+op.Peer%8)), []byte{})
				default:
					d.PlantRaw(mkProvKey(key)+"/!!!notbase32!!!", []byte{2})
				}
				// a planted entry is only guaranteed to be ignored when the key is loaded from disk
			}
		}
	})
	if !out.OK() {
		res.Fail("terminates", "C07/history/hang-or-panic", "%s %s\n%s", out.Deadlock, out.Panic, out.Stacks)
	}
	res.NonTrivial = afterEvict > 0 || afterRestart > 0 || expiryCross > 0
	if afterEvict > 0 {
		res.Class("read-after-eviction")
	}
	if afterRestart > 0 {
		res.Class("read-after-restart")
	}
	if expiryCross > 0 {
		res.Class("expiry-crossing")
	}
	if failedAdds > 0 {
		res.Class("addition-refused-by-the-datastore")
	}
	if failedReAdds > 0 {
		res.Class("re-addition-refused-by-the-datastore")
	}
	if s.GCS > 0 {
		res.Class("gc-enabled")
	}
	return
}

func c07HistoryCheck() verifsim.Check[pmSc] {
	return verifsim.Check[pmSc]{
		Property: "C07", Part: "history",
		Rule: "rapid state machine under synctest virtual time: 1-30 operations over 7 keys (incl. keys whose base32 forms are string prefixes of each other) and 6 peers with LRU size 1-3 " +
			"(key count exceeds it) and GC interval 0/70/300/1100 s: add (local/remote, with/without address), get, clock advance around the 1000 s validity, restart on the same datastore, " +
			"Close followed by late calls, get with cancelled context, planted malformed entries; oracle = (key,peer)->last-addition model (boundary accepted either way), no duplicates, " +
			"every acknowledged add present in the datastore, ErrClosed and no datastore call after Close; non-trivial = a non-empty read served after eviction or restart, or across an expiry",
		Gen: func(t *rapid.T) pmSc {
			s := pmSc{Cache: rapid.IntRange(1, 3).Draw(t, "cache"), GCS: rapid.SampledFrom([]int{0, 70, 300, 1100}).Draw(t, "gc")}
			s.Ops = rapid.SliceOfN(rapid.Custom(func(t *rapid.T) pmOp {
				// hot keys / hot peers: multi-step histories on one (key, peer) pair (add, read, expire, read, re-add, read) must be likely
				key := rapid.IntRange(0, len(c07Keys)-1).Draw(t, "key")
				if rapid.IntRange(0, 9).Draw(t, "hotKey") < 6 {
					key = rapid.IntRange(0, 1).Draw(t, "hotKeyIdx")
				}
				p := rapid.IntRange(0, 5).Draw(t, "peer")
				if rapid.IntRange(0, 9).Draw(t, "hotPeer") < 6 {
					p = rapid.IntRange(1, 2).Draw(t, "hotPeerIdx")
				}
				switch rapid.IntRange(0, 15).Draw(t, "kind") {
				case 0, 1, 2, 3, 4:
					return pmOp{Op: "add", Key: key, Peer: p, Addr: rapid.Bool().Draw(t, "addr"), FailPut: verifsim.Chance(t, "failPut", 12)}
				case 5, 6, 7, 8, 9:
					return pmOp{Op: "get", Key: key}
				case 10, 11:
					return pmOp{Op: "advance", DurS: rapid.SampledFrom([]int{1, 60, 400, 600, 999, 1000, 1001, 2500}).Draw(t, "dur")}
				case 12:
					return pmOp{Op: "restart"}
				case 13:
					return pmOp{Op: "closelate", Key: key, Peer: p}
				case 14:
					return pmOp{Op: "cancelget", Key: key}
				default:
					return pmOp{Op: "plant", Key: key, Peer: p, Kind: rapid.SampledFrom([]string{"badtime", "badpeer"}).Draw(t, "plantKind")}
				}
			}), 1, 45).Draw(t, "ops")
			// staggered ages on one key: two providers added at different times, the older one re-added (its age no longer matches
			// its position in any add-ordered list), then reads in the windows where exactly one of them has expired
			if verifsim.Chance(t, "stagger", 40) {
				k := rapid.IntRange(0, 1).Draw(t, "stKey")
				a := rapid.IntRange(1, 3).Draw(t, "stA")
				b := 1 + (a+rapid.IntRange(0, 1).Draw(t, "stB"))%3
				if b == a {
					b = 1 + a%3
				}
				d := func(label string) int { return rapid.SampledFrom([]int{60, 400, 600, 999}).Draw(t, label) }
				seq := []pmOp{
					{Op: "add", Key: k, Peer: a, Addr: true}, {Op: "advance", DurS: d("st1")},
					{Op: "add", Key: k, Peer: b, Addr: true}, {Op: "advance", DurS: d("st2")},
					{Op: "add", Key: k, Peer: a, Addr: true}, {Op: "advance", DurS: d("st3")},
					{Op: "get", Key: k}, {Op: "advance", DurS: d("st4")}, {Op: "get", Key: k},
				}
				if verifsim.Chance(t, "stEvict", 40) {
					// reload from the datastore in between (cache eviction through reads of other keys, or a restart)
					seq = append(seq[:5:5], append([]pmOp{{Op: "restart"}}, seq[5:]...)...)
				}
				pos := rapid.IntRange(0, len(s.Ops)).Draw(t, "stPos")
				s.Ops = append(s.Ops[:pos:pos], append(seq, s.Ops[pos:]...)...)
			}
			return s
		},
		Run: func(t *testing.T, s pmSc) verifsim.Result { return runPM(t, s) },
	}
}

func TestVerif_C07_History(t *testing.T) { verifsim.RunCheck(t, c07HistoryCheck()) }

// the same generator and oracle driven by Go's coverage-guided fuzzer (thorough tier)
func FuzzVerif_C07_History(f *testing.F) {
	verifsim.RunFuzz(f, c07HistoryCheck(), "TestVerif_C07_History")
}

// ---------- part: interleave (adders / readers / sweep at datastore-call granularity) ----------

type pmIlOp struct {
	Op   string `json:"op"` // add get
	Key  int    `json:"key"`
	Peer int    `json:"peer"`
}

type pmIlSc struct {
	Cache    int        `json:"cache"`
	Expired  [][2]int   `json:"expired"` // (key,peer) pairs planted as already expired
	Fresh    [][2]int   `json:"fresh"`   // (key,peer) pairs planted as valid
	Actors   [][]pmIlOp `json:"actors"`
	Sweeps   int        `json:"sweeps"` // number of sweep actors (0-2)
	Closer   bool       `json:"closer"` // a Close actor instead of sweeps
	Schedule []int      `json:"schedule"`
}

func runPMIL(t *testing.T, s pmIlSc) (res verifsim.Result) {
	ctx := context.Background()
	d := verifsim.NewJournalDS("providers")
	pstore, err := pstoremem.NewPeerstore()
	if err != nil {
		panic(err)
	}
	defer pstore.Close()
	c, _ := lru.NewLRU(s.Cache, nil)
	pm, err := NewProviderManager(c07Peer(0), pstore, d, Cache(c), ProvideValidity(c07Validity), CleanupInterval(0))
	if err != nil {
		panic(err)
	}
	defer pm.Close()
	start := time.Now()
	key := func(i int) []byte { return c07Keys[i%3] } // few keys so that actors collide
	model := map[kp]time.Time{}                       // acknowledged additions (valid ones)
	for _, e := range s.Expired {
		writeProviderEntry(ctx, d, key(e[0]), c07Peer(e[1]), start.Add(-2*c07Validity))
	}
	for _, e := range s.Fresh {
		tm := start.Add(-c07Validity / 2)
		writeProviderEntry(ctx, d, key(e[0]), c07Peer(e[1]), tm)
		model[kp{string(key(e[0])), c07Peer(e[1])}] = tm
	}
	plantedJournal := d.JournalLen()
	sch := verifsim.NewSched()
	type readRes struct {
		key string
		ids []string
		dup bool
		err error
		seq int // journal length when the read returned
	}
	var reads []readRes
	type addRes struct {
		x   kp
		err error
	}
	var adds []addRes
	var mu = make(chan struct{}, 1)
	mu <- struct{}{}
	for ai, ops := range s.Actors {
		ops := ops
		sch.Go(fmt.Sprintf("a%d", ai), func() {
			for _, op := range ops {
				k := key(op.Key)
				if op.Op == "add" {
					err := pm.AddProvider(ctx, k, peer.AddrInfo{ID: c07Peer(op.Peer)})
					<-mu
					adds = append(adds, addRes{kp{string(k), c07Peer(op.Peer)}, err})
					mu <- struct{}{}
				} else {
					got, err := pm.GetProviders(ctx, k)
					ids, dup := idsOf(got)
					<-mu
					reads = append(reads, readRes{string(k), ids, dup, err, d.JournalLen()})
					mu <- struct{}{}
				}
			}
		})
	}
	closedAt := -1
	if s.Closer {
		sch.Go("closer", func() {
			pm.Close()
			d.MarkClosed()
			closedAt = d.Calls()
		})
	} else {
		for i := 0; i < s.Sweeps; i++ {
			sch.Go(fmt.Sprintf("sweep%d", i), func() { pm.collectExpired(ctx) })
		}
	}
	d.Gate = sch.Gate
	concurrent := 0
	trace, derr := sch.Drive(func(step, n int) int {
		if n >= 2 {
			concurrent++
		}
		if step < len(s.Schedule) {
			return s.Schedule[step] % n
		}
		return 0
	}, 600)
	d.Gate = nil
	if derr != nil {
		if strings.HasPrefix(derr.Error(), "deadlock") {
			res.Fail("no-deadlock", "C07/interleave/deadlock", "%v; trace %v", derr, trace)
			return
		}
		panic("C07 scheduler: " + derr.Error())
	}
	for _, p := range sch.Panics() {
		res.Fail("no-panic", "C07/interleave/panic", "%s", p)
	}
	_ = closedAt
	if s.Closer {
		if late := d.LateCalls(); len(late) > 0 {
			res.Fail("closed/no-datastore-access", "C07/closed/datastore-touched", "%d datastore calls after Close returned (first %s %s); trace %v", len(late), late[0].Op, late[0].Key, trace)
		}
		for _, a := range adds {
			if a.err != nil && !errors.Is(a.err, ErrClosed) {
				res.Fail("add/error", "C07/add/error", "%v", a.err)
			}
		}
	}
	// which deletions happened, and were they justified?
	// value of each datastore key over the journal
	j := d.Journal()
	type hist struct {
		at  int
		val []byte
		del bool
	}
	perKey := map[string][]hist{}
	for i, e := range j {
		for _, w := range e.Writes {
			perKey[w.Key] = append(perKey[w.Key], hist{i, w.Value, w.Del})
		}
	}
	lostOK := map[string]bool{} // datastore keys whose fresh entry was legitimately lost (documented exception)
	for dk, hs := range perKey {
		for i, h := range hs {
			if !h.del || h.at < plantedJournal {
				continue
			}
			// a delete is justified if SOME earlier value of this key was expired (the sweep/load listed it then)
			justified := false
			freshBefore := false
			for _, prev := range hs[:i] {
				if prev.del {
					continue
				}
				tm, err := readTimeValue(prev.val)
				if err != nil || start.Sub(tm) > c07Validity {
					justified = true
				}
			}
			if i > 0 && !hs[i-1].del {
				tm, err := readTimeValue(hs[i-1].val)
				if err == nil && start.Sub(tm) <= c07Validity {
					freshBefore = true
				}
			}
			if !justified {
				res.Fail("delete-only-expired", "C07/delete/live-entry", "datastore key %s deleted although it never held an expired entry; trace %v", dk, trace)
			}
			if freshBefore && justified {
				lostOK[dk] = true // re-addition raced with a sweep of the expired predecessor
			}
		}
	}
	// acknowledged additions
	for _, a := range adds {
		if a.err == nil {
			model[a.x] = start
		}
	}
	// final state must serve every acknowledged valid pair, except documented losses
	if !s.Closer {
		for ki := 0; ki < 3; ki++ {
			k := key(ki)
			got, err := pm.GetProviders(ctx, k)
			if err != nil {
				res.Fail("get/error", "C07/get/error", "%v", err)
				continue
			}
			ids, dup := idsOf(got)
			if dup {
				res.Fail("get/no-duplicates", "C07/get/duplicate", "duplicates in final read")
			}
			gotSet := map[string]bool{}
			for _, id := range ids {
				gotSet[id] = true
			}
			for x := range model {
				if x.k != string(k) {
					continue
				}
				if !gotSet[string(x.p)] {
					if lostOK[mkProvKeyFor(k, x.p)] {
						res.Class("documented-loss")
						continue
					}
					res.Fail("get/complete", "C07/interleave/lost-provider", "key %q: acknowledged valid provider %x… not served at the end; trace %v", k, string(x.p)[2:6], trace)
				}
				delete(gotSet, string(x.p))
			}
			for extra := range gotSet {
				res.Fail("get/no-expired", "C07/interleave/expired-or-invented", "key %q: provider %x… served but expired/never added; trace %v", k, extra[2:6], trace)
			}
		}
	}
	// concurrent reads: never a duplicate, never an expired or unknown peer
	for _, r := range reads {
		if r.err != nil {
			if !(s.Closer && errors.Is(r.err, ErrClosed)) {
				res.Fail("get/error", "C07/get/error", "%v", r.err)
			}
			continue
		}
		if r.dup {
			res.Fail("get/no-duplicates", "C07/get/duplicate", "duplicate in concurrent read; trace %v", trace)
		}
		for _, id := range r.ids {
			x := kp{r.key, peer.ID(id)}
			_, fresh := model[x]
			attempted := false
			for _, a := range adds {
				if a.x == x {
					attempted = true
				}
			}
			if !fresh && !attempted {
				res.Fail("get/no-expired", "C07/interleave/expired-or-invented", "concurrent read of %q returned %x… which is expired/never added; trace %v", r.key, id[2:6], trace)
			}
		}
	}
	res.NonTrivial = concurrent > 0 && (len(s.Expired) > 0 || s.Closer)
	if s.Closer {
		res.Class("close-racing")
	}
	if s.Sweeps > 0 && !s.Closer {
		res.Class("sweep-racing")
	}
	_ = base32.RawStdEncoding
	return
}

func TestVerif_C07_Interleave(t *testing.T) {
	verifsim.RunCheck(t, verifsim.Check[pmIlSc]{
		Property: "C07", Part: "interleave",
		Rule: "rapid: 1-3 application actors with 1-3 add/get operations on 3 keys x 4 peers, planted expired and valid entries, plus 0-2 expiry sweeps (or a Close actor); every " +
			"datastore call is a yield point released by a drawn schedule; oracle = acknowledged valid pairs are served at the end unless a re-addition raced with a sweep that had listed the " +
			"expired predecessor (documented), deletes only hit keys that held an expired entry, no duplicates, no expired/unknown peer in any read, no datastore call after Close returned; " +
			"non-trivial = >=2 actors parked at one decision point with expired entries or a racing Close",
		Gen: func(t *rapid.T) pmIlSc {
			pair := rapid.Custom(func(t *rapid.T) [2]int {
				return [2]int{rapid.IntRange(0, 2).Draw(t, "k"), rapid.IntRange(1, 4).Draw(t, "p")}
			})
			s := pmIlSc{Cache: rapid.IntRange(1, 3).Draw(t, "cache")}
			s.Expired = rapid.SliceOfNDistinct(pair, 0, 4, func(p [2]int) int { return p[0]*10 + p[1] }).Draw(t, "expired")
			fresh := rapid.SliceOfNDistinct(pair, 0, 3, func(p [2]int) int { return p[0]*10 + p[1] }).Draw(t, "fresh")
			exp := map[[2]int]bool{}
			for _, e := range s.Expired {
				exp[e] = true
			}
			for _, f := range fresh {
				if !exp[f] {
					s.Fresh = append(s.Fresh, f)
				}
			}
			na := rapid.IntRange(1, 3).Draw(t, "nActors")
			for a := 0; a < na; a++ {
				s.Actors = append(s.Actors, rapid.SliceOfN(rapid.Custom(func(t *rapid.T) pmIlOp {
					op := "add"
					if rapid.IntRange(0, 2).Draw(t, "isGet") == 0 {
						op = "get"
					}
					return pmIlOp{Op: op, Key: rapid.IntRange(0, 2).Draw(t, "k"), Peer: rapid.IntRange(1, 4).Draw(t, "p")}
				}), 1, 3).Draw(t, "ops"))
			}
			s.Closer = rapid.IntRange(0, 3).Draw(t, "closer") == 0
			if !s.Closer {
				s.Sweeps = rapid.IntRange(0, 2).Draw(t, "sweeps")
			}
			s.Schedule = rapid.SliceOfN(rapid.IntRange(0, 4), 0, 60).Draw(t, "schedule")
			return s
		},
		Run: func(t *testing.T, s pmIlSc) verifsim.Result { return runPMIL(t, s) },
	})
}
