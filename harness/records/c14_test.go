//go:build verif

package records

// C14 — Close of the record stores (provider manager, value store): returns
// only after the background collector has exited, for every option combination
// (collection disabled, tiny and long intervals), repeatedly and concurrently,
// with an operation held inside a datastore call.
//
// Real time with a gate inside the datastore and a goroutine-state probe (the
// provider manager's Close takes a mutex; under synctest that stops the clock).

import (
	"context"
	"fmt"
	"sync"
	"testing"
	"time"

	"github.com/libp2p/go-libp2p-kad-dht/internal/verifsim"
	record "github.com/libp2p/go-libp2p-record"
	recpb "github.com/libp2p/go-libp2p-record/pb"
	"github.com/libp2p/go-libp2p/core/peer"
	"github.com/libp2p/go-libp2p/p2p/host/peerstore/pstoremem"
	"pgregory.net/rapid"
)

type recCloseSc struct {
	Store    string `json:"store"`        // pm | vs
	GCms     int    `json:"gc_ms"`        // collector interval: <0, 0, 1, 3600000
	AgeMs    int    `json:"age_ms"`       // vs: maximum record age (0 = no expiry)
	StartGC  int    `json:"start_gc"`     // vs: number of StartGC calls (0-2)
	Op       string `json:"op"`           // "" | add | get (an operation whose first datastore call is held at the gate)
	NClose   int    `json:"n_close"`      // 1-3
	LateOp   bool   `json:"late_op"`      // an operation issued after the first Close call was started
	BadOpt   bool   `json:"bad_option"`   // pm: a failing option (constructor error)
	PreSleep int    `json:"pre_sleep_ms"` // real milliseconds before Close (lets a 1 ms collector run)
}

type c14Validator struct{}

func (c14Validator) Validate(string, []byte) error        { return nil }
func (c14Validator) Select(string, [][]byte) (int, error) { return 0, nil }

const recGC = "records.(*ProviderManager).gcLoop"
const recVGC = "records.(*ValueStore).gcLoop"

// Real-time cases share the process: one at a time, so that "goroutines matching" means this case's.
var recCloseMu sync.Mutex

func TestVerif_C14_Records(t *testing.T) {
	verifsim.RunCheck(t, verifsim.Check[recCloseSc]{
		Property: "C14", Part: "records",
		Rule: "rapid: ProviderManager / ValueStore over a gateable datastore with collector intervals <0, 0, 1 ms, 1 h (value store: with and without age expiry, StartGC called 0-2 times), optionally one AddProvider/GetProviders " +
			"(Put/Get) held inside its first datastore call, 1-3 Close calls started one after the other (each once the previous one returned or is seen blocked), optionally an operation issued during Close, then the gate is released; a failing " +
			"ProviderManager option; oracle: a Close call that has returned leaves no collector goroutine, (provider manager, documented fence) has not returned while an operation is inside the datastore, every call returns after the release, " +
			"a failed constructor leaves no goroutine, no panic; non-trivial = collection disabled or an operation held during Close",
		Gen: func(t *rapid.T) recCloseSc {
			return recCloseSc{
				Store:    rapid.SampledFrom([]string{"pm", "pm", "vs"}).Draw(t, "store"),
				GCms:     rapid.SampledFrom([]int{-1000, 0, 1, 3600000}).Draw(t, "gcMs"),
				AgeMs:    rapid.SampledFrom([]int{0, 1, 3600000}).Draw(t, "ageMs"),
				StartGC:  rapid.IntRange(0, 2).Draw(t, "startGC"),
				Op:       rapid.SampledFrom([]string{"", "add", "get"}).Draw(t, "op"),
				NClose:   rapid.IntRange(1, 3).Draw(t, "nClose"),
				LateOp:   rapid.Bool().Draw(t, "lateOp"),
				BadOpt:   rapid.IntRange(0, 5).Draw(t, "badOpt") == 0,
				PreSleep: rapid.SampledFrom([]int{0, 0, 3}).Draw(t, "preSleep"),
			}
		},
		Run: func(t *testing.T, sc recCloseSc) (res verifsim.Result) {
			recCloseMu.Lock()
			defer recCloseMu.Unlock()
			jd := verifsim.NewJournalDS("ds")
			var gmu sync.Mutex
			holdNext := false
			entered, release := make(chan struct{}), make(chan struct{})
			inside := 0
			jd.Gate = func(c verifsim.Call) {
				gmu.Lock()
				h := holdNext
				holdNext = false
				inside++
				gmu.Unlock()
				if h {
					close(entered)
					<-release
				}
				gmu.Lock()
				inside--
				gmu.Unlock()
			}
			held := func() bool { gmu.Lock(); defer gmu.Unlock(); return inside > 0 }
			key := []byte("some-key")
			self := peer.ID(verifsim.NewPool("peer", 8).IDs[0])
			other := peer.ID(verifsim.NewPool("peer", 8).IDs[1])
			var closeFn func() error
			var opFn func(kind string) error
			gcSub := recGC
			if sc.Store == "pm" {
				ps, err := pstoremem.NewPeerstore()
				if err != nil {
					res.Fail("constructs", "C14/records/harness", "%v", err)
					return
				}
				defer ps.Close()
				opts := []Option{CleanupInterval(time.Duration(sc.GCms) * time.Millisecond)}
				if sc.BadOpt {
					opts = append(opts, func(*ProviderManager) error { return fmt.Errorf("injected") })
				}
				pm, err := NewProviderManager(self, ps, jd, opts...)
				if err != nil {
					if !sc.BadOpt {
						res.Fail("constructs", "C14/records/new-error", "%v", err)
					}
					if left := verifsim.GoroutinesMatching(200*time.Millisecond, recGC); len(left) > 0 {
						res.Fail("failed-ctor-leaves-nothing", "C14/records/goroutine-left-after-failed-constructor", "%d collector goroutine(s) left by a constructor that returned an error", len(left))
					}
					res.NonTrivial = true
					res.Class("failed-constructor")
					return
				}
				closeFn = pm.Close
				opFn = func(kind string) error {
					if kind == "add" {
						return pm.AddProvider(context.Background(), key, peer.AddrInfo{ID: other})
					}
					_, err := pm.GetProviders(context.Background(), key)
					return err
				}
			} else {
				gcSub = recVGC
				vs := NewValueStore(jd, record.NamespacedValidator{"v": c14Validator{}}, time.Duration(sc.AgeMs)*time.Millisecond)
				for i := 0; i < sc.StartGC; i++ {
					vs.StartGC(context.Background(), time.Duration(sc.GCms)*time.Millisecond)
				}
				closeFn = vs.Close
				opFn = func(kind string) error {
					if kind == "add" {
						return vs.Put(context.Background(), "/v/k", &recpb.Record{Key: []byte("/v/k"), Value: []byte("x")})
					}
					_, err := vs.Get(context.Background(), "/v/k")
					return err
				}
			}
			if sc.PreSleep > 0 {
				time.Sleep(time.Duration(sc.PreSleep) * time.Millisecond)
			}
			var calls []*verifsim.RTCall
			holding := false
			if sc.Op != "" {
				gmu.Lock()
				holdNext = true
				gmu.Unlock()
				oc := verifsim.RTGo(func() error { return opFn(sc.Op) })
				calls = append(calls, oc)
				select {
				case <-entered:
					holding = true
				case <-oc.DoneCh():
					// the operation made no datastore call (or a collector pass took the gate): nothing is held
				case <-time.After(10 * time.Second):
				}
				if !holding {
					gmu.Lock()
					wasTaken := !holdNext
					holdNext = false
					gmu.Unlock()
					if wasTaken {
						select {
						case <-entered: // a collector pass is held instead of the operation
							holding = true
						default:
						}
					}
				}
			}
			early := ""
			for i := 0; i < sc.NClose; i++ {
				c := verifsim.RTGo(closeFn)
				calls = append(calls, c)
				if !verifsim.RTSettle(10*time.Second, c) {
					res.Fail("close-settles", "C14/records/close-spins", "Close call %d neither returned nor blocked within 10 s", i+1)
				}
				if i == 0 && sc.LateOp {
					oc := verifsim.RTGo(func() error { return opFn("get") })
					calls = append(calls, oc)
					verifsim.RTSettle(10*time.Second, oc)
				}
				if c.Done() && early == "" {
					if left := verifsim.GoroutinesMatching(100*time.Millisecond, gcSub); len(left) > 0 {
						early = fmt.Sprintf("Close call %d returned while the collector goroutine was still there:\n%s", i+1, left[0])
					} else if sc.Store == "pm" && holding && held() {
						early = fmt.Sprintf("Close call %d of the provider manager returned while an operation was inside a datastore call (documented fence: once Close returns no call touches the datastore)", i+1)
					}
				}
			}
			if holding {
				close(release)
			}
			if !verifsim.RTWait(15*time.Second, calls...) {
				st := ""
				if g := verifsim.GoroutinesMatching(0, "verifsim.RTGo"); len(g) > 0 {
					st = g[0]
				}
				res.Fail("calls-return", "C14/records/calls-return", "a Close call (or an operation in flight) did not return within 15 s after the datastore gate was released:\n%s", st)
				if !holding {
					close(release)
				}
				return
			}
			for _, c := range calls {
				if c.Pan != nil {
					res.Fail("no-panic", "C14/records/panic", "panic: %v", c.Pan)
				}
			}
			if early != "" {
				res.Fail("close-waits", "C14/records/close-waits", "%s", early)
			}
			if left := verifsim.GoroutinesMatching(200*time.Millisecond, gcSub); len(left) > 0 {
				res.Fail("nothing-left", "C14/records/goroutine-left", "%d collector goroutine(s) left after every Close call returned:\n%s", len(left), left[0])
			}
			res.NonTrivial = sc.GCms <= 0 || holding
			res.Class("store-" + sc.Store)
			if sc.GCms <= 0 {
				res.Class("collection-disabled")
			}
			if holding {
				res.Class("operation-held-during-close")
			}
			return
		},
	})
}
