//go:build verif

package rtrefresh

// C14 — the refresh manager: Close returns only after the loop, the refresh request goroutines and every liveness-check
// worker have exited, may be called repeatedly, and is safe while a refresh is in flight.
//
// The manager is channels, wait groups and contexts only, so it runs inside a synctest bubble: dials, pings and refresh
// queries are harness callbacks with drawn latencies, outcomes and a drawn "linger" (how long the callback takes to return
// once its context has ended - real dials and stream writes do not unwind instantly).

import (
	"context"
	"errors"
	"fmt"
	"sync"
	"testing"
	"time"

	"github.com/libp2p/go-libp2p-kad-dht/internal/verifnet"
	"github.com/libp2p/go-libp2p-kad-dht/internal/verifsim"
	kbucket "github.com/libp2p/go-libp2p-kbucket"
	"github.com/libp2p/go-libp2p/core/peer"
	"github.com/libp2p/go-libp2p/p2p/host/peerstore/pstoremem"
	ma "github.com/multiformats/go-multiaddr"
	mh "github.com/multiformats/go-multihash"
	"pgregory.net/rapid"
)

type rrCall struct {
	Out      string `json:"out"` // ok fail hang (hang: until the context ends)
	Ms       int    `json:"ms"`
	LingerMs int    `json:"linger_ms,omitempty"`
}

type rrPeer struct {
	Due  bool   `json:"due"` // last successful outbound query older than the grace period: gets a liveness check
	Dial rrCall `json:"dial"`
	Ping rrCall `json:"ping"`
}

type rrEvent struct {
	AtMs  int    `json:"at_ms"`
	Op    string `json:"op"` // refresh (the caller waits for the answer) | refresh-ignored | nowait
	Force bool   `json:"force,omitempty"`
}

type rrSc struct {
	Auto       bool      `json:"auto_refresh"`
	IntervalS  int       `json:"interval_s"`
	Peers      []rrPeer  `json:"peers"`
	Query      rrCall    `json:"query"`
	QueryTOms  int       `json:"query_timeout_ms"`
	DoneReader bool      `json:"done_reader"` // somebody reads the refresh-done channel (the DHT does)
	Events     []rrEvent `json:"events"`
	CloseAtMs  int       `json:"close_at_ms"`
	NClose     int       `json:"n_close"`
	Concurrent bool      `json:"concurrent_close"`
	NoStart    bool      `json:"no_start,omitempty"` // Close without Start
}

type rrLog struct {
	kind       string
	peer       int
	start, end time.Duration // end < 0: still running
}

func rrPeerID(i int) peer.ID {
	h, _ := mh.Sum([]byte(fmt.Sprintf("rr-peer-%d", i)), mh.SHA2_256, -1)
	return peer.ID(h)
}

func TestVerif_C14_RefreshManager(t *testing.T) {
	verifsim.RunCheck(t, verifsim.Check[rrSc]{
		Property: "C14", Part: "refresh-manager",
		Rule: "rapid under synctest virtual time: RtRefreshManager over a real kbucket table with 0-6 members (due / not due for a liveness check), dial / ping / refresh-query callbacks with drawn outcome " +
			"(ok, fail, hang until the context ends), latency and linger (time to return once the context ended), auto-refresh on/off, refresh-done channel read or not, 0-4 refresh requests (waited for, ignored, " +
			"no-wait) at drawn instants, Close at a drawn instant called 1-3 times sequentially or concurrently, with or without Start; oracle: the moment a Close call returns no callback is in flight and no goroutine of the " +
			"manager is blocked, none starts afterwards, every Close returns nil, every waited refresh request gets exactly one answer, a request after Close fails with the context error, nothing is left at the end, no panic; " +
			"non-trivial = Close lands while a callback is in flight",
		Gen: func(t *rapid.T) rrSc {
			call := func(label string) rrCall {
				c := rrCall{Out: rapid.SampledFrom([]string{"ok", "ok", "fail", "hang"}).Draw(t, label+"Out"), Ms: rapid.SampledFrom([]int{0, 1, 20, 300, 2000, 9999, 12000}).Draw(t, label+"Ms")}
				if verifsim.Chance(t, label+"Lingers", 40) {
					c.LingerMs = rapid.SampledFrom([]int{1, 50, 700, 3000}).Draw(t, label+"Linger")
				}
				return c
			}
			sc := rrSc{Auto: rapid.Bool().Draw(t, "auto"), IntervalS: rapid.SampledFrom([]int{1, 10, 600}).Draw(t, "interval"),
				QueryTOms: rapid.SampledFrom([]int{100, 5000, 30000}).Draw(t, "queryTO"), DoneReader: rapid.IntRange(0, 3).Draw(t, "doneReader") > 0}
			for n := rapid.IntRange(0, 6).Draw(t, "nPeers"); n > 0; n-- {
				sc.Peers = append(sc.Peers, rrPeer{Due: rapid.IntRange(0, 3).Draw(t, "due") > 0, Dial: call("dial"), Ping: call("ping")})
			}
			sc.Query = call("query")
			sc.Events = rapid.SliceOfN(rapid.Custom(func(t *rapid.T) rrEvent {
				return rrEvent{AtMs: rapid.IntRange(0, 15000).Draw(t, "at"), Op: rapid.SampledFrom([]string{"refresh", "refresh", "refresh-ignored", "nowait"}).Draw(t, "op"), Force: rapid.Bool().Draw(t, "force")}
			}), 0, 4).Draw(t, "events")
			sc.CloseAtMs = rapid.IntRange(0, 20000).Draw(t, "closeAt")
			sc.NClose = rapid.IntRange(1, 3).Draw(t, "nClose")
			sc.Concurrent = rapid.Bool().Draw(t, "concurrent")
			sc.NoStart = rapid.IntRange(0, 11).Draw(t, "noStart") == 0
			return sc
		},
		Run: func(t *testing.T, sc rrSc) (res verifsim.Result) {
			var mu sync.Mutex
			var logx []*rrLog
			var t0 time.Time
			now := func() time.Duration { return time.Since(t0) }
			var closeReturned []time.Duration
			var closeErrs []error
			inFlightAtClose := ""
			type waited struct {
				at      time.Duration
				answers int
				closed  bool
				err     error
			}
			var waits []*waited
			var lateErr error
			lateAnswered := false
			clause, detail := "", ""
			out := verifsim.Bubble(t, func() {
				t0 = time.Now()
				self := rrPeerID(1000)
				h := verifnet.NewHost(self, []ma.Multiaddr{ma.StringCast("/ip4/10.1.1.1/tcp/1")})
				defer h.Close()
				ps, _ := pstoremem.NewPeerstore()
				defer ps.Close()
				grace := time.Minute
				rt, err := kbucket.NewRoutingTable(20, kbucket.ConvertPeerID(self), time.Hour, ps, grace, nil)
				if err != nil {
					panic(err)
				}
				idx := map[peer.ID]int{}
				for i, p := range sc.Peers {
					id := rrPeerID(i)
					idx[id] = i
					rt.TryAddPeer(id, true, false)
					if p.Due {
						rt.UpdateLastSuccessfulOutboundQueryAt(id, time.Now().Add(-2*grace))
					}
				}
				run := func(ctx context.Context, kind string, pi int, c rrCall) error {
					e := &rrLog{kind: kind, peer: pi, start: now(), end: -1}
					mu.Lock()
					logx = append(logx, e)
					mu.Unlock()
					defer func() { mu.Lock(); e.end = now(); mu.Unlock() }()
					d := time.Duration(c.Ms) * time.Millisecond
					if c.Out == "hang" {
						d = 24 * time.Hour
					}
					tm := time.NewTimer(d)
					defer tm.Stop()
					select {
					case <-tm.C:
						if c.Out == "fail" {
							return errors.New("verif: scripted failure")
						}
						return nil
					case <-ctx.Done():
						time.Sleep(time.Duration(c.LingerMs) * time.Millisecond)
						return ctx.Err()
					}
				}
				h.ConnectFn = func(ctx context.Context, pi peer.AddrInfo) error {
					i := idx[pi.ID]
					return run(ctx, "dial", i, sc.Peers[i].Dial)
				}
				doneCh := make(chan struct{})
				probe := verifsim.NewCloseProbe()
				m, err := NewRtRefreshManager(h, rt, sc.Auto,
					func(cpl uint) (string, error) { return fmt.Sprintf("cpl-%d", cpl), nil },
					func(ctx context.Context, key string) error { return run(ctx, "query", -1, sc.Query) },
					func(ctx context.Context, p peer.ID) error { i := idx[p]; return run(ctx, "ping", i, sc.Peers[i].Ping) },
					time.Duration(sc.QueryTOms)*time.Millisecond, time.Duration(sc.IntervalS)*time.Second, grace, doneCh)
				if err != nil {
					clause, detail = "constructs", err.Error()
					return
				}
				stopReader := make(chan struct{})
				if sc.DoneReader {
					probe.GoDaemon(func() {
						for {
							select {
							case <-doneCh:
							case <-stopReader:
								return
							}
						}
					})
				}
				if !sc.NoStart {
					m.Start()
				}
				for _, ev := range sc.Events {
					ev := ev
					if sc.NoStart && ev.Op != "nowait" {
						continue // (requests to a manager that was never started are not answered before Close: not an operation in flight)
					}
					probe.Go(func() {
						time.Sleep(time.Duration(ev.AtMs) * time.Millisecond)
						switch ev.Op {
						case "nowait":
							m.RefreshNoWait()
						case "refresh-ignored":
							m.Refresh(ev.Force)
						default:
							w := &waited{at: now()}
							mu.Lock()
							waits = append(waits, w)
							mu.Unlock()
							ch := m.Refresh(ev.Force)
							for e := range ch {
								mu.Lock()
								w.answers++
								w.err = e
								mu.Unlock()
							}
							mu.Lock()
							w.closed = true
							mu.Unlock()
						}
					})
				}
				closeOnce := func(label string) {
					probe.CloseCall(label, func() error {
						err := m.Close()
						mu.Lock()
						closeReturned = append(closeReturned, now())
						closeErrs = append(closeErrs, err)
						if inFlightAtClose == "" {
							for _, e := range logx {
								if e.end < 0 {
									inFlightAtClose = fmt.Sprintf("%s returned at %v while the %s callback (peer %d) started at %v had not returned", label, now(), e.kind, e.peer, e.start)
									break
								}
							}
						}
						mu.Unlock()
						return err
					})
				}
				time.Sleep(time.Duration(sc.CloseAtMs) * time.Millisecond)
				mu.Lock()
				for _, e := range logx {
					if e.end < 0 {
						res.NonTrivial = true
					}
				}
				mu.Unlock()
				if sc.Concurrent {
					for i := 0; i < sc.NClose; i++ {
						closeOnce(fmt.Sprintf("Close#%d (concurrent)", i+1))
					}
				} else {
					probe.Go(func() {
						for i := 0; i < sc.NClose; i++ {
							done := make(chan struct{})
							label := fmt.Sprintf("Close#%d", i+1)
							probe.CloseCall(label, func() error {
								defer close(done)
								err := m.Close()
								mu.Lock()
								closeReturned = append(closeReturned, now())
								closeErrs = append(closeErrs, err)
								if inFlightAtClose == "" {
									for _, e := range logx {
										if e.end < 0 {
											inFlightAtClose = fmt.Sprintf("%s returned at %v while the %s callback (peer %d) started at %v had not returned", label, now(), e.kind, e.peer, e.start)
											break
										}
									}
								}
								mu.Unlock()
								return err
							})
							<-done
						}
					})
				}
				clause, detail = probe.Finish(5 * time.Minute)
				// a request after Close
				if clause == "" && !sc.NoStart {
					ch := m.Refresh(false)
					select {
					case lateErr = <-ch:
						lateAnswered = true
					case <-time.After(time.Minute):
					}
					verifsim.Quiesce()
				}
				close(stopReader)
				verifsim.Quiesce()
			})
			if !out.OK() {
				res.Fail("no-panic", "C14/refresh-manager/hang-or-panic", "%s %s\n%s", out.Deadlock, out.Panic, out.Stacks)
				return
			}
			if clause != "" {
				res.Fail(clause, "C14/refresh-manager/"+clause, "%s", detail)
				return
			}
			if inFlightAtClose != "" {
				res.Fail("close-waits", "C14/refresh-manager/callback-in-flight", "%s", inFlightAtClose)
			}
			if len(closeReturned) != sc.NClose {
				res.Fail("calls-return", "C14/refresh-manager/close-missing", "%d of %d Close calls returned", len(closeReturned), sc.NClose)
				return
			}
			first := closeReturned[0]
			for _, c := range closeReturned {
				if c < first {
					first = c
				}
			}
			for _, e := range closeErrs {
				if e != nil {
					res.Fail("close-repeatable", "C14/refresh-manager/close-error", "Close returned %v", e)
				}
			}
			for _, e := range logx {
				if e.start > first {
					res.Fail("nothing-after-close", "C14/refresh-manager/callback-after-close", "%s callback (peer %d) started at %v, after Close had returned at %v", e.kind, e.peer, e.start, first)
					break
				}
			}
			for _, w := range waits {
				if !w.closed || w.answers != 1 {
					res.Fail("operations-finish", "C14/refresh-manager/request-unanswered", "refresh requested at %v: %d answers, channel closed=%v", w.at, w.answers, w.closed)
				}
			}
			if !sc.NoStart && (!lateAnswered || !errors.Is(lateErr, context.Canceled)) {
				res.Fail("late-request-fails", "C14/refresh-manager/late-request", "a refresh requested after Close: answered=%v err=%v (want the context error)", lateAnswered, lateErr)
			}
			if res.NonTrivial {
				res.Class("close-during-callback")
			}
			if sc.NoStart {
				res.Class("never-started")
			}
			return
		},
	})
}

// ---- Close racing refresh requests, for real ----
//
// The bubble part above orders Close and the requests by virtual instants. What it cannot reach is the window inside Close
// itself - between the loop's exit and the return of the wait - because nothing observable happens there. Here requesters
// run for real on their own goroutines and re-request as soon as they are answered, Close lands after a drawn number of
// microseconds, and the whole thing is repeated for a drawn number of rounds. The oracle is the part's usual one (every
// request answered, Close returns, no panic); a panic in a goroutine that is not the caller's cannot be recovered and ends
// the test process - the driver reports that as a process crash together with the scenario that was running.

type rrRaceSc struct {
	Requesters int   `json:"requesters"`
	Rounds     int   `json:"rounds"`
	CloseUs    []int `json:"close_us"` // per round (cyclic): microseconds between starting the requesters and Close
	Auto       bool  `json:"auto_refresh"`
	NClose     int   `json:"n_close"`
}

func TestVerif_C14_RefreshManagerRace(t *testing.T) {
	verifsim.RunCheck(t, verifsim.Check[rrRaceSc]{
		Property: "C14", Part: "refresh-manager-race",
		Rule: "rapid, real time: 1-6 goroutines request refreshes from a RtRefreshManager in a loop (each waits for its answer, then asks again) while Close is called 1-2 times after 0-2000 drawn microseconds, repeated for 5-40 " +
			"rounds with a fresh manager each; refresh queries answer at once; oracle: every request gets exactly one answer, every Close returns within 10 s, nothing panics (a panic outside the calling goroutine ends the process: " +
			"reported by the driver as a process crash with the scenario in flight); non-trivial = at least one request was answered with the shutdown error and one with a result in the same round",
		Gen: func(t *rapid.T) rrRaceSc {
			return rrRaceSc{
				Requesters: rapid.IntRange(1, 6).Draw(t, "requesters"),
				Rounds:     rapid.IntRange(5, 40).Draw(t, "rounds"),
				CloseUs:    rapid.SliceOfN(rapid.SampledFrom([]int{0, 1, 5, 20, 50, 100, 300, 1000, 2000}), 1, 6).Draw(t, "closeUs"),
				Auto:       rapid.Bool().Draw(t, "auto"),
				NClose:     rapid.IntRange(1, 2).Draw(t, "nClose"),
			}
		},
		Run: func(t *testing.T, sc rrRaceSc) (res verifsim.Result) {
			self := rrPeerID(1000)
			for round := 0; round < sc.Rounds; round++ {
				h := verifnet.NewHost(self, []ma.Multiaddr{ma.StringCast("/ip4/10.1.1.1/tcp/1")})
				ps, _ := pstoremem.NewPeerstore()
				rt, err := kbucket.NewRoutingTable(20, kbucket.ConvertPeerID(self), time.Hour, ps, time.Minute, nil)
				if err != nil {
					panic(err)
				}
				doneCh := make(chan struct{}, 1024)
				m, err := NewRtRefreshManager(h, rt, sc.Auto,
					func(cpl uint) (string, error) { return fmt.Sprintf("cpl-%d", cpl), nil },
					func(ctx context.Context, key string) error { return nil },
					func(ctx context.Context, p peer.ID) error { return nil },
					time.Second, time.Hour, time.Minute, doneCh)
				if err != nil {
					res.Fail("constructs", "C14/refresh-manager-race/new", "%v", err)
					return
				}
				m.Start()
				var wg sync.WaitGroup
				var mu sync.Mutex
				okAnswers, errAnswers, bad := 0, 0, ""
				stop := make(chan struct{})
				for g := 0; g < sc.Requesters; g++ {
					wg.Add(1)
					go func() {
						defer wg.Done()
						for {
							ch := m.Refresh(false)
							n := 0
							var last error
							tm := time.NewTimer(10 * time.Second)
						recv:
							for {
								select {
								case e, ok := <-ch:
									if !ok {
										break recv
									}
									n++
									last = e
								case <-tm.C:
									mu.Lock()
									bad = "a refresh request was not answered within 10 s"
									mu.Unlock()
									return
								}
							}
							tm.Stop()
							mu.Lock()
							if n != 1 && bad == "" {
								bad = fmt.Sprintf("a refresh request received %d answers", n)
							}
							if last == nil {
								okAnswers++
							} else {
								errAnswers++
							}
							mu.Unlock()
							if last != nil {
								// answered with the shutdown error: ask a few more times (requests after Close must be answered too), then stop
								select {
								case <-stop:
									return
								default:
								}
							}
							select {
							case <-stop:
								return
							default:
							}
						}
					}()
				}
				time.Sleep(time.Duration(sc.CloseUs[round%len(sc.CloseUs)]) * time.Microsecond)
				closed := make(chan struct{})
				go func() {
					defer close(closed)
					for i := 0; i < sc.NClose; i++ {
						m.Close()
					}
				}()
				select {
				case <-closed:
				case <-time.After(10 * time.Second):
					res.Fail("calls-return", "C14/refresh-manager-race/close-hangs", "round %d: Close did not return within 10 s", round)
				}
				time.Sleep(200 * time.Microsecond) // a few more requests against the closed manager
				close(stop)
				wg.Wait()
				ps.Close()
				h.Close()
				if bad != "" {
					res.Fail("operations-finish", "C14/refresh-manager-race/request-unanswered", "round %d: %s", round, bad)
				}
				if len(res.Violations) > 0 {
					return
				}
				if okAnswers > 0 && errAnswers > 0 {
					res.NonTrivial = true
				}
			}
			return
		},
	})
}
