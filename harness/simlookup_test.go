//go:build verif

package dht

// Shared scenario runner of the simulated-network checks (C01 C02 C03 C04 C06
// C08 C10 C12 ...): a real IpfsDHT over verifnet's fake host and simulated
// peers, inside a synctest bubble.

import (
	"context"
	"crypto/sha256"
	"encoding/base64"
	"fmt"
	ci "github.com/libp2p/go-libp2p/core/crypto"
	"github.com/libp2p/go-libp2p/core/routing"
	"sort"
	"sync"
	"time"

	dhtnet "github.com/libp2p/go-libp2p-kad-dht/internal/net"
	"github.com/libp2p/go-libp2p-kad-dht/internal/verifnet"
	"github.com/libp2p/go-libp2p-kad-dht/internal/verifsim"
	pb "github.com/libp2p/go-libp2p-kad-dht/pb"
	"github.com/libp2p/go-libp2p/core/host"
	"github.com/libp2p/go-libp2p/core/peer"
	"github.com/libp2p/go-libp2p/core/protocol"
	ma "github.com/multiformats/go-multiaddr"
	mh "github.com/multiformats/go-multihash"
)

const simPool = 1 << 13

func ppool() *verifsim.Pool  { return verifsim.NewPool("peer", simPool) }
func kpoolS() *verifsim.Pool { return verifsim.NewPool("key", simPool) }

type lkPeer struct {
	ID     int    `json:"id"`             // peer pool index
	Dial   string `json:"dial,omitempty"` // "" = ok | fail | hang
	DialMs int    `json:"dial_ms,omitempty"`
	Req    string `json:"req,omitempty"` // "" = ok | fail | silent
	LatMs  int    `json:"lat_ms"`
	Knows  []int  `json:"knows"`             // indices into Peers; -1 = the local node; <= -2 = unknown peer number -(x+2)
	Raw    bool   `json:"raw,omitempty"`     // answer with the raw list instead of the K nearest of it
	Group  int    `json:"group"`             // IP group (/16); -1 = no address
	Priv   bool   `json:"priv,omitempty"`    // address of the class the query filter rejects
	Val    int    `json:"val,omitempty"`     // GET_VALUE: 0 none; 1..9 valid record of that rank; -1 invalid; -2 record for another key; -3 empty value; -4 malformed value
	ValVar int    `json:"val_var,omitempty"` // >0: the valid record carries other bytes of the same rank (a tie under the validator's Select)
	Provs  []int  `json:"provs,omitempty"`   // GET_PROVIDERS: provider refs (as Knows)
	PNoAdr bool   `json:"pnoaddr,omitempty"` // providers listed without addresses
	Put    string `json:"put,omitempty"`     // PUT_VALUE / ADD_PROVIDER treatment: "" ok | fail | hang
	LateMs int    `json:"late_ms,omitempty"` // an answer at most this far away when the request's context ends is delivered all the same
}

type lkSc struct {
	K        int      `json:"k"`
	Alpha    int      `json:"alpha"`
	Beta     int      `json:"beta"`
	KeyKind  int      `json:"key_kind,omitempty"` // 0: multihash from the key pool; 2: value key "/v/k<Key>"; 3: public-key key; 4: identity multihash; 5: SHA-1 multihash; 6: raw 32-byte key; 7: short key
	Key      int      `json:"key"`                // key pool index
	KeyPeer  int      `json:"key_peer,omitempty"` // >0: the key is the id of Peers[KeyPeer-1] (FindPeer-style target)
	Self     int      `json:"self"`               // peer pool index of the local node
	Peers    []lkPeer `json:"peers"`
	Seeds    []int    `json:"seeds"`               // indices into Peers
	Filter   bool     `json:"filter,omitempty"`    // query filter installed
	IPLimit  int      `json:"ip_limit,omitempty"`  // >0: diversity filter with this table limit
	SeedConn bool     `json:"seed_conn,omitempty"` // seeds are already connected (no dial)
	CancelMs int      `json:"cancel_ms,omitempty"` // >0: the caller cancels the lookup's context this long after starting it
	// EvStallMs > 0: the consumer of the lookup events stops reading EvStallAtMs after the lookup started, for EvStallMs; the event
	// channel is unbuffered in that case (LookupEventBufferSize 0), so an event's read time is its publish time and the lookup
	// loop, which publishes synchronously, stands still during the stall while answers and failures queue up behind it
	EvStallAtMs int `json:"ev_stall_at_ms,omitempty"`
	EvStallMs   int `json:"ev_stall_ms,omitempty"`
}

const unknownBase = 8000 // pool indices of peers that liars may name but that do not exist

// fixed ECDSA public keys (marshalled, base64): peer ids derived from them are SHA-256 multihashes, i.e. the key is NOT
// inlined in the id and has to be fetched (GetPublicKey). Fixed so that scenarios replay identically in every process.
var simPubKeysB64 = []string{
	"CAMSWzBZMBMGByqGSM49AgEGCCqGSM49AwEHA0IABHnbJGRXr0qk53Y1HjkKkLnfLLr+J46CQGHFqUahiQsJEdlDOId/qRQu3QUvwcYm0pO/JUOMCEYQ582nMIYmvXg=",
	"CAMSWzBZMBMGByqGSM49AgEGCCqGSM49AwEHA0IABImZOZHeBXYF/5k851COi1eaUc52ddncgXGYc/Zhy0Vy8nGn2Pjw0VKLLWYLcty42K9aSNe2wYlH34laGy9KkPw=",
	"CAMSWzBZMBMGByqGSM49AgEGCCqGSM49AwEHA0IABJWjcXiPqKKfUll+IsWdcEMmJGahwXMrcVvSD72+sLlrvfEEnwinNpGOw+HJfjY1ehAxLp0GB8TKPxjzHPUnXNA=",
	"CAMSWzBZMBMGByqGSM49AgEGCCqGSM49AwEHA0IABHCBVfMZR//pqcVrsdiCRch5vXp03FQX1qUNuQLRMORpra6GchBbDPpXEkwo6RGf/BacJO7xTcmrhCpT3xrWCo4=",
}

// simPubKey returns the i-th fixed public key (marshalled) and the peer id it belongs to.
func simPubKey(i int) ([]byte, peer.ID) {
	b, err := base64.StdEncoding.DecodeString(simPubKeysB64[i%len(simPubKeysB64)])
	if err != nil {
		panic(err)
	}
	pk, err := ci.UnmarshalPublicKey(b)
	if err != nil {
		panic(err)
	}
	id, err := peer.IDFromPublicKey(pk)
	if err != nil {
		panic(err)
	}
	return b, id
}

func (s *lkSc) keyString() string {
	if s.KeyKind == 3 {
		_, id := simPubKey(s.Key)
		return routing.KeyForPublicKey(id)
	}
	if s.KeyPeer > 0 && len(s.Peers) > 0 {
		return ppool().IDs[s.Peers[(s.KeyPeer-1)%len(s.Peers)].ID]
	}
	if s.KeyKind == 2 {
		return fmt.Sprintf("/v/k%d", s.Key)
	}
	if s.KeyKind == 6 {
		// a raw 32-byte key (as long as a keyspace id, but a key like any other: it is hashed)
		h := sha256.Sum256([]byte(fmt.Sprintf("raw-key-%d", s.Key)))
		return string(h[:])
	}
	if s.KeyKind == 7 {
		return fmt.Sprintf("k%d", s.Key) // a short key
	}
	if s.KeyKind == 4 || s.KeyKind == 5 {
		// multihashes of other functions than SHA-256: the identity function (the "hash" is the data, as in inlined CIDs) and SHA-1
		code := uint64(mh.IDENTITY)
		if s.KeyKind == 5 {
			code = mh.SHA1
		}
		h, err := mh.Sum([]byte(fmt.Sprintf("inline-data-%d", s.Key)), code, -1)
		if err != nil {
			panic(err)
		}
		return string(h)
	}
	return kpoolS().IDs[s.Key%simPool]
}

func (s *lkSc) keyKad() [32]byte { return sha256.Sum256([]byte(s.keyString())) }

func (s *lkSc) selfID() peer.ID { return peer.ID(ppool().IDs[s.Self%simPool]) }

// ref resolves a Knows entry to a pool index.
func (s *lkSc) ref(x int) int {
	switch {
	case x == -1:
		return s.Self % simPool
	case x <= -2:
		return unknownBase + (-(x + 2))%64
	default:
		return s.Peers[x%len(s.Peers)].ID
	}
}

// static address of a pool index in this scenario
func (s *lkSc) addrOf(poolIdx int) []ma.Multiaddr {
	group, priv := poolIdx%3, false
	found := false
	for _, p := range s.Peers {
		if p.ID == poolIdx {
			group, priv, found = p.Group, p.Priv, true
		}
	}
	_ = found
	if group < 0 {
		return nil
	}
	if priv {
		return []ma.Multiaddr{ma.StringCast(fmt.Sprintf("/ip4/192.168.%d.%d/tcp/4001", (poolIdx/250)%250, poolIdx%250+1))}
	}
	return []ma.Multiaddr{ma.StringCast(fmt.Sprintf("/ip4/10.%d.%d.%d/tcp/4001", group%250, (poolIdx/250)%250, poolIdx%250+1))}
}

func (s *lkSc) groupOf(poolIdx int) string {
	a := s.addrOf(poolIdx)
	if len(a) == 0 {
		return ""
	}
	var o1, o2, o3, o4, port int
	fmt.Sscanf(a[0].String(), "/ip4/%d.%d.%d.%d/tcp/%d", &o1, &o2, &o3, &o4, &port)
	return fmt.Sprintf("%d.%d", o1, o2)
}

func (s *lkSc) passesFilter(poolIdx int) bool {
	if !s.Filter {
		return true
	}
	for _, p := range s.Peers {
		if p.ID == poolIdx {
			return !(p.Priv && p.Group >= 0)
		}
	}
	return true
}

func byPool(s *lkSc) map[int]*lkPeer {
	m := map[int]*lkPeer{}
	for i := range s.Peers {
		m[s.Peers[i].ID] = &s.Peers[i]
	}
	return m
}

func poolIdxOf(id peer.ID) int {
	idxOnce.Do(func() {
		idxMap = map[string]int{}
		for i, x := range ppool().IDs {
			idxMap[x] = i
		}
	})
	if i, ok := idxMap[string(id)]; ok {
		return i
	}
	return -1
}

var (
	idxOnce sync.Once
	idxMap  map[string]int
)

// closerList builds the CloserPeers answer of a simulated peer to a request
// for target key (raw key bytes of the message).
func (s *lkSc) closerList(p *lkPeer, target []byte) []*pb.Message_Peer {
	pp := ppool()
	tk := sha256.Sum256(target)
	var idxs []int
	if p.Raw {
		for _, x := range p.Knows {
			idxs = append(idxs, s.ref(x))
		}
	} else {
		seen := map[int]bool{}
		for _, x := range p.Knows {
			r := s.ref(x)
			if !seen[r] {
				seen[r] = true
				idxs = append(idxs, r)
			}
		}
		sort.Slice(idxs, func(a, b int) bool { return verifsim.XorLess(tk, pp.Kad[idxs[a]], pp.Kad[idxs[b]]) })
		if len(idxs) > s.K {
			idxs = idxs[:s.K]
		}
	}
	out := make([]*pb.Message_Peer, 0, len(idxs))
	for _, i := range idxs {
		mp := &pb.Message_Peer{Id: []byte(pp.IDs[i])}
		for _, a := range s.addrOf(i) {
			mp.Addrs = append(mp.Addrs, a.Bytes())
		}
		out = append(out, mp)
	}
	return out
}

type timedEvent struct {
	At time.Duration
	Ev *LookupEvent
}

// simEnv is one constructed DHT over a simulation.
type simEnv struct {
	sc   *lkSc
	h    *verifnet.Host
	sim  *verifnet.Sim
	d    *IpfsDHT
	opts []Option
}

// extra lets a check customise the responder for non-FIND_NODE requests.
type respondHook func(p *lkPeer, n int, req *pb.Message, base *pb.Message) *verifnet.Reply

// what the real sender returns for a silent peer is internal/net.ErrReadTimeout itself
func init() { verifnet.ErrSimTimeout = dhtnet.ErrReadTimeout }

// failFlavour is the error a failing peer's exchange ends with, fixed per peer: a plain error (a reset stream), one that wraps
// context.DeadlineExceeded although the caller's context is alive (a negotiation or write deadline further down), or one that
// wraps the sender's read timeout.
func failFlavour(poolIdx int) error {
	switch poolIdx % 4 {
	case 1:
		return fmt.Errorf("verifnet: failed to negotiate protocol: %w", context.DeadlineExceeded)
	case 2:
		return fmt.Errorf("verifnet: exchange failed: %w", dhtnet.ErrReadTimeout)
	}
	return nil
}

func newSimEnv(s *lkSc, hook respondHook, extra ...Option) (*simEnv, error) {
	pp := ppool()
	h := verifnet.NewHost(s.selfID(), []ma.Multiaddr{ma.StringCast("/ip4/10.200.0.1/tcp/4001")})
	sim := verifnet.NewSim()
	peers := byPool(s)
	sim.Dial = func(p peer.ID, n int) (time.Duration, string) {
		lp := peers[poolIdxOf(p)]
		if lp == nil {
			return time.Millisecond, "fail"
		}
		out := lp.Dial
		if out == "" {
			out = "ok"
		}
		return time.Duration(lp.DialMs) * time.Millisecond, out
	}
	sim.OnConnected = func(p peer.ID) { h.Net().SetConnected(p, true) }
	sim.Respond = func(p peer.ID, n int, req *pb.Message) verifnet.Reply {
		lp := peers[poolIdxOf(p)]
		if lp == nil {
			return verifnet.Reply{Fail: true, Latency: time.Millisecond}
		}
		lat := time.Duration(lp.LatMs) * time.Millisecond
		switch lp.Req {
		case "fail":
			return verifnet.Reply{Fail: true, Latency: lat, FailErr: failFlavour(poolIdxOf(p))}
		case "silent":
			return verifnet.Reply{Silent: true, Latency: lat}
		}
		base := &pb.Message{Type: req.Type, Key: req.Key}
		switch req.Type {
		case pb.Message_FIND_NODE, pb.Message_GET_VALUE, pb.Message_GET_PROVIDERS:
			base.CloserPeers = s.closerList(lp, req.Key)
		case pb.Message_PUT_VALUE:
			base.Record = req.Record
		}
		if hook != nil {
			if r := hook(lp, n, req, base); r != nil {
				if r.Latency == 0 {
					r.Latency = lat
				}
				r.LateGrace = time.Duration(lp.LateMs) * time.Millisecond
				return *r
			}
		}
		return verifnet.Reply{Latency: lat, Resp: base, LateGrace: time.Duration(lp.LateMs) * time.Millisecond}
	}
	h.ConnectFn = sim.Connect
	opts := []Option{
		WithCustomMessageSender(func(host.Host, []protocol.ID) pb.MessageSenderWithDisconnect { return sim }),
		ProtocolPrefix("/sim"), BucketSize(s.K), Concurrency(s.Alpha), Resiliency(s.Beta),
		DisableAutoRefresh(), Mode(ModeClient), disableFixLowPeersRoutine(nil),
	}
	if s.Filter {
		opts = append(opts, QueryFilter(func(_ any, ai peer.AddrInfo) bool {
			if len(ai.Addrs) == 0 {
				return true
			}
			for _, a := range ai.Addrs {
				if len(a.String()) < 13 || a.String()[:13] != "/ip4/192.168." {
					return true
				}
			}
			return false
		}))
	}
	if s.IPLimit > 0 {
		opts = append(opts, RoutingTablePeerDiversityFilter(NewRTPeerDiversityFilter(h, 1000, s.IPLimit)))
	}
	opts = append(opts, extra...)
	d, err := New(h, opts...)
	if err != nil {
		h.Close()
		return nil, err
	}
	env := &simEnv{sc: s, h: h, sim: sim, d: d, opts: opts}
	for _, si := range s.Seeds {
		lp := s.Peers[si%len(s.Peers)]
		id := peer.ID(pp.IDs[lp.ID])
		if s.SeedConn || s.IPLimit > 0 {
			var ra ma.Multiaddr
			if a := s.addrOf(lp.ID); len(a) > 0 {
				ra = a[0]
			} else {
				ra = ma.StringCast("/ip4/10.250.0.1/tcp/1")
			}
			h.Net().AddConn(id, ra)
			if !s.SeedConn {
				h.Net().SetConnected(id, false)
			}
		}
		d.RoutingTable().TryAddPeer(id, true, false)
	}
	return env, nil
}

func (e *simEnv) close() {
	e.d.Close()
	e.h.Close()
}

// collectEvents drains a lookup-event channel with virtual timestamps until it is closed.
func collectEvents(sim *verifnet.Sim, ch <-chan *LookupEvent, stall ...time.Duration) (get func() []timedEvent, done <-chan struct{}) {
	var mu sync.Mutex
	var evs []timedEvent
	d := make(chan struct{})
	go func() {
		defer close(d)
		stalled := false
		for ev := range ch {
			mu.Lock()
			evs = append(evs, timedEvent{sim.Now(), ev})
			mu.Unlock()
			// stall = [from (on the simulation's clock), for how long]: one pause, taken after the first event read at or after `from`
			if len(stall) == 2 && !stalled && stall[1] > 0 && sim.Now() >= stall[0] {
				stalled = true
				time.Sleep(stall[1])
			}
		}
	}()
	return func() []timedEvent { mu.Lock(); defer mu.Unlock(); return append([]timedEvent(nil), evs...) }, d
}

func distLess(target [32]byte, a, b peer.ID) bool {
	return verifsim.XorLess(target, sha256.Sum256([]byte(a)), sha256.Sum256([]byte(b)))
}

func shortID(p peer.ID) string {
	if i := poolIdxOf(p); i >= 0 {
		return fmt.Sprintf("#%d", i)
	}
	return fmt.Sprintf("%x", []byte(p))
}

func shortIDs(ps []peer.ID) []string {
	out := make([]string, len(ps))
	for i, p := range ps {
		out[i] = shortID(p)
	}
	return out
}

var _ = context.Background
