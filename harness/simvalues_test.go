//go:build verif

package dht

import (
	"errors"
	"fmt"
	"strconv"
	"strings"
	"time"

	"github.com/libp2p/go-libp2p-kad-dht/internal/verifnet"
	pb "github.com/libp2p/go-libp2p-kad-dht/pb"
	record "github.com/libp2p/go-libp2p-record"
	recpb "github.com/libp2p/go-libp2p-record/pb"
)

// test values: "<rank>|<tag>|<junk>"; valid for key "/v/<tag>".
func simValue(rank int, tag, junk string) []byte {
	return []byte(fmt.Sprintf("%d|%s|%s", rank, tag, junk))
}

func simParse(v []byte) (rank int, tag string, ok bool) {
	parts := strings.SplitN(string(v), "|", 3)
	if len(parts) != 3 {
		return 0, "", false
	}
	r, err := strconv.Atoi(parts[0])
	if err != nil {
		return 0, "", false
	}
	return r, parts[1], true
}

type simValidator struct{}

func (simValidator) Validate(key string, value []byte) error {
	_, tag, ok := simParse(value)
	if !ok {
		return errors.New("malformed value")
	}
	if "/v/"+tag != key {
		return errors.New("value not for this key")
	}
	// optional end of life: junk "exp=<unix seconds>" (virtual clock)
	if i := strings.Index(string(value), "exp="); i >= 0 {
		exp, err := strconv.ParseInt(string(value)[i+4:], 10, 64)
		if err == nil && time.Now().Unix() >= exp {
			return errors.New("value expired")
		}
	}
	return nil
}

// simBetter: a ranks strictly above b. Values of one rank with different bytes (another junk part) tie: Select then keeps
// the first of them, as validators do whose order is not total (e.g. two signed records with the same sequence number).
func simBetter(a, b []byte) bool {
	ra, _, _ := simParse(a)
	rb, _, _ := simParse(b)
	return ra > rb
}

func (simValidator) Select(key string, vals [][]byte) (int, error) {
	if len(vals) == 0 {
		return 0, errors.New("no values")
	}
	best := 0
	for i := 1; i < len(vals); i++ {
		if simBetter(vals[i], vals[best]) {
			best = i
		}
	}
	return best, nil
}

func simValidatorOpt() Option {
	return Validator(record.NamespacedValidator{"v": simValidator{}})
}

// valueOf builds the record a simulated peer serves for key according to its Val code.
func valueOf(code int, key string, variant int) *recpb.Record {
	tag := strings.TrimPrefix(key, "/v/")
	switch {
	case code >= 1:
		junk := ""
		if variant > 0 {
			junk = fmt.Sprintf("variant%d", variant) // same rank, other bytes: a tie under Select
		}
		return &recpb.Record{Key: []byte(key), Value: simValue(code, tag, junk)}
	case code == -1:
		return &recpb.Record{Key: []byte(key), Value: simValue(5, "othertag", "")}
	case code == -2:
		// a record filed under another key whose value would be valid (and best) for the requested key
		return &recpb.Record{Key: []byte("/v/someotherkey"), Value: simValue(9, tag, "MISKEYED")}
	case code == -3:
		return &recpb.Record{Key: []byte(key)}
	case code == -4:
		return &recpb.Record{Key: []byte(key), Value: []byte("garbage")}
	case code == -6:
		// the very bytes of the record the searching node holds locally and which has expired by the validator's rule since it
		// was stored (set by the case that planted it; cases run one after the other)
		if simExpiredLocal != nil {
			return &recpb.Record{Key: []byte(key), Value: append([]byte(nil), simExpiredLocal...)}
		}
		return &recpb.Record{Key: []byte(key), Value: []byte("garbage")}
	}
	return nil
}

var simExpiredLocal []byte

// stdHook serves values, providers and write RPCs from the scenario.
func stdHook(s *lkSc) respondHook {
	pp := ppool()
	return func(p *lkPeer, n int, req *pb.Message, base *pb.Message) *verifnet.Reply {
		switch req.Type {
		case pb.Message_GET_VALUE:
			base.Record = valueOf(p.Val, string(req.Key), p.ValVar)
		case pb.Message_GET_PROVIDERS:
			for _, x := range p.Provs {
				idx := s.ref(x)
				mp := &pb.Message_Peer{Id: []byte(pp.IDs[idx])}
				if !p.PNoAdr {
					for _, a := range s.addrOf(idx) {
						mp.Addrs = append(mp.Addrs, a.Bytes())
					}
				}
				base.ProviderPeers = append(base.ProviderPeers, mp)
			}
		case pb.Message_PUT_VALUE, pb.Message_ADD_PROVIDER:
			switch p.Put {
			case "fail":
				return &verifnet.Reply{Fail: true, Latency: time.Duration(p.LatMs) * time.Millisecond}
			case "hang":
				return &verifnet.Reply{Silent: true, Latency: 45 * time.Second}
			}
		}
		return nil
	}
}
